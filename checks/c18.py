# C18 - module paths resolve as documented, consistently across features (DESIGN 5, C18)
import re
import vlib
from vlib import Leg, hexs


def hx(s):
    return hexs(s.encode("latin1") if isinstance(s, str) else s)


# ----------------------------------------------------------------------------- set-valued observables
# Before fixes/C09-deterministic-order.diff Go iterated the candidate map in random order and sorted unstably: where
# several candidates have the same best score the code answered any of them. The model prints the set of possible
# answers; the implementation leg prints the set of answers it gave over a few repetitions. "impl agrees with model"
# = same flags and impl-set is a non-empty subset of the model set (or both empty). With the repaired code (driver
# constant fixed_order = true, rcfg field order_fixed) the model's sets are singletons (C18_resolution_single_fixed,
# C18_no_ambiguity_fixed: the AMBIG escape below never fires), so a second answer of the implementation is a deviation.
SET_RE = re.compile(r"\{([^{}]*)\}")


def subset_canon(impl, model):
    if ";" in model and "AMBIG" in model:
        # c18.project: from the step where an earlier random choice among tied candidates decided the control
        # flow (model prints AMBIG) the implementation's answers are not predicted: compare the steps before it
        ms, is_ = model.split(";"), impl.split(";")
        if len(ms) != len(is_):
            return impl
        k = ms.index("AMBIG")
        head = subset_canon(";".join(is_[:k]), ";".join(ms[:k])) if k > 0 else ""
        return model if (k == 0 or head == ";".join(ms[:k])) else impl
    a, b = SET_RE.split(impl), SET_RE.split(model)
    if len(a) != len(b) or len(a) < 3:
        return impl
    for i in range(0, len(a), 2):           # text outside the sets must be identical
        if a[i] != b[i]:
            return impl
    for i in range(1, len(a), 2):
        sa = set(x for x in a[i].split("|") if x)
        sb = set(x for x in b[i].split("|") if x)
        if not (sa <= sb and bool(sa) == bool(sb)):
            return impl
    return model


def view_proj(col):
    """observable of the c18.project model `e6:valid:{loaded}:{defs}:{hovs}:{agree}` per reference (`,`) and step (`;`)
    -> what a client of the server sees: `e6:{defs}`"""
    def ref(r):
        p = r.split(":")
        return p[0] + ":" + p[3] if len(p) == 6 else r
    return ";".join(",".join(ref(r) for r in st.split(",")) for st in col.split(";"))


class Runner18(vlib.Runner):
    def eval_cases(self, leg, cases):
        if getattr(leg, "batch_model", False):
            return self.eval_batch_cases(leg, cases)
        rows = super().eval_cases(leg, cases)
        if getattr(leg, "set_valued", False):
            rows = [(c, subset_canon(i, m), m, s, k) for (c, i, m, s, k) in rows]
        return rows


    def eval_batch_cases(self, leg, cases):
        """leg c18.batch: the implementation gets the case as it is (one HandleFileEventChanges call per `+`-joined group
        of events); the MODEL processes a batch event by event (Model/ModulePath.v pstep, one op per event: the theorem
        C18_events_full_proved is about every list of ops), so it is run - leg c18.project of the driver - on the same
        events one by one, and the steps at the ends of the groups are compared. Changed events (m) of a file that is
        there are no ops of the index model (nothing is inserted or removed)."""
        impl = vlib.run_worker([self.impl_exe, leg.name], cases, leg.per_case_s, leg.jobs)
        flat, keep = [], []
        for c in cases:
            f = c.split(" ")
            evs, ends = [], [0]
            if f[4] != "-":
                for g in f[4].split(","):
                    # ops of the index model: created / deleted (leg c18.open: didOpen `o` / didClose `x` are none either)
                    evs += [e for e in g.split("+") if e[0] in "cd"]
                    ends.append(len(evs))
            flat.append(" ".join(f[:4] + [",".join(evs) or "-"]))
            keep.append(ends)
        mod = vlib.run_worker([self.model_exe, "c18.project"], flat, 0.05)
        rows = []
        for c, i, m, ends in zip(cases, impl, mod, keep):
            parts = (m.split("\t") + ["-", "-"])[:3]
            pick = lambda col: ";".join(col.split(";")[k] for k in ends) if col.count(";") >= ends[-1] else col
            if getattr(leg, "view_only", False):
                # leg c18.open observes the real server from outside: per reference the type-6 flag and the definition files
                pick0 = pick
                pick = lambda col: view_proj(pick0(col))
            rows.append((c, subset_canon(i, pick(parts[0])), pick(parts[0]), pick(parts[1]), parts[2]))
        return rows


# ----------------------------------------------------------------------------- c18.index
DIRS = ["a", "b", "d", "lib", "x", "a/b", "d/e", "lib/a", "x/y/z"]
BASES = ["m", "init", "util", "a", "b", "lua", "l"]
ODD_NAMES = ["m.test.lua", "a.b.c", "noext", ".lua", ".hidden.lua", "m.lua.txt", "m.so", "m..lua", "init", "m.LUA", ""]


def rand_rel(rng, odd=0.1):
    d = rng.choice(DIRS + [""] * 3)
    if rng.random() < odd:
        n = rng.choice(ODD_NAMES)
    else:
        n = rng.choice(BASES) + ".lua"
    if rng.random() < odd / 2:
        d = rng.choice(["v1.2", "a.b", "d//e", "a/", "."]) + ("/" + d if d else "")
    return (d + "/" if d else "") + n


def gen_index_ops(rng, tier, absolute=True):
    n = {"quick": 6000, "thorough": 150000, "search": 2500}[tier]
    out = []
    for _ in range(n):
        malformed = rng.random() < 0.2
        style = rng.random()          # < 0.3: creations only; < 0.5: every deletion is undone at once; else free
        pool = []
        for _ in range(rng.randrange(2, 7)):
            r = rand_rel(rng, 0.35 if malformed else 0.08)
            if malformed and rng.random() < 0.15:
                r = "".join(chr(rng.choice([46, 47, 47, 97, 109, 0x80, 0xff, 32, 46])) for _ in range(rng.randrange(0, 7)))
            root = "/ws/" if absolute or rng.random() < 0.5 else ""
            if not absolute and rng.random() < 0.3:
                root = rng.choice(["", "./", "ws/"])
            pool.append(root + r)
        present = []
        ops = []
        for _ in range(rng.randrange(1, 13)):
            x = rng.random()
            if x < 0.5 or not present or style < 0.3:
                p = rng.choice(pool)
                ops.append("i" + hx(p))
                if p not in present:
                    present.append(p)
            elif x < 0.85:
                p = rng.choice(present)
                ops.append("r" + hx(p))
                if style < 0.5:
                    ops.append("i" + hx(p))
                else:
                    present.remove(p)
            else:
                cand = [q for q in pool if q not in present] if style < 0.5 else pool
                if cand:
                    ops.append("r" + hx(rng.choice(cand)))
        probes = set()
        for p in pool:
            name = p.split("/")[-1]
            probes.add(name)
            probes.add(name.split(".")[0])
            if rng.random() < 0.2:
                probes.add(p)
        probes.add(rng.choice(BASES))
        probes = sorted(probes)[:8]
        out.append(",".join(hx(x) for x in probes) + " " + ",".join(ops))
    return out


def shrink_index(case):
    ps, ops = case.split(" ")
    ol = ops.split(",")
    for i in range(len(ol)):
        r = ol[:i] + ol[i + 1:]
        if r:
            yield ps + " " + ",".join(r)
    pl = ps.split(",")
    for i in range(len(pl)):
        r = pl[:i] + pl[i + 1:]
        if r:
            yield ",".join(r) + " " + ops


def index_nontrivial(c):
    ops = c.split(" ")[1].split(",")
    return len(ops) >= 2


# ----------------------------------------------------------------------------- c18.resolve
_case_no = [0]


def new_root(rng):
    _case_no[0] += 1
    return "/tmp/lhv18/g%x-%d/ws" % (rng.getrandbits(40), _case_no[0])


def gen_tree(rng, malformed):
    files = {}
    for _ in range(rng.randrange(2, 9)):
        # names with a second '.' and directories with a '.' belong to the proved domain since fixes/C18-dotted-path.diff
        rel = rand_rel(rng, 0.3 if malformed else 0.06)
        if rel.endswith("/") or rel == "" or "//" in rel or rel.startswith(".") and "/" not in rel[:2] and rel[:2] == "./":
            continue
        comps = rel.split("/")
        if any(c in ("", ".", "..") for c in comps):
            continue
        # a path cannot be both a file and a directory
        if any(o.startswith(rel + "/") or rel.startswith(o + "/") for o in files):
            continue
        if rel.endswith(".lua") or (malformed and rng.random() < 0.1):
            files[rel] = "L" if rng.random() < 0.95 else "X"
        else:
            files[rel] = "D"
    # duplicate base names / init.lua / .so on purpose
    for _ in range(rng.randrange(0, 3)):
        lua = [f for f in files if f.endswith(".lua")]
        if not lua:
            break
        f = rng.choice(lua)
        base = f.split("/")[-1]
        x = rng.random()
        if x < 0.4:
            g = rng.choice(DIRS) + "/" + base
        elif x < 0.6:
            g = f[:-4] + "/init.lua"
        elif x < 0.8:
            g = f[:-4] + ".so"
        else:
            g = rng.choice(DIRS) + "/" + f
        if g in files or any(o.startswith(g + "/") or g.startswith(o + "/") for o in files):
            continue
        if any(c in ("", ".", "..") for c in g.split("/")):
            continue
        files[g] = "D" if g.endswith(".so") else "L"
    return files


def module_strings(rng, files, malformed):
    lua = [f for f in files if files[f] in "LX"] or ["m.lua"]
    f = rng.choice(lua)
    stem = f[:-4] if f.endswith(".lua") else f.split(".")[0]
    if stem.endswith("/init") and rng.random() < 0.7:
        stem = stem[:-5]
    comps = stem.split("/")
    k = rng.randrange(0, len(comps))
    tail = comps[k:]                    # a path suffix of the file, as the fuzzy mode allows
    x = rng.random()
    if x < 0.35:
        s = ".".join(tail)
    elif x < 0.6:
        s = "/".join(tail)
    elif x < 0.7 and len(tail) > 1:
        s = tail[0] + "/" + ".".join(tail[1:])
    elif x < 0.8:
        s = "/".join(tail) + ".lua"
    elif x < 0.85:
        s = "./" + "/".join(tail)
    elif x < 0.92:
        s = rng.choice(BASES + ["nope", "socket.core", "string", "x.y"])
    else:
        s = ".".join(tail[:-1] + [rng.choice(BASES)])
    if malformed and rng.random() < 0.3:
        s = rng.choice([s + ".", "." + s, s + "/", s.replace(".", ".."), s.upper(), "", s + ".so", s + "/init", s + ".lua.lua"])
    return s


def gen_resolve(rng, tier):
    n = {"quick": 10000, "thorough": 250000, "search": 3000}[tier]
    out = []
    for _ in range(n):
        malformed = rng.random() < 0.2
        files = gen_tree(rng, malformed)
        if not files:
            continue
        lua = [f for f in files if files[f] == "L"]
        cur = rng.choice(lua) if lua and rng.random() < 0.8 else rng.choice(DIRS) + "/cur.lua"
        kind = rng.choice("rrrrrrdlfg")
        s = module_strings(rng, files, malformed)
        if kind in "dlf" and rng.random() < 0.8 and not s.endswith(".lua"):
            s = s.replace(".", "/") + ".lua"
        exact = "1" if rng.random() < 0.12 else "0"
        ign = "-"
        if rng.random() < 0.05:
            ign = hx(s[2:] if s.startswith("./") else s) or "-"
            if ign == "-":
                ign = hx("zz")
        fl = ",".join(files[f] + hx(f) for f in sorted(files, key=lambda z: rng.random()))
        out.append("%s %s %s %s %s %s %s" % (hx(new_root(rng)), exact, kind, hx(cur), hx(s), fl, ign))
    return out


def shrink_resolve(case):
    f = case.split(" ")
    fl = f[5].split(",")
    for i in range(len(fl)):
        r = fl[:i] + fl[i + 1:]
        if r:
            yield " ".join(f[:5] + [",".join(r)] + f[6:])


def resolve_describe(c):
    f = c.split(" ")
    try:
        dec = lambda h: "" if h == "-" else bytes.fromhex(h).decode("latin1")
        return "exact=%s kind=%s cur=%s refer=%r files=[%s]" % (f[1], f[2], dec(f[3]), dec(f[4]),
                                                                 " ".join(x[0] + ":" + dec(x[1:]) for x in f[5].split(",")))
    except Exception:
        return c[:200]


# ----------------------------------------------------------------------------- c18.openlist
def gen_openlist(rng, tier):
    n = {"quick": 2000, "thorough": 40000, "search": 800}[tier]
    alpha = "abmx_09/.-"
    out = []
    for _ in range(n):
        call = rng.choice("rrd")
        s = "".join(rng.choice(alpha) for _ in range(rng.randrange(1, 9)))
        if rng.random() < 0.5:
            s = rng.choice(["a.b", "a/b", "m", "x/init", "a.b.lua", "lua", "a..b", "m.lua", "./m", "a-b.m_0"])
        if call == "d":
            s = s.replace(".", "/") + ".lua"     # the dofile pattern only accepts [0-9a-zA-Z_/-]+ followed by ?lua
        pre = {"r": 'local m = require("', "d": 'dofile("'}[call]
        if s in pre:                              # the code searches the string from the start of the call expression
            continue
        out.append(call + " " + hx(s))
    return out


# ----------------------------------------------------------------------------- c18.cursor
# which of the two variants of GetOpenFileStr the model follows (mirrors ocaml/c18_run.ml fixed_cursor): with the code
# before fixes/C18-string-cursor.diff the c18.project model (string taken as given) is faithful only where the text
# search happens to find the string
FIXED_CURSOR = True

# module names that occur inside the words the old text search ran over (require / dofile / the configured import
# names / "lua"), and ordinary ones
INSIDE_NAMES = ["r", "re", "req", "ire", "e", "qui", "u", "ui", "equ", "require", "do", "of", "file", "dofile", "d", "f", "il",
                "l", "lu", "ua", "a", "lua", "im", "imp", "port", "import", "or", "my", "yim", "myimp", "local", "m0"]
PLAIN_NAMES = ["m", "mm", "a.b", "d/m", "x/y.z", "a-b", "m_0", "./m", "./d/m", "lib.util", "init", "a..b", "m.lua", "x.lua.lua"]
REFER_SETS = [["import"], ["import"], ["import", "myimp"], [], ["a.imp"], ["myimp", "import"], ["imp"]]


def cursor_expr(rng, refers):
    """one import expression (mostly one the patterns accept) -> text"""
    fn = rng.choice(["require"] * 5 + ["dofile"] * 3 + (refers or ["import"]) * 2 + ["loadfile", "print", "xrequire", "dofiles"])
    name = rng.choice(INSIDE_NAMES) if rng.random() < 0.55 else rng.choice(PLAIN_NAMES)
    if fn == "dofile" or rng.random() < 0.25:
        if not name.endswith(".lua") and rng.random() < 0.85:
            name = name.replace(".", "/") + rng.choice([".lua"] * 6 + ["_lua", ".luaa"])
    q = rng.choice(['"'] * 5 + ["'"] * 4 + ["|"])
    q2 = q if rng.random() < 0.9 else rng.choice(['"', "'"])
    sp1 = rng.choice(["", "", "", " ", "  "])
    sp2 = rng.choice(["", "", "", " "])
    paren = rng.random() < 0.75 or fn == "dofile" and rng.random() < 0.9
    if rng.random() < 0.04:
        name = rng.choice(["", "a b", "a*b", "é", "a|b", "\\", "a\"b"])
    return fn + sp1 + ("(" if paren else "") + sp2 + q + name + q2 + sp2 + (")" if paren else "")


def gen_cursor(rng, tier):
    n_lines = {"quick": 260, "thorough": 6000, "search": 120}[tier]
    out = []
    for _ in range(n_lines):
        refers = rng.choice(REFER_SETS)
        parts = []
        k = rng.choice([1, 1, 1, 2, 2, 3])
        x = rng.random()
        if x < 0.2:
            parts.append(rng.choice(['local s = "\u00e9\u00e9"; ', "-- \u4e2d\u6587 ", 'print("\u00fc") ', "local t = {'\u00e9'}; "]))
        elif x < 0.5:
            parts.append(rng.choice(["local a = ", "local a, b = ", "return ", "x = ", "  ", "\t"]))
        for i in range(k):
            e = cursor_expr(rng, refers)
            if i > 0 and rng.random() < 0.4:
                e = exprs_prev if rng.random() < 0.7 else e      # the same expression twice on the line
            exprs_prev = e
            parts.append(e)
            if i + 1 < k:
                parts.append(rng.choice([", ", "; ", " .. ", " ", ""]))
        if rng.random() < 0.15:
            parts.append(rng.choice([" -- require(\"m\")", " --", " ; local z = 're'", ".x"]))
        line = "".join(parts)
        if rng.random() < 0.03:
            line = rng.choice(["", '"', "require", 'require("', "require()"])
        nl = rng.choice(["\n", "\n", "\r\n", "\r"])
        pre = rng.choice(["", "", "local x = 1" + nl, 'require("zz")' + nl + nl, "--" + nl])
        post = rng.choice(["", "", nl, nl + 'dofile("q.lua")', nl + nl])
        if not (pre + line + post):
            continue
        lb = line.encode("utf-8")
        # every character position of the line (BMP only: one UTF-16 unit per character), plus the end of the line
        cols, b = [], 0
        for ch_i, c in enumerate(line):
            cols.append((b, ch_i))
            b += len(c.encode("utf-8"))
        cols.append((b, len(line)))
        if tier != "thorough" and len(cols) > 30:
            # all columns inside and next to quoted strings, a sample of the others
            keep = set()
            for i, c in enumerate(line):
                if c in "\"'|":
                    keep.update(range(max(0, i - 1), min(len(cols), i + 3)))
            inq, acc = False, set()
            for i, c in enumerate(line):
                if c in "\"'":
                    inq = not inq
                if inq:
                    acc.add(i)
            keep |= acc
            keep |= set(rng.sample(range(len(cols)), 6))
            cols = [cols[i] for i in sorted(keep) if i < len(cols)]
        rh = ",".join(hx(r) for r in refers) or "-"
        for (bc, cc) in cols:
            out.append("%s %s %s %d %d %s" % (hx(pre.encode("utf-8")) or "-", hx(lb) or "-", hx(post.encode("utf-8")) or "-", bc, cc, rh))
    return out


def cursor_describe(c):
    try:
        f = c.split(" ")
        dec = lambda h: "" if h == "-" else bytes.fromhex(h).decode("utf-8", "replace")
        return "line=%r byte column=%s character=%s pre=%r post=%r import names=%s" % (
            dec(f[1]), f[3], f[4], dec(f[0]), dec(f[2]), [dec(x) for x in f[5].split(",")] if f[5] != "-" else [])
    except Exception:
        return c[:200]


# ----------------------------------------------------------------------------- c18.project
def extractable(kind, s):
    """the module string is one the regular expressions of GetOpenFileStr extract at the cursor (oracle boundary)"""
    if not s or not re.fullmatch(r"[0-9a-zA-Z_/.\-]+", s):
        return False
    if kind == "d":
        return s.endswith(".lua") and re.fullmatch(r"[0-9a-zA-Z_/\-]+", s[:-4]) is not None
    # before fixes/C18-string-cursor.diff the string was searched for by its text from the start of the expression
    return FIXED_CURSOR or ('require("' + s + '")').find(s) == 9


def gen_project(rng, tier, n=None):
    n = n or {"quick": 2500, "thorough": 50000, "search": 400}[tier]
    out = []
    # calcMatchStrScore measures from the occurrence of "/" + name (fixes/C18-score-position.diff): the extreme tree in
    # which the analysis and definition chose different files for the module "a" (found inside ".lua" by the text
    # search): main.lua in a directory NAMED a.lu, 100 directories deep, next to a.lua; another a.lua 99 deep
    deep_d, deep_c = "/".join(["d"] * 100), "/".join(["c"] * 99)
    out.append("%s %s %s %s -" % (hx(new_root(rng)), "L" + hx(deep_d + "/a.lua") + ",L" + hx(deep_c + "/a.lua"),
                                  hx(deep_d + "/a.lu/main.lua"), "r" + hx("a")))
    while len(out) < n:
        # the directory scan only takes *.lua files: everything else on disk is not part of the workspace
        files = {f: (k if f.endswith(".lua") else "D") for f, k in gen_tree(rng, rng.random() < 0.2).items() if k in "LD"}
        lua = [f for f in files if files[f] == "L"]
        if not lua:
            continue
        cur = "main.lua" if rng.random() < 0.5 else rng.choice(DIRS) + "/main.lua"
        if cur in files or any(o.startswith(cur + "/") or cur.startswith(o + "/") for o in files):
            continue
        refs = []
        if FIXED_CURSOR and rng.random() < 0.25:
            # a module whose name occurs inside the word `require` / in the line before the string
            nm = rng.choice(["re", "u", "e", "ire", "qui", "r", "m0", "local"])
            f = rng.choice(DIRS + [""] * 3)
            f = (f + "/" if f else "") + nm + rng.choice([".lua", ".lua", "/init.lua"])
            if f != cur and not any(o == f or o.startswith(f + "/") or f.startswith(o + "/") for o in list(files) + [cur]):
                files[f] = "L"
                lua.append(f)
                refs.append(rng.choice("rq") + hx(nm))
        for _ in range(rng.randrange(1, 4)):
            kind = rng.choice("rrrd")
            s_ = module_strings(rng, files, False)
            if kind == "d":
                s_ = s_.replace(".lua", "").replace(".", "/") + ".lua"
            if extractable(kind, s_) and "//" not in s_ and not s_.startswith("/"):
                if FIXED_CURSOR and rng.random() < 0.3:
                    kind = {"r": "q", "d": "D"}[kind]        # single quotes: require 's' / dofile('s')
                refs.append(kind + hx(s_))
        if not refs:
            continue
        present = set(lua)
        gone = []
        evs = []
        for _ in range(rng.randrange(0, 6)):
            x = rng.random()
            if x < 0.4 and present:
                f = rng.choice(sorted(present))
                evs.append("d" + hx(f)); present.discard(f); gone.append(f)
            elif x < 0.6 and gone:
                f = rng.choice(gone)
                evs.append("c" + hx(f)); present.add(f)
            else:
                # create what a reference is looking for, a duplicate base name elsewhere, or an init.lua variant
                r = rng.choice(refs)
                stem = bytes.fromhex(r[1:]).decode("latin1")
                stem = stem[2:] if stem.startswith("./") else stem
                stem = (stem[:-4] if r[0] in "dD" else stem.replace(".", "/"))
                y = rng.random()
                if y < 0.35:
                    f = stem + ".lua"
                elif y < 0.55:
                    f = stem + "/init.lua"
                elif y < 0.8:
                    f = rng.choice(DIRS) + "/" + stem + ".lua"
                elif y < 0.88:
                    # near misses of the name cut: a second '.' in the name, a '.' in a directory
                    f = rng.choice([stem + ".test.lua", "v1.2/" + stem + ".lua", stem.replace("/", ".") + ".lua"])
                else:
                    f = rand_rel(rng, 0.2)
                comps = f.split("/")
                if any(c in ("", ".", "..") for c in comps) or f == cur or not f.endswith(".lua"):
                    continue
                allf = set(files) | present | {cur}
                if any(o.startswith(f + "/") or f.startswith(o + "/") for o in allf):
                    continue
                evs.append("c" + hx(f)); present.add(f)
        fl = ",".join(files[f] + hx(f) for f in sorted(files, key=lambda z: rng.random()))
        out.append("%s %s %s %s %s" % (hx(new_root(rng)), fl, hx(cur), ",".join(refs), ",".join(evs) if evs else "-"))
    return out


def gen_batch(rng, tier):
    """ONE batch of file events (one workspace/didChangeWatchedFiles notification) naming the SAME path more than once
    (seeded changes C18-6 / C08-6: events de-duplicated / filtered per path inside a batch): `d c` = file replaced on disk by
    remove + create (there afterwards: still indexed, no type-6, definition finds it), `c d` = short-lived file (gone: not
    indexed, type-6), `m d`, `c m`, three events; with and without other paths in the same batch. Trees, current file and
    references come from gen_project; the paths are the modules of the tree and the files its events create."""
    n = {"quick": 600, "thorough": 12000, "search": 300}[tier]
    out = []
    for base in gen_project(rng, tier, n=n):
        f = base.split(" ")
        present = set(bytes.fromhex(x[1:]).decode("latin1") for x in f[1].split(",") if x[0] == "L")
        cands = sorted(present | set(bytes.fromhex(e[1:]).decode("latin1") for e in (f[4].split(",") if f[4] != "-" else [])))
        # the files the references are about first
        want = []
        for r in f[3].split(","):
            stem = bytes.fromhex(r[1:]).decode("latin1")
            stem = stem[2:] if stem.startswith("./") else stem
            stem = stem[:-4] if r[0] in "dD" else stem.replace(".", "/")
            want += [c for c in cands if c[:-4].endswith(stem) or c[:-4].endswith(stem + "/init")]
        groups = []
        for _ in range(rng.choice([1, 1, 2, 3])):
            x = rng.choice(want) if want and rng.random() < 0.75 else rng.choice(cands)
            evs = []
            for _ in range(rng.choice([2, 2, 2, 3])):
                if x in present:
                    if rng.random() < 0.7:
                        evs.append("d" + hx(x)); present.discard(x)
                    else:
                        evs.append("m" + hx(x))
                else:
                    evs.append("c" + hx(x)); present.add(x)
            for y in rng.sample(cands, min(len(cands), rng.choice([0, 0, 0, 1, 2]))):
                if y == x:
                    continue
                if y in present:
                    e = rng.choice("dm") + hx(y)
                    if e[0] == "d":
                        present.discard(y)
                else:
                    e = "c" + hx(y); present.add(y)
                evs.insert(rng.randrange(len(evs) + 1), e)
            groups.append("+".join(evs))
            if rng.random() < 0.3:
                # an ordinary single event in between
                y = rng.choice(cands)
                if y in present:
                    groups.append("d" + hx(y)); present.discard(y)
                else:
                    groups.append("c" + hx(y)); present.add(y)
        out.append(" ".join(f[:4] + [",".join(groups)]))
    # native modules are outside this leg (see open_wellformed)
    return [c for c in out if open_wellformed(c)]


def _dec(h):
    return bytes.fromhex(h).decode("latin1")


def gen_open(rng, tier):
    """Histories of the REAL server (harness leg c18.open) in which watched-files events (created / changed / deleted) name
    files that have an OPEN document at that moment (seeded change C18-7: such events skipped): `o` didOpen of a module
    that is on disk, then its file is deleted / rewritten / deleted and created again, with or without a didClose `x`
    afterwards, mixed with events of files that are not open. Demand (C18_events_full_proved: any history = fresh
    start): after every step the type-6 diagnostics of the requiring file and the definition on every module string
    are those of the model after the same created / deleted events = those of a fresh start on the disk of that moment
    - an open document does not keep a deleted file in the index. Trees, current file, references: gen_project."""
    n = {"quick": 110, "thorough": 4000, "search": 150}[tier]
    out = []
    root = lambda: hx(new_root(rng))
    M, U = "lib/mod.lua", "util.lua"
    # the shapes of the seeded change first: delete while open (then close), rewrite while open, replace while open
    for refs, evs in [(["r" + hx("lib.mod")], ["o" + hx(M), "d" + hx(M)]),
                      (["r" + hx("lib.mod"), "q" + hx("mod")], ["o" + hx(M), "d" + hx(M), "x" + hx(M)]),
                      (["r" + hx("lib.mod")], ["o" + hx(M), "m" + hx(M), "x" + hx(M), "d" + hx(M)]),
                      (["r" + hx("lib.mod"), "d" + hx("util.lua")], ["o" + hx(M), "o" + hx(U), "d" + hx(M) + "+d" + hx(U), "c" + hx(M), "x" + hx(M)]),
                      (["q" + hx("mod")], ["c" + hx("x/mod.lua"), "o" + hx("x/mod.lua"), "d" + hx(M), "d" + hx("x/mod.lua"), "x" + hx("x/mod.lua")])]:
        out.append("%s %s %s %s %s" % (root(), "L" + hx(M) + ",L" + hx(U), hx("main.lua"), ",".join(refs), ",".join(evs)))
    for base in gen_project(rng, tier, n=n + 1)[1:]:
        f = base.split(" ")
        present = set(_dec(x[1:]) for x in f[1].split(",") if x[0] == "L")
        cands = sorted(present | set(_dec(e[1:]) for e in (f[4].split(",") if f[4] != "-" else [])))
        want = []
        for r in f[3].split(","):
            stem = _dec(r[1:])
            stem = stem[2:] if stem.startswith("./") else stem
            stem = stem[:-4] if r[0] in "dD" else stem.replace(".", "/")
            want += [c for c in cands if c[:-4].endswith(stem) or c[:-4].endswith(stem + "/init")]
        opened, groups = [], []
        pick = lambda pool: rng.choice([p for p in pool if p in want] or pool) if rng.random() < 0.7 else rng.choice(pool)
        for _ in range(rng.choice([2, 3, 3, 4, 5, 6])):
            x = rng.random()
            closed_here = sorted(present - set(opened))
            if (x < 0.35 or not opened) and closed_here:
                y = pick(closed_here)
                groups.append("o" + hx(y)); opened.append(y)
            elif x < 0.75 and opened:
                # an event of an open file (whatever its state on disk)
                y = rng.choice(opened)
                if y in present:
                    e = rng.choice("dddm")
                    if e == "d":
                        present.discard(y)
                else:
                    e = "c"; present.add(y)
                g = e + hx(y)
                if rng.random() < 0.2:
                    z = rng.choice(cands)          # another path in the same notification
                    if z != y:
                        if z in present:
                            g += "+d" + hx(z); present.discard(z)
                        else:
                            g += "+c" + hx(z); present.add(z)
                groups.append(g)
            elif x < 0.87 and opened:
                y = rng.choice(opened)
                groups.append("x" + hx(y)); opened.remove(y)
            else:
                y = rng.choice(cands)
                if y in present:
                    groups.append("d" + hx(y)); present.discard(y)
                else:
                    groups.append("c" + hx(y)); present.add(y)
        out.append(" ".join(f[:4] + [",".join(groups)]))
    return out


def open_wellformed(case):
    """every didOpen names a file that is on disk at that moment and is not open (didOpen of an unknown path is a
    Created event of its own: class C08 / C02, not this leg), every didClose an open one"""
    f = case.split(" ")
    # native modules (`name.so`) are outside this leg: the theorems' domain is workspaces of .lua files, and the real server
    # treats .so files on a route of its own (no watched-file events for them, a file-exists cache); found by the thorough
    # tier: `require(".lua")` beside a file `lua.so` is tolerated by the server's start-up scan (no type 6)
    if any(x[0] == "D" and _dec(x[1:]).endswith(".so") for x in f[1].split(",") if x):
        return False
    present = set(_dec(x[1:]) for x in f[1].split(",") if x[0] in "LD")
    opened = set()
    for g in (f[4].split(",") if f[4] != "-" else []):
        for e in g.split("+"):
            p = _dec(e[1:])
            if e[0] == "o":
                if p not in present or p in opened:
                    return False
                opened.add(p)
            elif e[0] == "x":
                if p not in opened:
                    return False
                opened.discard(p)
            elif e[0] == "d":
                present.discard(p)
            else:
                present.add(p)
    return True


def shrink_open(case):
    return (c for c in shrink_batch(case) if open_wellformed(c))


def open_nontrivial(c):
    """a watched-files event names a file that has an open document"""
    opened = set()
    for g in c.split(" ")[4].split(","):
        for e in g.split("+"):
            if e[0] == "o":
                opened.add(e[1:])
            elif e[0] == "x":
                opened.discard(e[1:])
            elif e[1:] in opened:
                return True
    return False


def shrink_batch(case):
    f = case.split(" ")
    gl = f[4].split(",") if f[4] != "-" else []
    for i, g in enumerate(gl):
        es = g.split("+")
        if len(es) > 1:
            for j in range(len(es)):
                yield " ".join(f[:4] + [",".join(gl[:i] + ["+".join(es[:j] + es[j + 1:])] + gl[i + 1:])])
    yield from shrink_project(case)


def project_describe(c):
    try:
        dec = lambda h: "" if h == "-" else bytes.fromhex(h).decode("latin1")
        f = c.split(" ")
        return "files=[%s] cur=%s refs=[%s] events=[%s]" % (
            " ".join(x[0] + ":" + dec(x[1:]) for x in f[1].split(",")), dec(f[2]),
            " ".join(x[0] + ":" + dec(x[1:]) for x in f[3].split(",")),
            " ".join("+".join(x[0] + ":" + dec(x[1:]) for x in g.split("+")) for g in f[4].split(",")) if f[4] != "-" else "")
    except Exception:
        return c[:200]


def shrink_project(case):
    f = case.split(" ")
    for col in (4, 3, 1):
        if f[col] == "-":
            continue
        l = f[col].split(",")
        for i in range(len(l)):
            r = l[:i] + l[i + 1:]
            if r or col == 4:
                g = list(f)
                g[col] = ",".join(r) if r else "-"
                yield " ".join(g)


LEGS = [
    Leg("c18.index", lambda rng, tier: gen_index_ops(rng, tier, True), shrink=shrink_index, nontrivial=index_nontrivial),
    Leg("c18.index_any", lambda rng, tier: gen_index_ops(rng, "search" if tier == "quick" else tier, False)[:1500 if tier == "quick" else 20000],
        deciding=False, nontrivial=index_nontrivial),
    Leg("c18.resolve", gen_resolve, shrink=shrink_resolve, per_case_s=0.2, describe=resolve_describe),
    Leg("c18.openlist", gen_openlist),
    Leg("c18.cursor", gen_cursor, oracle="c18.cursor_rx", describe=cursor_describe,
        nontrivial=lambda c: c.split(" ")[6].count(".") > 0),
    Leg("c18.project", gen_project, shrink=shrink_project, per_case_s=1.0, describe=project_describe,
        nontrivial=lambda c: c.split(" ")[4] != "-"),
    # batches of events naming one path several times (the model takes the batch event by event: Runner18.eval_batch_cases)
    Leg("c18.batch", gen_batch, shrink=shrink_batch, per_case_s=1.0, describe=project_describe),
    # the REAL server (workspace/didChangeWatchedFiles through LspServer), events of files that have an open document
    Leg("c18.open", gen_open, shrink=shrink_open, per_case_s=2.0, jobs=max(1, min(vlib.NCPU, 8)), describe=project_describe,
        nontrivial=open_nontrivial),
]
LEGS[2].set_valued = True
LEGS[5].set_valued = True
LEGS[6].batch_model = True
LEGS[7].batch_model = True
LEGS[7].view_only = True

TRUSTED = vlib.TRUSTED_COMMON + [
    "oracle: the file system (filefolder.IsFileExist behind FileExistCache) = Section variable disk; the OCaml driver's path normalisation stands for the OS",
    "oracle: Go's regular-expression engine on the line under the cursor (stringutil.GetOpenFileStr: WHERE the import expressions and their quoted literals match - harness leg c18.cursor_rx); modelled on top of it: which literal holds the cursor (cursor_pick), the candidate list (open_list)",
    "modelled, tied by correspondence: common.FileIndexInfo (Insert/Remove/lookups) with common.LuaSuffixIndex / CompleteFilePathToPreStr, calcMatchStrScore, GetBestMatchReferFile / GetBestMatchSuffixFile (the best-scored candidate with the least path), FileResult.CheckReferFile, ReanalyseReferInfo on create/delete events, the tail of stringutil.GetOpenFileStr, FindOpenFileDefine; the variants before each repair are kept in Coq under one boolean per repair (ocaml/c18_run.ml fixed_*)",
    "leg c18.batch: one HandleFileEventChanges call with several events, the same path named more than once; the model takes the batch event by event (the driver's c18.project leg on the flattened events, the steps at the batch ends compared: checks/c18.py eval_batch_cases); a Changed event of an indexed file is no op of the index model; Changed of a file that is not indexed is not generated here (C08 class changed_unknown)",
    "leg c18.open: the real language server (harness/srv_script.go, fresh process per case) gets the history as LSP messages - didOpen / didClose of module files and workspace/didChangeWatchedFiles for files that are OPEN at that moment; observed from outside: published type-6 diagnostics of the requiring file and textDocument/definition on each module string, compared with the c18.project model on the created / deleted events alone (didOpen / didClose / Changed of a file that is there are no ops of the index model; didOpen only of files that are on disk)",
    "assumed configuration shape: one workspace root, no sub-directories / client ext path, first analysis pass; no file-type associations (every workspace file ends in .lua: guard all_lua of the resolution theorems; a workspace with another indexed file type is run but makes no demand, class non_lua_file)",
]


def main(tier, seed):
    r = Runner18("C18", tier, seed)
    r.build()
    can_run = r.can_run()
    if can_run:
        r.replay_findings({l.name: l for l in LEGS})
        for leg in LEGS:
            r.run_leg(leg)
    return r.finish(LEGS, trusted=TRUSTED, assumptions=[
        "hover/definition: the places where the import expressions match on the line are an oracle (Go regexp); which string the cursor is in, and everything after, is modelled",
        "ties between equally scored candidates are allowed by C18 (any documented match conforms); since fixes/C09-deterministic-order.diff the code resolves them by the path (C09_best_match_perm_full) and the model predicts that single answer"])
