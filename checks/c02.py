# C02 - the server's copy of an open document always equals the client's text (DESIGN 5, C02)
#
# Legs (all compare the REAL code with the model extracted from coq/Model/TextSync.v, and with the LSP reading of
# the same input extracted from coq/Spec/LspText.v):
#   c02.offsets      offsetForStartAndEnd on (document bytes, start, end)
#   c02.apply        FileMapCache.ApplyContentChanges on raw bytes (malformed input; model only)
#   c02.history      conformant notification histories through the real handlers of a real LspServer
#   c02.history_bad  the same handlers on histories a conforming client never sends (model only where non-conformant)
#   c02.uri / c02.uri3  pathpre.VscodeURIToString (URI -> cache key) with preFixStr "file://" / "file:///" against the
#                    model's decode (Model/TextSyncUri.v uri_key) and the RFC 3986 reading
#   c02.rootprefix   pathpre.InitialRootURIAndPath (which prefix is removed), one fresh process per case
# The histories name their documents by URIs (first token U:<names>): names that differ only in '+' / %20 / %2B,
# percent-encoded UTF-8, upper/lower-case hex, malformed escapes, backslashes; didSave without text is in the alphabet.
# The generators below contain a Python copy of the LSP position rules ONLY to produce conformant edits; whether a
# case is conformant, what the client text is and which class it falls in is decided by the code extracted from Coq.
import vlib
from vlib import Leg, hexs, log

# ------------------------------------------------------------------ alphabets
SMALL = ["a", "\n", "\r", "é", "中", "😀"]
# no quote, backslash or '[' : the lexer defects recorded under C01 must not kill the worker of this property
ASCII = list("abcxyzXYZ019 _=(),.+-*<>;:#") + ["local ", "end", "if ", "function f()", "x = 1", "-- c"]
TWO = list("éñüßЖдαΩ") + ["\u0080", "߿"]
THREE = list("中文漢字テかな한€") + ["ࠀ", "￿", "퟿", "", "﻿"]
FOUR = ["😀", "🚀", "𝔘", "\U00010000", "\U0010ffff", "𠀀"]
MODES = [  # (weight, name, [(weight, pool)])
    (15, "plain", [(8, ASCII), (2, ["\n"])]),
    (45, "guard", [(8, ASCII), (1, ["\t"]), (2, TWO), (3, THREE), (2, ["\n"]), (2, ["\r\n"])]),
    (15, "astral", [(6, ASCII), (1, ["\t"]), (1, TWO), (2, THREE), (4, FOUR), (2, ["\n"]), (1, ["\r\n"])]),
    (15, "cr", [(6, ASCII), (1, ["\t"]), (1, TWO), (2, THREE), (2, ["\n"]), (2, ["\r\n"]), (3, ["\r"])]),
    (10, "all", [(6, ASCII), (1, ["\t"]), (1, TWO), (2, THREE), (2, FOUR), (2, ["\n"]), (2, ["\r\n"]), (2, ["\r"])]),
]


def wchoice(rng, pairs):
    tot = sum(w for w, _ in pairs)
    x = rng.random() * tot
    for w, v in pairs:
        x -= w
        if x < 0:
            return v
    return pairs[-1][1]


def pick_mode(rng):
    return wchoice(rng, [(w, (name, pools)) for w, name, pools in MODES])


def rand_text(rng, pools, n):
    return "".join(rng.choice(wchoice(rng, pools)) for _ in range(n))


def cps(s):
    return ".".join("%x" % ord(c) for c in s) if s else "-"


def u16(c):
    return 2 if ord(c) >= 0x10000 else 1


def positions(s):
    """[(line, col, index)] of all LSP positions of s (lines end at LF, CRLF, CR; columns in UTF-16 units)."""
    out, line, col, after_cr = [], 0, 0, False
    for i, c in enumerate(s):
        if after_cr and c == "\n":
            after_cr = False
            continue
        out.append((line, col, i))
        after_cr = False
        if c == "\n":
            line, col = line + 1, 0
        elif c == "\r":
            line, col, after_cr = line + 1, 0, True
        else:
            col += u16(c)
    out.append((line, col, len(s)))
    return out


BIG = 4294967295


def bad_positions(s, ps):
    """positions that are NOT positions of s: beyond line ends, beyond the last line, inside a surrogate pair / CRLF"""
    have = {(l, c) for l, c, _ in ps}
    cand = set()
    for l, c, _ in ps:
        for q in ((l, c + 1), (l, c + 2), (l + 1, 0), (l + 1, 1), (l, BIG), (BIG, 0), (l + 2, 0)):
            if q not in have:
                cand.add(q)
    return sorted(cand)


# ------------------------------------------------------------------ c02.offsets
def off_case(s, p, q):
    return "%s %s %d %d %d %d" % (hexs(s.encode("utf8")), cps(s), p[0], p[1], q[0], q[1])


def all_docs(alpha, maxlen):
    docs = [""]
    layer = [""]
    for _ in range(maxlen):
        layer = [d + a for d in layer for a in alpha]
        docs += layer
    return docs


def gen_offsets(rng, tier):
    out = []
    maxlen, nrand, nbad = {"quick": (4, 8000, 3000), "thorough": (5, 150000, 60000), "search": (3, 8000, 4000)}[tier]
    for d in all_docs(SMALL, maxlen):
        pl = positions(d)
        ps = [(l, c) for l, c, _ in pl]
        for p in ps:                     # every pair of positions of the document (also reversed ones)
            for q in ps:
                out.append(off_case(d, p, q))
        bad = bad_positions(d, pl)       # and what is not a position of it: model-only cases
        if len(d) > 2:
            bad = rng.sample(bad, min(3, len(bad)))
        for b in bad:
            out.append(off_case(d, b, b))
            out.append(off_case(d, ps[0], b))
            out.append(off_case(d, b, ps[-1]))
            out.append(off_case(d, rng.choice(ps), b))
    for _ in range(nrand):
        _, pools = pick_mode(rng)
        d = rand_text(rng, pools, rng.choice([0, 1, 2, 4, 8, 8, 16, 30, 60]))
        pl = positions(d)
        ps = [(l, c) for l, c, _ in pl]
        m = rng.random()
        if m < 0.7:
            i = rng.randrange(len(ps)); j = rng.randrange(i, len(ps))
            if rng.random() < 0.25:
                j = len(ps) - 1
            if rng.random() < 0.15:
                i = j
            p, q = ps[i], ps[j]
        elif m < 0.8:
            p, q = rng.choice(ps), rng.choice(ps)     # possibly reversed
        else:
            bad = bad_positions(d, pl)
            p = rng.choice(bad) if rng.random() < 0.5 else rng.choice(ps)
            q = rng.choice(bad) if rng.random() < 0.7 else rng.choice(ps)
        out.append(off_case(d, p, q))
    # malformed stream: byte strings that are not UTF-8 (truncated sequences, stray continuation bytes, 0xF8..0xFF)
    for _ in range(nbad):
        m = rng.random()
        if m < 0.3:
            bs = bytes(rng.choice([0x61, 0x0a, 0x0d, 0x80, 0xbf, 0xc3, 0xe4, 0xf0, 0xf8, 0xfc, 0xfe, 0xff, rng.randrange(256)])
                       for _ in range(rng.randrange(0, 10)))
        else:
            _, pools = pick_mode(rng)
            b = bytearray(rand_text(rng, pools, rng.randrange(1, 12)).encode("utf8"))
            for _ in range(rng.randrange(1, 3)):
                if not b:
                    break
                i = rng.randrange(len(b)); k = rng.random()
                if k < 0.4:
                    b[i] = rng.choice([0x80, 0xbf, 0xc0, 0xe0, 0xf0, 0xf8, 0xfc, 0xfe, 0xff, 0x0a, 0x0d, rng.randrange(256)])
                elif k < 0.7:
                    del b[i]
                else:
                    b.insert(i, rng.choice([0x80, 0xe4, 0xf0, 0xff, 0xfe]))
            if rng.random() < 0.4 and b:
                b = b[:rng.randrange(len(b))] + bytes([rng.choice([0xc3, 0xe4, 0xf0, 0xf8, 0xff])])   # truncated at the end
            bs = bytes(b)
        try:
            bs.decode("utf8")
            tag = None
        except UnicodeDecodeError:
            tag = "!"
        if tag is None:
            s = bs.decode("utf8")
            tag = cps(s)
        small = lambda: (rng.choice([0, 0, 0, 1, 1, 2, 3]), rng.choice([0, 0, 1, 1, 2, 3, 4, 5, 8, 12]))
        p = small(); q = small() if rng.random() < 0.7 else p
        out.append("%s %s %d %d %d %d" % (hexs(bs), tag, p[0], p[1], q[0], q[1]))
    return out


def shrink_offsets(case):
    h, c, sl, sc, el, ec = case.split(" ")
    if c in ("!", "-"):
        b = bytes.fromhex(h) if h != "-" else b""
        for i in range(len(b)):
            nb = b[:i] + b[i + 1:]
            try:
                tag = cps(nb.decode("utf8"))
            except UnicodeDecodeError:
                tag = "!"
            yield "%s %s %s %s %s %s" % (hexs(nb), tag, sl, sc, el, ec)
        return
    s = "".join(chr(int(x, 16)) for x in c.split("."))
    for i in range(len(s)):
        t = s[:i] + s[i + 1:]
        for p in {(int(sl), int(sc)), (int(sl), max(0, int(sc) - 1)), (max(0, int(sl) - 1), int(sc))}:
            for q in {(int(el), int(ec)), (int(el), max(0, int(ec) - 1)), (max(0, int(el) - 1), int(ec))}:
                yield off_case(t, p, q)


# ------------------------------------------------------------------ c02.apply (bytes level, malformed)
def gen_apply(rng, tier):
    n = {"quick": 4000, "thorough": 80000, "search": 4000}[tier]
    out = ["- ", "61 F.0:-", "61 F.1:62"]
    for _ in range(n):
        _, pools = pick_mode(rng)
        b = bytearray(rand_text(rng, pools, rng.choice([0, 1, 3, 6, 12])).encode("utf8"))
        if rng.random() < 0.3 and b:
            i = rng.randrange(len(b))
            b[i:i + 1] = bytes([rng.choice([0x80, 0xc3, 0xe4, 0xf0, 0xf8, 0xff])])
        if rng.random() < 0.2:
            b += bytes([rng.choice([0xc3, 0xe4, 0xf0, 0xf8, 0xfc, 0xff])])
        chs = []
        for _ in range(rng.choice([0, 1, 1, 1, 2, 3])):
            t = rand_text(rng, pools, rng.choice([0, 0, 1, 2, 5])).encode("utf8")
            if rng.random() < 0.1:
                t += bytes([rng.choice([0x80, 0xe4, 0xff])])
            k = rng.random()
            if k < 0.15:
                chs.append("F.0:" + hexs(t))
            elif k < 0.2:
                chs.append("F.%d:%s" % (rng.choice([1, 2, 7]), hexs(t)))          # Range == nil, RangeLength != 0
            else:
                sl = rng.choice([0, 0, 0, 1, 1, 2]); sc = rng.choice([0, 0, 1, 2, 3, 4, 6, 9])
                if rng.random() < 0.8:
                    el = sl + rng.choice([0, 0, 0, 1]); ec = sc + rng.choice([0, 0, 1, 2]) if el == sl else rng.choice([0, 1, 2])
                else:
                    el = rng.choice([0, 1, 2]); ec = rng.choice([0, 1, 3])
                chs.append("%d.%d.%d.%d.%d:%s" % (sl, sc, el, ec, rng.choice([0, 0, 1, 5]), hexs(t)))
        out.append(hexs(bytes(b)) + " " + ";".join(chs))
    return out



# ------------------------------------------------------------------ URIs
def pdecode(name, plus_space=False):
    """percent-decoding of a URI name as net/url does it (None = malformed); bytes in, bytes out"""
    out, i = bytearray(), 0
    while i < len(name):
        c = name[i]
        if c == 0x25:
            h = name[i + 1:i + 3]
            if len(h) < 2 or not all(chr(x) in "0123456789abcdefABCDEF" for x in h):
                return None
            out.append(int(h.decode(), 16)); i += 3
        else:
            out.append(0x20 if (c == 0x2b and plus_space) else c); i += 1
    return bytes(out)


def name_is_lua(name):
    d = pdecode(name)
    return d is not None and d.endswith(b".lua")


FAMILIES = [  # names whose keys collide under one or the other reading
    ["a+b.lua", "a%20b.lua", "a%2Bb.lua", "a%2bb.lua", "a b.lua"],
    ["p+q+r.lua", "p%20q%20r.lua", "p+q%20r.lua", "p%20q+r.lua", "p%2Bq%20r.lua"],
    ["+.lua", "%20.lua", "++.lua", "+%20.lua", "%20+.lua", "%2B.lua"],
    ["%E4%B8%AD.lua", "%e4%b8%ad.lua", "中.lua", "%E4%B8%AD+.lua", "%E4%B8%AD%20.lua"],
    ["x%25y.lua", "x%2525y.lua", "x%25%32%35y.lua", "x%2520y.lua", "x%20y.lua", "x+y.lua"],
    ["sub/m.lua", "sub%2Fm.lua", "sub%5Cm.lua", "sub\\m.lua", "sub/m+.lua", "sub/m%20.lua"],
    ["bad%G1.lua", "bad%.lua", "t%", "t%4", "%zz.lua", "ok%41.lua", "okA.lua"],
    ["k+.txt", "k%20.txt", "n.txt", "UP.LUA", "v.lua%20", "v.lua+"],
    ["%F0%9F%98%80+1.lua", "%F0%9F%98%80%201.lua", "é+.lua", "é%20.lua"],
    # names that differ ONLY in letter case: distinct resources on a case-sensitive file system, distinct cache keys
    # (seeded C02-5 lower-cased the key); CONFIG.LUA is not a Lua document for the server (suffix test)
    ["Config.lua", "config.lua", "CONFIG.lua", "cONFIG.lua", "CONFIG.LUA", "config.Lua"],
    ["Utils/init.lua", "utils/init.lua", "UTILS/init.lua", "utils/Init.lua", "utils/INIT.lua"],
    ["É.lua", "é.lua", "%C3%89.lua", "%C3%A9.lua", "Ж.lua", "ж.lua", "Ω.lua", "ω.lua"],
    ["A.lua", "a.lua", "%41.lua", "%61.lua", "a+B.lua", "A+b.lua", "a%20B.lua", "a%20b.lua"],
]
PLAIN = ["d0.lua", "d1.lua", "d2.lua", "m-1_x~.lua", "dir/deep/f.lua", "d3.txt", "q.lua", "w+w.lua"]


def gen_table(rng):
    """the URI names of a history; None = the four default documents (old case format)"""
    if rng.random() < 0.3:
        return None
    names = []
    k = rng.random()
    if k < 0.75:
        fam = rng.choice(FAMILIES)
        names += rng.sample(fam, rng.choice([1, 2, 2, 2, 3]))
        if rng.random() < 0.3:
            names += rng.sample(rng.choice(FAMILIES), 1)
    names += rng.sample(PLAIN, rng.choice([0, 1, 1, 2]))
    names = list(dict.fromkeys(names))[:6]
    if not any(name_is_lua(n.encode("utf8")) for n in names):
        names = names[:5] + ["d0.lua"]          # something a conforming client can open
    rng.shuffle(names)
    return names


def table_tok(names):
    return "U:" + ",".join(hexs(n.encode("utf8")) for n in names)


def case_names(case):
    t = case.split(" ")[0]
    if not t.startswith("U:"):
        return None
    return [bytes.fromhex(h) if h != "-" else b"" for h in t[2:].split(",")]


def plus_pair(case):
    """two names of the table that QueryUnescape identifies and PathUnescape keeps apart"""
    ns = case_names(case)
    if not ns:
        return False
    for i, a in enumerate(ns):
        for b in ns[i + 1:]:
            da, db = pdecode(a), pdecode(b)
            if da is not None and db is not None and da != db and pdecode(a, True) == pdecode(b, True):
                return True
    return False


URI_PREFIXES = [(50, "file://"), (25, "file:///"), (4, ""), (3, "FILE://"), (3, "file:/"), (4, "xfile://"),
                (4, "file://file://"), (3, "file:///file:///"), (4, "file:////")]
URI_ATOMS = ["a", "b", "Z", "0", "9", "/", "/", ".", ".lua", "-", "_", "~", "+", "+", "%20", "%2B", "%2b", "%25",
             "%5C", "%5c", "\\", "%2F", "%E4%B8%AD", "%e4%b8%ad", "中", "é", "%F0%9F%98%80", "%G1", "%1G", "%", "%4", "%%",
             "%zz", " ", ":", "%3A", "c%3A/", "?", "#", "%00", "%FF", "%80", "file://", "file:///", "dir", "%41", "%7E", "!", "*", "'",
             "(", ")", ";", "=", "@", "&", "$", ","]
URI_SMALL = ["a", "+", "%20", "%2B", "%25", "%", "%G1", "%4", "/", "\\"]
URI_FIXED = ["file:///dir/a+b.lua", "file:///dir/a%20b.lua", "file:///dir/a%2Bb.lua", "file:///c%3A/proj/x.lua", "file:///c:/proj/x.lua",
             "file:///dir/x%", "file:///dir/x%4", "file:///dir/x%41", "file:///dir/%G1", "file://", "file:///", "", "file:/", "%",
             "file:///d%5Cx.lua", "file:///d\\x.lua", "file:///%E4%B8%AD%E6%96%87.lua", "file:///a%2525", "file:///a%25", "file:///+", "+",
             "file:///a+b+c%20d+.lua", "untitled:Untitled-1", "file://host/share/x.lua"]


def uri_case(u):
    return hexs(u.encode("utf8"))


def gen_uri(rng, tier):
    n = {"quick": 20000, "thorough": 300000, "search": 5000}[tier]
    out = [uri_case(u) for u in URI_FIXED]
    for pre in ("file://", "file:///"):
        layer = [""]
        for _ in range(3):
            layer = [d + a for d in layer for a in URI_SMALL]
            out += [uri_case(pre + "/" + d) for d in layer]
    for _ in range(n):
        pre = wchoice(rng, URI_PREFIXES)
        k = rng.choice([0, 1, 2, 3, 4, 6, 8, 12])
        body = "".join(rng.choice(URI_ATOMS) for _ in range(k))
        if rng.random() < 0.1:
            body += rng.choice(["%", "%4", "%G", "+", "%2"])          # the escape cut off at the end
        out.append(uri_case(pre + ("/" if rng.random() < 0.7 else "") + body))
    return out


def shrink_uri(case):
    b = bytes.fromhex(case) if case != "-" else b""
    for i in range(len(b)):
        yield hexs(b[:i] + b[i + 1:])


# ------------------------------------------------------------------ c02.rootprefix (InitialRootURIAndPath)
UNRESERVED = set(b"abcdefghijklmnopqrstuvwxyzABCDEFGHIJKLMNOPQRSTUVWXYZ0123456789-._~/")
PCHAR = UNRESERVED | set(b"!$&'()*+,;=:@")


def pencode(path, raw, lower=False):
    out = []
    for c in path:
        out.append(chr(c) if c in raw else ("%%%02x" if lower else "%%%02X") % c)
    return "".join(out).encode("latin1")


ROOT_ATOMS = ["/home", "/w", "/a+b", "/a b", "/100%", "/中", "/x%20y", "/p+q+", "/-_.~", "/é", "/c:", "/+", "/%", "/%41", "/d\\e", "/UP", "/0"]


def gen_rootprefix(rng, tier):
    n = {"quick": 1200, "thorough": 20000, "search": 300}[tier]
    fixed = [("file:///home/a%2Bb", "/home/a+b"), ("file:///home/a+b", "/home/a+b"), ("file:///w/100%25", "/w/100%"), ("file:///w", "/w"),
             ("file:///c%3A/proj", "c:/proj"), ("file:///c%3A/proj", "c:\\proj"), ("file://", ""), ("", ""), ("file:///", "/"), ("file:///w", "/v"),
             ("file:///w/%G1", "/w/%G1"), ("file:///a%20b", "/a b"), ("file:///a%20b", "/a%20b"), ("file:///a+b", "/a b")]
    out = ["%s %s" % (hexs(u.encode("utf8")), hexs(p.encode("utf8"))) for u, p in fixed]
    for _ in range(n):
        path = "".join(rng.choice(ROOT_ATOMS) for _ in range(rng.choice([1, 1, 2, 2, 3]))).encode("utf8")
        k = rng.random()
        if k < 0.4:
            enc = pencode(path, UNRESERVED)                 # vscode-uri
        elif k < 0.7:
            enc = pencode(path, PCHAR)                      # RFC 3986 pchar
        elif k < 0.8:
            enc = pencode(path, UNRESERVED, lower=True)
        elif k < 0.9:
            enc = path                                      # not encoded at all
        else:
            enc = pencode(path, PCHAR) + rng.choice([b"%", b"%4", b"x", b"/", b"+"])
        pre = wchoice(rng, [(80, b"file://"), (10, b"file:///"), (4, b"file:/"), (3, b""), (3, b"FILE://")])
        p2 = path
        m = rng.random()
        if m < 0.08:
            p2 = path + b"/x"
        elif m < 0.12:
            p2 = path.replace(b"/", b"\\")
        elif m < 0.16 and len(path) > 1:
            p2 = path[:-1]
        out.append("%s %s" % (hexs(pre + enc), hexs(p2)))
    return out

# ------------------------------------------------------------------ c02.history
class Client:
    """A conforming client: keeps its own text, produces edits from its own (LSP) view of positions."""
    def __init__(self, rng, pools, maxnotes, names=None):
        self.rng, self.pools, self.maxnotes = rng, pools, maxnotes
        self.docs = {}          # doc -> text
        self.notes = []
        self.names = names      # URI names of the documents (None: d0.lua d1.lua d2.lua d3.txt)
        ns = names if names is not None else ["d0.lua", "d1.lua", "d2.lua", "d3.txt"]
        self.ndocs = len(ns)
        self.lua = [i for i, n in enumerate(ns) if name_is_lua(n.encode("utf8"))]

    def text(self, big=False):
        r = self.rng
        n = r.choice([0, 1, 2, 3, 5, 8, 13, 25]) if big else r.choice([0, 0, 1, 1, 2, 3, 5, 9])
        return rand_text(r, self.pools, n)

    def one_change(self, d):
        r = self.rng
        s = self.docs[d]
        if r.random() < 0.12:
            t = self.text(True)
            self.docs[d] = t
            # a change without range is a full-text change whatever the (optional, deprecated) rangeLength says
            # (finding C01-change-without-range); the Spec's conformance still asks for rangeLength 0, so the ones
            # with a stray value are compared implementation vs. model only
            return "F.%d:" % (0 if r.random() < 0.85 else r.choice([1, 2, len(t), 4294967295])) + cps(t)
        ps = positions(s)
        k = r.random()
        if k < 0.25:
            i = len(ps) - 1                                  # at the document end
        elif k < 0.35:
            i = 0
        else:
            i = r.randrange(len(ps))
        k = r.random()
        if k < 0.45:
            j = i                                            # insertion
        elif k < 0.9:
            j = min(len(ps) - 1, i + r.choice([1, 1, 1, 2, 3, 5]))
        else:
            j = r.randrange(i, len(ps))
        t = "" if (j > i and r.random() < 0.4) else self.text()
        (sl, sc, a), (el, ec, b) = ps[i], ps[j]
        rl = sum(u16(c) for c in s[a:b]) if r.random() < 0.8 else 0     # deprecated rangeLength as VS Code fills it
        self.docs[d] = s[:a] + t + s[b:]
        return "%d.%d.%d.%d.%d:%s" % (sl, sc, el, ec, rl, cps(t))

    def step(self):
        r = self.rng
        opened = sorted(self.docs)
        closed = [d for d in self.lua if d not in self.docs]
        acts = []
        if opened:
            acts += [(60, "change"), (8, "save"), (4, "savenil"), (8, "close")]
        if closed:
            acts += [(12 if opened else 100, "open")]
        a = wchoice(r, acts)
        if a == "open":
            d = r.choice(closed)
            t = self.text(True)
            self.docs[d] = t
            self.notes.append("O%d:%s" % (d, cps(t)))
        elif a == "change":
            d = r.choice(opened)
            n = 1 if r.random() < 0.7 else r.choice([2, 2, 3, 4])
            self.notes.append("C%d:%s" % (d, ";".join(self.one_change(d) for _ in range(n))))
        elif a == "save":
            d = r.choice(opened)
            self.notes.append("S%d:%s" % (d, cps(self.docs[d])))
        elif a == "savenil":
            d = r.choice(opened)
            self.notes.append("S%d:nil" % d)                 # `text` is optional in DidSaveTextDocumentParams
        else:
            d = r.choice(opened)
            del self.docs[d]
            self.notes.append("X%d" % d)

    def run(self):
        n = self.rng.randrange(2, self.maxnotes + 1)
        while len(self.notes) < n:
            self.step()
        return self.case()

    def case(self):
        return " ".join(([table_tok(self.names)] if self.names is not None else []) + self.notes)


def gen_history(rng, tier):
    n = {"quick": 15000, "thorough": 200000, "search": 3000}[tier]
    out = ["O0:-", "O0:- C0:0.0.0.0.0:61", "O0:61.d.a.4e2d C0:1.1.1.1.0:78 C0:0.1.1.0.2:- S0:61.4e2d.78 X0",
           "O0:78 S0:nil C0:0.1.0.1.0:79 S0:nil X0",
           table_tok(["a+b.lua", "a%20b.lua"]) + " O0:78 O1:79 C0:0.1.0.1.0:7a S1:nil X0 C1:0.0.0.1.1:-",
           table_tok(["a%2Bb.lua", "a%20b.lua", "%E4%B8%AD.lua"]) + " O0:78 O1:79 O2:- C2:0.0.0.0.0:4e2d X1 S0:78",
           table_tok(["Config.lua", "config.lua"]) + " O0:78 O1:79 C0:0.1.0.1.0:7a X1 C0:0.0.0.1.1:- S0:7a",
           table_tok(["Utils/init.lua", "utils/init.lua", "É.lua", "é.lua"]) + " O0:78 O1:79 O2:7a O3:- C3:0.0.0.0.0:4e2d X0 C1:0.1.0.1.0:62 X2 S3:nil"]
    for _ in range(n):
        _, pools = pick_mode(rng)
        out.append(Client(rng, pools, 12, gen_table(rng)).run())
    return out


def gen_history_bad(rng, tier):
    """what a conforming client never sends: notifications for documents that are not open, positions that are not
    positions of the document, Range == nil with RangeLength != 0, didSave without text, a non-Lua document"""
    n = {"quick": 5000, "thorough": 40000, "search": 1500}[tier]
    out = ["C0:0.0.0.0.0:61", "X0", "S0:61", "S0:nil", "O0:61 S0:nil O0:62", "O0:61 C0:F.3:62 O0:63", "O3:61 S3:62 C3:0.0.0.0.0:63 X3",
           "O0:61 O0:62 X0 X0 C0:F.0:63",
           table_tok(["bad%G1.lua", "t%", "ok.lua"]) + " O0:61 S0:62 S1:63 O2:64 X1 S0:nil",
           table_tok(["a+b.lua", "a%2Bb.lua", "a%2bb.lua"]) + " O0:61 O1:62 C2:0.0.0.0.0:63 X0 S1:nil",
           table_tok(["sub%5Cm.lua", "sub/m.lua", "sub\\m.lua"]) + " O0:61 O1:62 C2:0.0.0.0.0:63 X0"]
    for _ in range(n):
        _, pools = pick_mode(rng)
        c = Client(rng, pools, 10, gen_table(rng))
        k = rng.randrange(2, 11)
        while len(c.notes) < k:
            m = rng.random()
            if m < 0.55:
                c.step()
                continue
            d = rng.randrange(c.ndocs) if c.names is not None else rng.choice([0, 0, 1, 2, 3])
            if m < 0.70:                     # a range that is not a range of the client's text
                s = c.docs.get(d, "")
                pl = positions(s)
                bad = bad_positions(s, pl)
                good = [(l, cc) for l, cc, _ in pl]
                p = rng.choice(bad if rng.random() < 0.5 else good)
                q = rng.choice(bad if rng.random() < 0.5 else good)
                c.notes.append("C%d:%d.%d.%d.%d.%d:%s" % (d, p[0], p[1], q[0], q[1], rng.choice([0, 1]), cps(c.text())))
                # the client's own idea of its text is unchanged by its own bogus edit; what the server holds now
                # is compared with the model only (the spec column is "-" from here on unless the edit was in fact valid)
            elif m < 0.76:
                c.notes.append("C%d:F.%d:%s" % (d, rng.choice([1, 2, 9]), cps(c.text())))
            elif m < 0.80:
                c.notes.append("S%d:nil" % d)
            elif m < 0.86:
                c.notes.append("S%d:%s" % (d, cps(c.text())))            # saved text differs / document not open
            elif m < 0.92:
                c.notes.append("X%d" % d)                                # possibly not open
                c.docs.pop(d, None)
            else:
                t = c.text(True)
                c.notes.append("O%d:%s" % (d, cps(t)))                   # possibly already open, possibly the .txt
                if d in c.lua:
                    c.docs[d] = t
        out.append(c.case())
    return out


# ------------------------------------------------------------------ c02.analysed (what is ANALYSED = what is cached)
class LineClient:
    """a conforming client whose documents are lines `NAME = 1` (fresh names) and whose edits work on whole lines -
    so every text it ever holds is a clean Lua chunk whose outline is the list of its names: insert / replace / delete
    runs of lines by range, delete the WHOLE document by range (with and without a final line break), full
    replacement, save with and without text, close and re-open"""
    def __init__(self, rng, names):
        self.rng, self.names = rng, names
        self.docs, self.notes, self.k, self.disk, self.seen = {}, [], 0, {}, set()
        self.lua = [i for i, n in enumerate(names) if name_is_lua(n.encode("utf8"))]
        self.eol = rng.choice(["\n", "\n", "\r\n"])

    def lines(self, n):
        out = []
        for _ in range(n):
            self.k += 1
            out.append("%s%d = 1" % (self.rng.choice(["g", "cfg_", "Mod", "x"]), self.k))
        return out

    def fresh(self):
        ls = self.lines(self.rng.choice([0, 1, 1, 2, 3, 5]))
        t = self.eol.join(ls)
        return t + (self.eol if ls and self.rng.random() < 0.6 else "")

    def change(self, d):
        r, s = self.rng, self.docs[d]
        k = r.random()
        if k < 0.15:
            t = self.fresh()
            self.docs[d] = t
            return "F.0:" + cps(t)
        # line starts of the text (offsets), plus the end of the text
        starts = [0]
        for i, c in enumerate(s):
            if c == "\n":
                starts.append(i + 1)
        nl = len(starts)                       # number of lines, the last one possibly empty
        def pos(off):
            l = max(i for i in range(nl) if starts[i] <= off)
            return l, off - starts[l]
        ends_open = not (s == "" or s.endswith("\n"))
        if k < 0.45:                           # the whole document by range
            a, b, t = 0, len(s), ("" if r.random() < 0.7 else self.fresh())
        else:
            i = r.randrange(nl); j = r.randrange(i, nl)
            a, b = starts[i], starts[j]
            if r.random() < 0.3:
                b = len(s)                     # up to the very end
            new = self.lines(r.choice([0, 0, 1, 2]))
            t = "".join(l + self.eol for l in new)
            if b == len(s) and ends_open and a < b and new:
                pass                           # the kept prefix ends with a line break; new lines end with one too
            if a == len(s) and ends_open:
                t = (self.eol + self.eol.join(new)) if new else ""      # append behind an unterminated last line
            elif b < len(s) or not new:
                pass
        (sl, sc), (el, ec) = pos(a), pos(b)
        rl = sum(u16(c) for c in s[a:b]) if r.random() < 0.7 else 0
        self.docs[d] = s[:a] + t + s[b:]
        return "%d.%d.%d.%d.%d:%s" % (sl, sc, el, ec, rl, cps(t))

    def run(self, n):
        r = self.rng
        while len(self.notes) < n:
            opened = sorted(self.docs)
            closed = [d for d in self.lua if d not in self.docs]
            acts = ([(60, "change"), (8, "save"), (5, "savenil"), (6, "close")] if opened else []) + ([(14 if opened else 100, "open")] if closed else [])
            a = wchoice(r, acts)
            if a == "open":
                # the editor opens what is on disk: a fresh file the first time, later what the last save left there
                # (no other program writes the files; a didOpen whose text differs from the disk is note P below)
                d = r.choice(closed)
                # a document that was only ever opened as a buffer (note P) and never saved has no file: it can only
                # come back as a buffer (a file appearing on disk would be announced by a watched-file event)
                if r.random() < 0.3 or (d in self.seen and d not in self.disk):
                    self.seen.add(d)
                    # ... or restores an unsaved buffer (hot exit): note P = didOpen whose text is NOT the file's
                    # (finding C02-open-text-not-analysed, repaired: the repaired didOpen analyses the carried text; the
                    # driver's constant didopen_fixed is true, VERIF_C02_DIDOPEN=0 = the model of the code before); the
                    # disk keeps what it had (nothing, if never opened)
                    t = self.fresh()
                    self.docs[d] = t
                    self.notes.append("P%d:%s" % (d, cps(t)))
                    continue
                t = self.disk[d] if d in self.disk else self.fresh()
                self.docs[d] = self.disk[d] = t
                self.notes.append("O%d:%s" % (d, cps(t)))
            elif a == "change":
                d = r.choice(opened)
                self.notes.append("C%d:%s" % (d, ";".join(self.change(d) for _ in range(r.choice([1, 1, 1, 2, 3])))))
            elif a == "save":
                d = r.choice(opened)
                self.disk[d] = self.docs[d]
                self.notes.append("S%d:%s" % (d, cps(self.docs[d])))
            elif a == "savenil":
                d = r.choice(opened)
                self.disk[d] = self.docs[d]
                self.notes.append("S%d:nil" % d)
            else:
                d = r.choice(opened)
                del self.docs[d]
                self.notes.append("X%d" % d)
        return " ".join([table_tok(self.names)] + self.notes)


def gen_analysed(rng, tier):
    n = {"quick": 2500, "thorough": 60000, "search": 1200}[tier]
    out = [table_tok(["d0.lua"]) + " O0:67.64.69.73.6b.20.3d.20.31 C0:0.0.0.9.9:-",          # `gdisk = 1` emptied by range: the outline must be empty
           table_tok(["d0.lua"]) + " O0:67.31.20.3d.20.31.a C0:F.0:67.32.20.3d.20.31 C0:0.0.0.6.6:-",
           table_tok(["d0.lua", "d1.lua"]) + " O0:67.31.20.3d.20.31.a O1:67.32.20.3d.20.31.a C0:0.0.1.0.7:- C1:0.0.1.0.0:67.33.20.3d.20.31.a S0:nil X0",
           table_tok(["d0.lua"]) + " O0:67.64.69.73.6b.20.3d.20.31.a X0 P0:67.62.75.66.20.3d.20.31.a",           # re-opened with a text that is not the file's
           table_tok(["d0.lua"]) + " P0:67.62.75.66.20.3d.20.31.a S0:nil X0 P0:-"]
    for _ in range(n):
        names = rng.sample(["d0.lua", "d1.lua", "sub/m.lua", "Config.lua", "config.lua", "d3.txt"], rng.choice([1, 1, 2, 3]))
        if not any(x.endswith(".lua") for x in names):
            names.append("d0.lua")
        out.append(LineClient(rng, names).run(rng.randrange(2, 10)))
    return out


def shrink_history(case):
    toks = case.split(" ")
    head = []
    if toks and toks[0].startswith("U:"):
        head, toks = toks[:1], toks[1:]
    for k in range(1, len(toks)):
        yield " ".join(head + toks[:k])
    for i in range(len(toks)):
        yield " ".join(head + toks[:i] + toks[i + 1:])
    for i, t in enumerate(toks):
        if t[0] == "C" and ";" in t:
            chs = t[3:].split(";")
            for j in range(len(chs)):
                yield " ".join(head + toks[:i] + [t[:3] + ";".join(chs[:j] + chs[j + 1:])] + toks[i + 1:])
    if head:                                 # drop the last name of the table if no notification uses it
        names = head[0][2:].split(",")
        if len(names) > 1 and not any(t[1] == str(len(names) - 1) for t in toks):
            yield " ".join(["U:" + ",".join(names[:-1])] + toks)
    for i, t in enumerate(toks):             # shorter texts
        if t[0] in "OS" and "." in t[3:]:
            yield " ".join(head + toks[:i] + [t[:3] + t[3:].split(".")[0]] + toks[i + 1:])


def hist_nontrivial(c):
    return " C" in c and any(len(x) > 2 for x in c.replace(";", ".").replace(":", ".").split(".") if x not in ("nil",))


LEGS = [
    Leg("c02.offsets", gen_offsets, shrink=shrink_offsets,
        nontrivial=lambda c: any(b > 127 or b in (10, 13) for b in (bytes.fromhex(c.split(" ")[0]) if c[0] != "-" else b""))),
    Leg("c02.apply", gen_apply, nontrivial=lambda c: ":" in c),
    Leg("c02.history", gen_history, shrink=shrink_history, nontrivial=hist_nontrivial, per_case_s=0.3),
    Leg("c02.history_bad", gen_history_bad, shrink=shrink_history, nontrivial=lambda c: True, per_case_s=0.3),
    # what the server ANALYSES for an open document (outline of the real documentSymbol handler) = what it holds = what
    # the client holds; model: the analysed text is the cached text (finding C02-empty-after-delete)
    Leg("c02.analysed", gen_analysed, shrink=shrink_history, nontrivial=lambda c: " C" in c, per_case_s=0.3),
    Leg("c02.uri", gen_uri, shrink=shrink_uri, nontrivial=lambda c: "25" in c or "2b" in c),
    Leg("c02.uri3", gen_uri, shrink=shrink_uri, nontrivial=lambda c: "25" in c or "2b" in c),
    Leg("c02.rootprefix", gen_rootprefix, nontrivial=lambda c: "25" in c or "2b" in c, per_case_s=0.5),
]

TRUSTED = vlib.TRUSTED_COMMON + [
    "modelled, tied by correspondence: lspcommon.offsetForStartAndEnd, FileMapCache.ApplyContentChanges/SetFileContent/"
    "DelFileContent/GetFileContent, pathpre.VscodeURIToString (with net/url PathUnescape) and the cache-relevant control "
    "flow of TextDocumentDidOpen/DidChange/DidSave/DidClose",
    "the prefix preFixStr is a parameter of the handler model; pathpre.InitialRootURIAndPath, which sets it, is modelled and "
    "compared separately (init_prefix, leg c02.rootprefix); the history legs run with file:// (root URI file://<rootPath>, "
    "the root a temporary directory without characters that need escaping), the decode alone also with the initial file:///",
    "JSON decoding of the notification parameters (encoding/json: strings arrive as UTF-8, uint32 positions) is not modelled; "
    "the handlers are called with decoded parameters",
]
ASSUMPTIONS = [
    "documents are files whose decoded path ends in .lua, not excluded by an ignore rule, no file association configured "
    "(IsNeedHandle true, IsHandleAsLua = suffix test); other names exercise the IsHandleAsLua branch of didOpen",
    "each resource is named by ONE URI: the theorem's guard is that the decode is injective on the URIs of the history, "
    "proved for canonical URIs (one percent-encoder: a fixed set of bytes stands for itself, all others are %XX in upper-case "
    "hex, no backslash in the path); histories whose URI table names one resource twice (a%2Bb / a%2bb / a+b, a backslash "
    "against a slash) are compared implementation vs. model only",
    "the quantifier of the theorems is 'conformant histories' (Spec/LspText.v conformant): notifications only for open "
    "documents, ranges that are ranges of the client's text, didSave with the client's text or without text, "
    "Range == nil only with RangeLength == 0; other input is compared implementation vs. model only",
    "the server is driven sequentially (the handlers hold requestMutex); interleavings are C10's business",
]


def main(tier, seed):
    r = vlib.Runner("C02", tier, seed)
    r.build()
    can_run = r.can_run()
    extra = {}
    if can_run:
        r.replay_findings({l.name: l for l in LEGS})
        for leg in LEGS:
            rows = r.run_leg(leg)
            with_spec = sum(1 for row in rows if row[3] != "-")
            extra.setdefault("cases_with_spec", {})[leg.name] = with_spec
            if leg.name == "c02.history":
                nonconf = len(rows) - with_spec
                extra["history_generator_nonconformant"] = nonconf
                if nonconf:
                    log("  note: %d generated histories were judged non-conformant by the extracted spec (generator quality only)" % nonconf)
                notes_of = lambda c: [t for t in c.split(" ") if not t.startswith("U:")]
                extra["history_notes_total"] = sum(len(notes_of(row[0])) for row in rows)
                feats = {"crlf": lambda c: ".d.a" in c or ":d.a" in c, "two_documents": lambda c: len({t[1] for t in notes_of(c) if t[0] == "O"}) > 1,
                         "multi_change_batch": lambda c: ";" in c, "full_replace": lambda c: "F.0:" in c,
                         "save": lambda c: any(t[0] == "S" and not t.endswith(":nil") for t in notes_of(c)),
                         "save_without_text": lambda c: any(t[0] == "S" and t.endswith(":nil") for t in notes_of(c)),
                         "close_then_more": lambda c: " X" in c[:-3],
                         "empty_document_opened": lambda c: any(t[2:] == ":-" for t in notes_of(c) if t[0] == "O"),
                         "non_ascii": lambda c: any(len(x) > 2 for t in notes_of(c) for x in t[3:].replace(";", ".").replace(":", ".").split(".")),
                         "uri_table": lambda c: c.startswith("U:"),
                         "uri_names_plus_vs_space": plus_pair,
                         "uri_percent_encoded": lambda c: c.startswith("U:") and "25" in c.split(" ")[0]}
                extra["history_input_distribution"] = {k: sum(1 for row in rows if f(row[0])) for k, f in feats.items()}
                extra["history_known_class_cases"] = {k: sum(1 for row in rows if k in row[4].split(",")) for k in ("astral", "lone_cr", "stale", "uri_plus", "save_nil")}
    # report first a failing input from the proved region (no known class), the shortest one
    # histories before single URIs; and right behind the first one the shortest history that fails without a didSave
    # without text (so that a replay shows both a wrong key and a handler that dies, when both are there)
    r.violations.sort(key=lambda v: (not v.get("leg", "").startswith("c02.history"), v.get("class", "-") != "-", len(v.get("case", ""))))
    for i, v in enumerate(r.violations):
        if i > 1 and v.get("leg", "").startswith("c02.history") and ":nil" not in v.get("case", ""):
            r.violations.insert(1, r.violations.pop(i))
            break
    return r.finish(LEGS, extra_cov=extra, trusted=TRUSTED, assumptions=ASSUMPTIONS)
