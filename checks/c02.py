# C02 - the server's copy of an open document always equals the client's text (DESIGN 5, C02)
#
# Legs (all compare the REAL code with the model extracted from coq/Model/TextSync.v, and with the LSP reading of
# the same input extracted from coq/Spec/LspText.v):
#   c02.offsets      offsetForStartAndEnd on (document bytes, start, end)
#   c02.apply        FileMapCache.ApplyContentChanges on raw bytes (malformed input; model only)
#   c02.history      conformant notification histories through the real handlers of a real LspServer
#   c02.history_bad  the same handlers on histories a conforming client never sends (model only where non-conformant)
# The generators below contain a Python copy of the LSP position rules ONLY to produce conformant edits; whether a
# case is conformant, what the client text is and which class it falls in is decided by the code extracted from Coq.
import vlib
from vlib import Leg, hexs, log

# ------------------------------------------------------------------ alphabets
SMALL = ["a", "\n", "\r", "é", "中", "😀"]
# no quote, backslash or '[' : the lexer defects recorded under C01 must not kill the worker of this property
ASCII = list("abcxyzXYZ019 _=(),.+-*<>;:#") + ["local ", "end", "if ", "function f()", "x = 1", "-- c"]
TWO = list("éñüßЖдαΩ") + ["\u0080", "߿"]
THREE = list("中文漢字テかな한€") + ["ࠀ", "￿", "퟿", "", "﻿"]
FOUR = ["😀", "🚀", "𝔘", "\U00010000", "\U0010ffff", "𠀀"]
MODES = [  # (weight, name, [(weight, pool)])
    (15, "plain", [(8, ASCII), (2, ["\n"])]),
    (45, "guard", [(8, ASCII), (1, ["\t"]), (2, TWO), (3, THREE), (2, ["\n"]), (2, ["\r\n"])]),
    (15, "astral", [(6, ASCII), (1, ["\t"]), (1, TWO), (2, THREE), (4, FOUR), (2, ["\n"]), (1, ["\r\n"])]),
    (15, "cr", [(6, ASCII), (1, ["\t"]), (1, TWO), (2, THREE), (2, ["\n"]), (2, ["\r\n"]), (3, ["\r"])]),
    (10, "all", [(6, ASCII), (1, ["\t"]), (1, TWO), (2, THREE), (2, FOUR), (2, ["\n"]), (2, ["\r\n"]), (2, ["\r"])]),
]


def wchoice(rng, pairs):
    tot = sum(w for w, _ in pairs)
    x = rng.random() * tot
    for w, v in pairs:
        x -= w
        if x < 0:
            return v
    return pairs[-1][1]


def pick_mode(rng):
    return wchoice(rng, [(w, (name, pools)) for w, name, pools in MODES])


def rand_text(rng, pools, n):
    return "".join(rng.choice(wchoice(rng, pools)) for _ in range(n))


def cps(s):
    return ".".join("%x" % ord(c) for c in s) if s else "-"


def u16(c):
    return 2 if ord(c) >= 0x10000 else 1


def positions(s):
    """[(line, col, index)] of all LSP positions of s (lines end at LF, CRLF, CR; columns in UTF-16 units)."""
    out, line, col, after_cr = [], 0, 0, False
    for i, c in enumerate(s):
        if after_cr and c == "\n":
            after_cr = False
            continue
        out.append((line, col, i))
        after_cr = False
        if c == "\n":
            line, col = line + 1, 0
        elif c == "\r":
            line, col, after_cr = line + 1, 0, True
        else:
            col += u16(c)
    out.append((line, col, len(s)))
    return out


BIG = 4294967295


def bad_positions(s, ps):
    """positions that are NOT positions of s: beyond line ends, beyond the last line, inside a surrogate pair / CRLF"""
    have = {(l, c) for l, c, _ in ps}
    cand = set()
    for l, c, _ in ps:
        for q in ((l, c + 1), (l, c + 2), (l + 1, 0), (l + 1, 1), (l, BIG), (BIG, 0), (l + 2, 0)):
            if q not in have:
                cand.add(q)
    return sorted(cand)


# ------------------------------------------------------------------ c02.offsets
def off_case(s, p, q):
    return "%s %s %d %d %d %d" % (hexs(s.encode("utf8")), cps(s), p[0], p[1], q[0], q[1])


def all_docs(alpha, maxlen):
    docs = [""]
    layer = [""]
    for _ in range(maxlen):
        layer = [d + a for d in layer for a in alpha]
        docs += layer
    return docs


def gen_offsets(rng, tier):
    out = []
    maxlen, nrand, nbad = {"quick": (4, 8000, 3000), "thorough": (5, 150000, 60000), "search": (3, 8000, 4000)}[tier]
    for d in all_docs(SMALL, maxlen):
        pl = positions(d)
        ps = [(l, c) for l, c, _ in pl]
        for p in ps:                     # every pair of positions of the document (also reversed ones)
            for q in ps:
                out.append(off_case(d, p, q))
        bad = bad_positions(d, pl)       # and what is not a position of it: model-only cases
        if len(d) > 2:
            bad = rng.sample(bad, min(3, len(bad)))
        for b in bad:
            out.append(off_case(d, b, b))
            out.append(off_case(d, ps[0], b))
            out.append(off_case(d, b, ps[-1]))
            out.append(off_case(d, rng.choice(ps), b))
    for _ in range(nrand):
        _, pools = pick_mode(rng)
        d = rand_text(rng, pools, rng.choice([0, 1, 2, 4, 8, 8, 16, 30, 60]))
        pl = positions(d)
        ps = [(l, c) for l, c, _ in pl]
        m = rng.random()
        if m < 0.7:
            i = rng.randrange(len(ps)); j = rng.randrange(i, len(ps))
            if rng.random() < 0.25:
                j = len(ps) - 1
            if rng.random() < 0.15:
                i = j
            p, q = ps[i], ps[j]
        elif m < 0.8:
            p, q = rng.choice(ps), rng.choice(ps)     # possibly reversed
        else:
            bad = bad_positions(d, pl)
            p = rng.choice(bad) if rng.random() < 0.5 else rng.choice(ps)
            q = rng.choice(bad) if rng.random() < 0.7 else rng.choice(ps)
        out.append(off_case(d, p, q))
    # malformed stream: byte strings that are not UTF-8 (truncated sequences, stray continuation bytes, 0xF8..0xFF)
    for _ in range(nbad):
        m = rng.random()
        if m < 0.3:
            bs = bytes(rng.choice([0x61, 0x0a, 0x0d, 0x80, 0xbf, 0xc3, 0xe4, 0xf0, 0xf8, 0xfc, 0xfe, 0xff, rng.randrange(256)])
                       for _ in range(rng.randrange(0, 10)))
        else:
            _, pools = pick_mode(rng)
            b = bytearray(rand_text(rng, pools, rng.randrange(1, 12)).encode("utf8"))
            for _ in range(rng.randrange(1, 3)):
                if not b:
                    break
                i = rng.randrange(len(b)); k = rng.random()
                if k < 0.4:
                    b[i] = rng.choice([0x80, 0xbf, 0xc0, 0xe0, 0xf0, 0xf8, 0xfc, 0xfe, 0xff, 0x0a, 0x0d, rng.randrange(256)])
                elif k < 0.7:
                    del b[i]
                else:
                    b.insert(i, rng.choice([0x80, 0xe4, 0xf0, 0xff, 0xfe]))
            if rng.random() < 0.4 and b:
                b = b[:rng.randrange(len(b))] + bytes([rng.choice([0xc3, 0xe4, 0xf0, 0xf8, 0xff])])   # truncated at the end
            bs = bytes(b)
        try:
            bs.decode("utf8")
            tag = None
        except UnicodeDecodeError:
            tag = "!"
        if tag is None:
            s = bs.decode("utf8")
            tag = cps(s)
        small = lambda: (rng.choice([0, 0, 0, 1, 1, 2, 3]), rng.choice([0, 0, 1, 1, 2, 3, 4, 5, 8, 12]))
        p = small(); q = small() if rng.random() < 0.7 else p
        out.append("%s %s %d %d %d %d" % (hexs(bs), tag, p[0], p[1], q[0], q[1]))
    return out


def shrink_offsets(case):
    h, c, sl, sc, el, ec = case.split(" ")
    if c in ("!", "-"):
        b = bytes.fromhex(h) if h != "-" else b""
        for i in range(len(b)):
            nb = b[:i] + b[i + 1:]
            try:
                tag = cps(nb.decode("utf8"))
            except UnicodeDecodeError:
                tag = "!"
            yield "%s %s %s %s %s %s" % (hexs(nb), tag, sl, sc, el, ec)
        return
    s = "".join(chr(int(x, 16)) for x in c.split("."))
    for i in range(len(s)):
        t = s[:i] + s[i + 1:]
        for p in {(int(sl), int(sc)), (int(sl), max(0, int(sc) - 1)), (max(0, int(sl) - 1), int(sc))}:
            for q in {(int(el), int(ec)), (int(el), max(0, int(ec) - 1)), (max(0, int(el) - 1), int(ec))}:
                yield off_case(t, p, q)


# ------------------------------------------------------------------ c02.apply (bytes level, malformed)
def gen_apply(rng, tier):
    n = {"quick": 4000, "thorough": 80000, "search": 4000}[tier]
    out = ["- ", "61 F.0:-", "61 F.1:62"]
    for _ in range(n):
        _, pools = pick_mode(rng)
        b = bytearray(rand_text(rng, pools, rng.choice([0, 1, 3, 6, 12])).encode("utf8"))
        if rng.random() < 0.3 and b:
            i = rng.randrange(len(b))
            b[i:i + 1] = bytes([rng.choice([0x80, 0xc3, 0xe4, 0xf0, 0xf8, 0xff])])
        if rng.random() < 0.2:
            b += bytes([rng.choice([0xc3, 0xe4, 0xf0, 0xf8, 0xfc, 0xff])])
        chs = []
        for _ in range(rng.choice([0, 1, 1, 1, 2, 3])):
            t = rand_text(rng, pools, rng.choice([0, 0, 1, 2, 5])).encode("utf8")
            if rng.random() < 0.1:
                t += bytes([rng.choice([0x80, 0xe4, 0xff])])
            k = rng.random()
            if k < 0.15:
                chs.append("F.0:" + hexs(t))
            elif k < 0.2:
                chs.append("F.%d:%s" % (rng.choice([1, 2, 7]), hexs(t)))          # Range == nil, RangeLength != 0
            else:
                sl = rng.choice([0, 0, 0, 1, 1, 2]); sc = rng.choice([0, 0, 1, 2, 3, 4, 6, 9])
                if rng.random() < 0.8:
                    el = sl + rng.choice([0, 0, 0, 1]); ec = sc + rng.choice([0, 0, 1, 2]) if el == sl else rng.choice([0, 1, 2])
                else:
                    el = rng.choice([0, 1, 2]); ec = rng.choice([0, 1, 3])
                chs.append("%d.%d.%d.%d.%d:%s" % (sl, sc, el, ec, rng.choice([0, 0, 1, 5]), hexs(t)))
        out.append(hexs(bytes(b)) + " " + ";".join(chs))
    return out


# ------------------------------------------------------------------ c02.history
class Client:
    """A conforming client: keeps its own text, produces edits from its own (LSP) view of positions."""
    def __init__(self, rng, pools, maxnotes):
        self.rng, self.pools, self.maxnotes = rng, pools, maxnotes
        self.docs = {}          # doc -> text
        self.notes = []

    def text(self, big=False):
        r = self.rng
        n = r.choice([0, 1, 2, 3, 5, 8, 13, 25]) if big else r.choice([0, 0, 1, 1, 2, 3, 5, 9])
        return rand_text(r, self.pools, n)

    def one_change(self, d):
        r = self.rng
        s = self.docs[d]
        if r.random() < 0.12:
            t = self.text(True)
            self.docs[d] = t
            return "F.0:" + cps(t)
        ps = positions(s)
        k = r.random()
        if k < 0.25:
            i = len(ps) - 1                                  # at the document end
        elif k < 0.35:
            i = 0
        else:
            i = r.randrange(len(ps))
        k = r.random()
        if k < 0.45:
            j = i                                            # insertion
        elif k < 0.9:
            j = min(len(ps) - 1, i + r.choice([1, 1, 1, 2, 3, 5]))
        else:
            j = r.randrange(i, len(ps))
        t = "" if (j > i and r.random() < 0.4) else self.text()
        (sl, sc, a), (el, ec, b) = ps[i], ps[j]
        rl = sum(u16(c) for c in s[a:b]) if r.random() < 0.8 else 0     # deprecated rangeLength as VS Code fills it
        self.docs[d] = s[:a] + t + s[b:]
        return "%d.%d.%d.%d.%d:%s" % (sl, sc, el, ec, rl, cps(t))

    def step(self):
        r = self.rng
        opened = sorted(self.docs)
        closed = [d for d in (0, 1, 2) if d not in self.docs]
        acts = []
        if opened:
            acts += [(60, "change"), (10, "save"), (8, "close")]
        if closed:
            acts += [(12 if opened else 100, "open")]
        a = wchoice(r, acts)
        if a == "open":
            d = r.choice(closed)
            t = self.text(True)
            self.docs[d] = t
            self.notes.append("O%d:%s" % (d, cps(t)))
        elif a == "change":
            d = r.choice(opened)
            n = 1 if r.random() < 0.7 else r.choice([2, 2, 3, 4])
            self.notes.append("C%d:%s" % (d, ";".join(self.one_change(d) for _ in range(n))))
        elif a == "save":
            d = r.choice(opened)
            self.notes.append("S%d:%s" % (d, cps(self.docs[d])))
        else:
            d = r.choice(opened)
            del self.docs[d]
            self.notes.append("X%d" % d)

    def run(self):
        n = self.rng.randrange(2, self.maxnotes + 1)
        while len(self.notes) < n:
            self.step()
        return " ".join(self.notes)


def gen_history(rng, tier):
    n = {"quick": 15000, "thorough": 200000, "search": 3000}[tier]
    out = ["O0:-", "O0:- C0:0.0.0.0.0:61", "O0:61.d.a.4e2d C0:1.1.1.1.0:78 C0:0.1.1.0.2:- S0:61.4e2d.78 X0"]
    for _ in range(n):
        _, pools = pick_mode(rng)
        out.append(Client(rng, pools, 12).run())
    return out


def gen_history_bad(rng, tier):
    """what a conforming client never sends: notifications for documents that are not open, positions that are not
    positions of the document, Range == nil with RangeLength != 0, didSave without text, a non-Lua document"""
    n = {"quick": 5000, "thorough": 40000, "search": 1500}[tier]
    out = ["C0:0.0.0.0.0:61", "X0", "S0:61", "S0:nil", "O0:61 S0:nil O0:62", "O0:61 C0:F.3:62 O0:63", "O3:61 S3:62 C3:0.0.0.0.0:63 X3",
           "O0:61 O0:62 X0 X0 C0:F.0:63"]
    for _ in range(n):
        _, pools = pick_mode(rng)
        c = Client(rng, pools, 10)
        k = rng.randrange(2, 11)
        while len(c.notes) < k:
            m = rng.random()
            if m < 0.55:
                c.step()
                continue
            d = rng.choice([0, 0, 1, 2, 3])
            if m < 0.70:                     # a range that is not a range of the client's text
                s = c.docs.get(d, "")
                pl = positions(s)
                bad = bad_positions(s, pl)
                good = [(l, cc) for l, cc, _ in pl]
                p = rng.choice(bad if rng.random() < 0.5 else good)
                q = rng.choice(bad if rng.random() < 0.5 else good)
                c.notes.append("C%d:%d.%d.%d.%d.%d:%s" % (d, p[0], p[1], q[0], q[1], rng.choice([0, 1]), cps(c.text())))
                # the client's own idea of its text is unchanged by its own bogus edit; what the server holds now
                # is compared with the model only (the spec column is "-" from here on unless the edit was in fact valid)
            elif m < 0.76:
                c.notes.append("C%d:F.%d:%s" % (d, rng.choice([1, 2, 9]), cps(c.text())))
            elif m < 0.80:
                c.notes.append("S%d:nil" % d)
            elif m < 0.86:
                c.notes.append("S%d:%s" % (d, cps(c.text())))            # saved text differs / document not open
            elif m < 0.92:
                c.notes.append("X%d" % d)                                # possibly not open
                c.docs.pop(d, None)
            else:
                t = c.text(True)
                c.notes.append("O%d:%s" % (d, cps(t)))                   # possibly already open, possibly the .txt
                if d != 3:
                    c.docs[d] = t
        out.append(" ".join(c.notes))
    return out


def shrink_history(case):
    toks = case.split(" ")
    for k in range(1, len(toks)):
        yield " ".join(toks[:k])
    for i in range(len(toks)):
        yield " ".join(toks[:i] + toks[i + 1:])
    for i, t in enumerate(toks):
        if t[0] == "C" and ";" in t:
            chs = t[3:].split(";")
            for j in range(len(chs)):
                yield " ".join(toks[:i] + [t[:3] + ";".join(chs[:j] + chs[j + 1:])] + toks[i + 1:])


def hist_nontrivial(c):
    return " C" in c and any(len(x) > 2 for x in c.replace(";", ".").replace(":", ".").split(".") if x not in ("nil",))


LEGS = [
    Leg("c02.offsets", gen_offsets, shrink=shrink_offsets,
        nontrivial=lambda c: any(b > 127 or b in (10, 13) for b in (bytes.fromhex(c.split(" ")[0]) if c[0] != "-" else b""))),
    Leg("c02.apply", gen_apply, nontrivial=lambda c: ":" in c),
    Leg("c02.history", gen_history, shrink=shrink_history, nontrivial=hist_nontrivial, per_case_s=0.3),
    Leg("c02.history_bad", gen_history_bad, shrink=shrink_history, nontrivial=lambda c: True, per_case_s=0.3),
]

TRUSTED = vlib.TRUSTED_COMMON + [
    "modelled, tied by correspondence: lspcommon.offsetForStartAndEnd, FileMapCache.ApplyContentChanges/SetFileContent/"
    "DelFileContent/GetFileContent, and the cache-relevant control flow of TextDocumentDidOpen/DidChange/DidSave/DidClose",
    "JSON decoding of the notification parameters (encoding/json: strings arrive as UTF-8, uint32 positions) is not modelled; "
    "the handlers are called with decoded parameters",
]
ASSUMPTIONS = [
    "documents are *.lua files of the workspace not excluded by an ignore rule (IsNeedHandle/IsHandleAsLua true); "
    "document 3 of the harness is a *.txt file to exercise the IsHandleAsLua branch of didOpen",
    "the quantifier of the theorems is 'conformant histories' (Spec/LspText.v conformant): notifications only for open "
    "documents, ranges that are ranges of the client's text, didSave carrying the text (the server asks for includeText), "
    "Range == nil only with RangeLength == 0; other input is compared implementation vs. model only",
    "the server is driven sequentially (the handlers hold requestMutex); interleavings are C10's business",
]


def main(tier, seed):
    r = vlib.Runner("C02", tier, seed)
    r.build()
    can_run = r.can_run()
    extra = {}
    if can_run:
        r.replay_findings({l.name: l for l in LEGS})
        for leg in LEGS:
            rows = r.run_leg(leg)
            with_spec = sum(1 for row in rows if row[3] != "-")
            extra.setdefault("cases_with_spec", {})[leg.name] = with_spec
            if leg.name == "c02.history":
                nonconf = len(rows) - with_spec
                extra["history_generator_nonconformant"] = nonconf
                if nonconf:
                    log("  note: %d generated histories were judged non-conformant by the extracted spec (generator quality only)" % nonconf)
                extra["history_notes_total"] = sum(len(row[0].split(" ")) for row in rows)
                feats = {"crlf": lambda c: ".d.a" in c or ":d.a" in c, "two_documents": lambda c: len({t[1] for t in c.split(" ") if t[0] == "O"}) > 1,
                         "multi_change_batch": lambda c: ";" in c, "full_replace": lambda c: "F.0:" in c,
                         "save": lambda c: " S" in c, "close_then_more": lambda c: " X" in c[:-3],
                         "empty_document_opened": lambda c: any(t[2:] == ":-" for t in c.split(" ") if t[0] == "O"),
                         "non_ascii": lambda c: any(len(x) > 2 for t in c.split(" ") for x in t[3:].replace(";", ".").replace(":", ".").split("."))}
                extra["history_input_distribution"] = {k: sum(1 for row in rows if f(row[0])) for k, f in feats.items()}
                extra["history_known_class_cases"] = {k: sum(1 for row in rows if k in row[4].split(",")) for k in ("astral", "lone_cr", "stale")}
    # report first a failing input from the proved region (no known class), the shortest one
    r.violations.sort(key=lambda v: (v.get("class", "-") != "-", len(v.get("case", ""))))
    return r.finish(LEGS, extra_cov=extra, trusted=TRUSTED, assumptions=ASSUMPTIONS)
