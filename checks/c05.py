# C05 - go-to-definition follows Lua's lexical scoping (DESIGN 5, binder family).
# This file also holds the machinery shared by the position-based members of the family (C06 C11 C12 C14 import it):
# the generator of fragment programs, the layout renderer, the query builder, the projection of the server's answers
# and the Runner that explodes one batched case (= one server process) into one row per query.
import binascii, os, random, re, sys
import vlib
from vlib import Leg

KEYWORDS = set("and break do else elseif end false for function goto if in local nil not or repeat return then true "
               "until while".split())
IDENT_RE = re.compile(r"[A-Za-z_][A-Za-z0-9_]*")


def hx(s):
    if isinstance(s, str):
        s = s.encode()
    return binascii.hexlify(s).decode() if s else "-"


# ----------------------------------------------------------------------------- program generator (core fragment)
# A program is a list of tokens (strings); identifiers are plain strings too, recognised again after rendering.
LOCALS = ["a", "b", "c", "x", "y", "f", "g", "n", "i", "k", "v", "acc", "abc", "xy"]
GLOBALS = ["G", "H", "cfg", "run", "Gx", "count", "emit"]
UNDEF = ["use", "probe", "sink"]


class ProgGen:
    """scope-aware random programs of the core fragment; small name pool => shadowing / re-declaration / same name
    in sibling scopes; unique=True gives every declaration its own name (C14)."""

    def __init__(self, rng, unique=False, globals_pool=None, define_globals=True, size=None):
        self.r = rng
        self.unique = unique
        self.counter = 0
        self.gpool = globals_pool or GLOBALS
        self.define_globals = define_globals
        self.scopes = [[]]            # visible local names (spec view, good enough to steer choices)
        self.loop = 0
        self.fn = 0
        self.vararg = [True]
        self.budget = size or rng.choice([6, 10, 14, 20, 28])
        # secondary stream (seeded from the state of the primary one WITHOUT drawing from it): shapes added to the
        # generator later take their decisions from it, so that the programs of the primary stream stay what they were
        st = rng.getstate()[1]
        self.r2 = random.Random(hash((st[0], st[1], st[2], st[-1])) & 0xFFFFFFFF)

    # ---- names
    def fresh(self, kind="v"):
        if self.unique:
            self.counter += 1
            return "%s%s%d" % (self.r.choice("abcdklmpqrstuvwxyz"), self.r.choice("aeioxy_"), self.counter)
        return self.r.choice(LOCALS)

    def visible(self):
        return [n for sc in self.scopes for n in sc]

    def use_name(self):
        r = self.r
        k = r.random()
        vis = self.visible()
        if vis and k < 0.62:
            return r.choice(vis[-6:]) if r.random() < 0.6 else r.choice(vis)
        if k < 0.80:
            return r.choice(self.gpool)
        if k < 0.90:
            return r.choice(UNDEF)
        return r.choice(LOCALS) if not self.unique else r.choice(self.gpool)

    def declare(self, n):
        self.scopes[-1].append(n)

    # ---- expressions
    def exp(self, d=0):
        r = self.r
        k = r.random()
        if d > 2 or k < 0.38:
            return [self.use_name()]
        if k < 0.50:
            return [str(r.choice([0, 1, 2, 7, 10, 42]))]
        if k < 0.55:
            return [r.choice(["nil", "true", "false"])]
        if k < 0.60:
            q = r.choice(['"', '"', "'"])
            return [q + r.choice(["", "s", "ab c", "x_1"]) + q]
        if k < 0.72:
            op = r.choice(["+", "-", "*", "..", "==", "<", "and", "or", "~=", "/", "%", "^", "<=", ">=", ">"])
            return self.exp(d + 1) + [op] + self.exp(d + 1)
        if k < 0.77:
            return [r.choice(["-", "not", "#"])] + self.exp(d + 1)
        if k < 0.88:
            return self.call(d + 1)
        if k < 0.93:
            return ["("] + self.exp(d + 1) + [")"]
        if k < 0.95 and self.vararg[-1]:
            return ["..."]
        return self.funcexp(d + 1)

    def call(self, d):
        args = []
        for j in range(self.r.choice([0, 1, 1, 2, 3])):
            if j:
                args.append(",")
            args += self.exp(d + 1)
        return [self.use_name(), "("] + args + [")"]

    def params(self):
        r = self.r
        ps = [self.fresh("p") for _ in range(r.choice([0, 1, 1, 2, 3]))]
        va = r.random() < 0.15
        toks = []
        for j, p in enumerate(ps):
            if j:
                toks.append(",")
            toks.append(p)
        if va:
            if ps:
                toks.append(",")
            toks.append("...")
        return ps, va, toks

    def funcbody(self, d):
        ps, va, ptoks = self.params()
        self.scopes.append(list(ps))
        self.vararg.append(va)
        self.fn += 1
        saved_loop, self.loop = self.loop, 0
        body = self.block(d + 1, new_scope=False)
        self.loop = saved_loop
        self.fn -= 1
        self.vararg.pop()
        self.scopes.pop()
        return ["("] + ptoks + [")"] + body + ["end"]

    def funcexp(self, d):
        return ["function"] + self.funcbody(d)

    def explist(self, n, d=0):
        out = []
        for j in range(n):
            if j:
                out.append(",")
            out += self.exp(d)
        return out

    # ---- statements
    def block(self, d, new_scope=True):
        r = self.r
        if new_scope:
            self.scopes.append([])
        n = r.choice([0, 1, 1, 2, 2, 3]) if d > 0 else r.choice([3, 4, 6, 8])
        out = []
        for _ in range(n):
            if self.budget <= 0:
                break
            self.budget -= 1
            out += self.stat(d)
            if r.random() < 0.12:
                out.append(";")
        k = r.random()
        if self.fn > 0 and k < 0.35:
            out += ["return"] + self.explist(r.choice([0, 1, 1, 2]))
        elif self.loop > 0 and k < 0.08:
            out += ["break"]
        if new_scope:
            self.scopes.pop()
        return out

    def stat(self, d):
        r = self.r
        k = r.random()
        deep = d >= 3
        if k < 0.22:
            return self.local_stat()
        if k < 0.30 and not self.unique:
            return self.pattern()
        if k < 0.38:
            n = self.fresh("f")
            self.declare(n)                      # visible in its own body
            return ["local", "function", n] + self.funcbody(d)
        if k < 0.44 and self.define_globals:
            return ["function", r.choice(self.gpool)] + self.funcbody(d)
        if k < 0.58:
            nv = r.choice([1, 1, 1, 2])
            tg = []
            for j in range(nv):
                if j:
                    tg.append(",")
                q = r.random()
                vis = self.visible()
                if vis and q < 0.55:
                    tg.append(r.choice(vis))
                elif self.define_globals or q < 0.8:
                    tg.append(r.choice(self.gpool))
                else:
                    tg.append(r.choice(UNDEF))
            return tg + ["="] + self.explist(r.choice([1, 1, nv, 2]))
        if k < 0.68:
            return self.call(0)
        if deep:
            return self.call(0)
        if k < 0.73:
            return ["do"] + self.block(d + 1) + ["end"]
        if k < 0.78:
            c = self.exp()
            self.loop += 1
            b = self.block(d + 1)
            self.loop -= 1
            return ["while"] + c + ["do"] + b + ["end"]
        if k < 0.83:
            self.loop += 1
            self.scopes.append([])
            b = self.block(d + 1, new_scope=False)
            c = self.exp()                       # sees the block's locals
            self.scopes.pop()
            self.loop -= 1
            return ["repeat"] + b + ["until"] + c
        if k < 0.91:
            out = ["if"] + self.exp() + ["then"] + self.block(d + 1)
            for _ in range(r.choice([0, 0, 1, 2])):
                out += ["elseif"] + self.exp() + ["then"] + self.block(d + 1)
            if r.random() < 0.4:
                out += ["else"] + self.block(d + 1)
            return out + ["end"]
        if k < 0.96:
            v = self.fresh("i")
            bounds = self.explist(r.choice([2, 2, 3]))
            self.scopes.append([v])
            self.loop += 1
            b = self.block(d + 1, new_scope=False)
            self.loop -= 1
            self.scopes.pop()
            return ["for", v, "="] + bounds + ["do"] + b + ["end"]
        vs = [self.fresh("k") for _ in range(r.choice([1, 2, 2, 3]))]
        its = self.explist(r.choice([1, 1, 2]))
        self.scopes.append(list(vs))
        self.loop += 1
        b = self.block(d + 1, new_scope=False)
        self.loop -= 1
        self.scopes.pop()
        nt = []
        for j, v in enumerate(vs):
            if j:
                nt.append(",")
            nt.append(v)
        return ["for"] + nt + ["in"] + its + ["do"] + b + ["end"]

    def local_stat(self):
        r = self.r
        nn = r.choice([1, 1, 1, 2, 2, 3])
        names = [self.fresh() for _ in range(nn)]
        ne = r.choice([0, 1, 1, nn, nn])
        ne = min(ne, nn)
        es = self.explist(ne) if ne else []
        if ne and self.r2.random() < 0.10:
            es += self.surplus_tail()              # more initialisers than names (secondary stream)
        toks = ["local"]
        for j, n in enumerate(names):
            if j:
                toks.append(",")
            toks.append(n)
            if r.random() < 0.04:
                toks += ["<", "const", ">"]
        if ne:
            toks += ["="] + es
        for n in names:
            self.declare(n)
        return toks

    def surplus_tail(self):
        """`, e, e, ...` behind the initialisers of a local statement that has one per name: surplus initialisers, ALL of
        them analysed since fixes/C20-local-surplus.diff (before it: only the first one) - a visible local read only
        there, a closure with a parameter of its own, any expression.  Drawn from the secondary stream."""
        saved = (self.r, self.budget, self.counter)
        self.r, self.budget, self.counter = self.r2, min(self.budget, 2), self.counter + 5000
        try:
            r = self.r
            vis = self.visible()
            out = []
            for _ in range(r.choice([1, 2, 2, 3])):
                k = r.random()
                if vis and k < 0.35:
                    e = [r.choice(vis)]
                elif k < 0.55:
                    p = self.fresh()
                    e = ["function", "(", p, ")", "return", p] + (["+", r.choice(vis)] if vis else []) + ["end"]
                else:
                    e = self.exp(1)
                out += [","] + e
            return out
        finally:
            self.r, self.budget, self.counter = saved

    def pattern(self):
        """the idioms around a declaration's own initialiser / header (classes B1-B4 and their correct neighbours)"""
        r = self.r
        n = self.fresh()
        vis = self.visible()
        if not self.unique and vis and r.random() < 0.6:
            n = r.choice(vis)                    # re-declare a visible name: the interesting case
        k = r.randrange(16)
        g = r.choice(UNDEF)
        if k == 0:
            t = ["local", n, "=", n]
        elif k == 1:
            t = ["local", n, "=", n, r.choice(["+", "..", "or", "and"]), r.choice(["1", n, "nil"])]
        elif k == 2:
            t = ["local", n, "=", "(", n, ")"]
        elif k == 3:
            t = ["local", n, "=", r.choice(["-", "not"]), n]
        elif k == 4:
            t = ["local", n, "=", g, "(", n, ")"]
        elif k == 5:
            t = ["local", n, "=", "function", "(", ")", "return", n, "(", ")", "end"]
        elif k == 6:
            m = self.fresh()
            t = ["local", n, ",", m, "=", r.choice(["1", m, n]), ",", r.choice([n, m])]
            self.declare(m)
        elif k == 7:
            self.declare(n)
            rhs = r.choice([["function", "(", ")", "return", n, "(", ")", "end"], [n], [g, "(", n, ")"],
                            [n, "+", "1"], ["nil"], [n, "or", "nil"]])
            t = ["local", n] + r.choice([[], ["=", "nil"]]) + [";" if r.random() < 0.3 else "do", "end"][0:1]
            if t[-1] == "do":
                t = t[:-1]
            t += [n, "="] + rhs
            if r.random() < 0.5:
                t += [n, "=", g, "(", n, ")"]
            return t
        elif k == 8:
            self.declare(n)
            return ["local", n, "function", n, "(", ")", "return", n, "(", ")", "end"]
        elif k == 9:
            return ["for", n, "=", n, ",", r.choice([n, "10"]), "do", g, "(", n, ")", "end"]
        elif k == 10:
            m = self.fresh()
            return ["for", n, ",", m, "in", g, "(", r.choice([n, m]), ")", "do", g, "(", n, ",", m, ")", "end"]
        elif k == 11:
            return ["repeat", "local", n, "=", g, "(", ")", "until", n]
        elif k == 12:
            return ["do", "local", n, "=", "2", "end", g, "(", n, ")"]
        elif k == 13:
            m = self.fresh()
            t = ["local", m, ",", n, "=", n, ",", "1"]
            self.declare(m)
        elif k == 14:
            m = self.fresh()
            t = ["local", m, ",", n, "=", g, "(", n, ")"]
            self.declare(m)
        else:
            t = ["local", "function", n, "(", n, ")", "return", n, "end"]
        self.declare(n)
        return t

    def chunk(self):
        toks = self.block(0, new_scope=False)
        return toks or ["local", "a"]


# ----------------------------------------------------------------------------- program generator (wide fragment)
class Field(str):
    """a field / method name (`t.k`, `{k = v}`, `o:m()`): an identifier token nobody asks about"""


class Tight(str):
    """`.` / `:` of a field access: written without white space on either side (the server cuts the identifier under
    the cursor out of the TEXT: `t . k` would make `k` a bare name for it)"""


class Brk(str):
    """a token written at the start of a NEW line (whatever the layout style): the body and the `end` of a callback in a
    call chain, so that an earlier callback lies strictly above the line on which the next link's callback starts"""


FIELDS = ["fa", "fb", "key", "mm", "x", "a", "n", "G", "run", "len"]


class WideGen(ProgGen):
    """ProgGen plus `_G.name` reads / writes (name = a visible local, a global or an undefined name), table
    constructors, index expressions, method calls and `function t.f()` / `function t:m()` around plain names"""

    chains = 0.0                 # share of the statements that are call chains with callbacks (see chain_stat); the general
                                 # stream has none (its programs are large enough), gen_chain_workspace builds small ones

    def field(self):
        return Field(self.r.choice(FIELDS))

    def callback(self, d):
        """`function(ps) <body on its own lines> end`: parameters and a body local (small name pool: they shadow outer
        names) that are used on lines of their own inside the body"""
        r = self.r
        ps, va, ptoks = self.params()
        if not ps and r.random() < 0.8:
            ps = [self.fresh("p")]
            ptoks = [ps[0]] + ([",", "..."] if va else [])
        self.scopes.append(list(ps))
        self.vararg.append(va)
        saved_loop, self.loop = self.loop, 0
        saved_fn, self.fn = self.fn, 0           # no `return` from block(): the closing lines below come after it
        body = []
        if r.random() < 0.8:
            w = self.fresh()
            body += [Brk("local"), w, "="] + ([r.choice(ps)] if ps and r.random() < 0.6 else self.exp(2))
            self.declare(w)
        saved_budget = self.budget
        self.budget = given = max(2, min(saved_budget, 3))
        blk = self.block(d + 2, new_scope=False)
        self.budget = saved_budget - (given - self.budget)
        if blk:
            blk = [Brk(blk[0])] + blk[1:]
        vis = self.scopes[-1]
        use = []
        if vis:
            use = [Brk(r.choice(UNDEF)), "("] + [r.choice(vis)] + ([",", r.choice(vis)] if r.random() < 0.5 else []) + [")"]
        ret = []
        if r.random() < 0.3:
            ret = [Brk("return")] + self.explist(r.choice([0, 1, 1, 2]), 2)
        self.loop = saved_loop
        self.fn = saved_fn
        self.vararg.pop()
        self.scopes.pop()
        return ["function", "("] + ptoks + [")"] + body + blk + use + ret + [Brk("end")]

    def chain_stat(self, d):
        """a call STATEMENT whose callee contains a function literal and whose own argument list contains another one:
        `p:next(function(v) ... end):catch(function(e) ... end)`, `p.on(function ... end).on(...)`, 2-3 links, or
        `;(function(x) ... end)(function(y) ... end)`; every callback body on lines of its own (cgFuncCallStat must
        analyse the callee before the arguments: the position resolver needs sibling scopes in source order)"""
        r = self.r
        if r.random() < 0.12:
            return [";", "("] + self.callback(d) + [")", "("] + self.callback(d) + [")"]
        out = self.prefix(1, True)
        for j in range(r.choice([2, 2, 2, 3])):
            out += [Tight(":" if r.random() < 0.7 else "."), self.field(), "("]
            k = r.random()
            if k < 0.15:
                out += self.exp(2) + [","]
            out += self.callback(d)
            if k > 0.9:
                out += [","] + self.exp(2)
            out += [")"]
        return out

    def chain_chunk(self):
        """a small chunk with (at least) one call chain: a few statements that declare names, the chain - at top level,
        in a block or in a function body whose parameters the callbacks may shadow - and a few statements after it"""
        r = self.r
        toks = []
        for _ in range(r.choice([1, 2, 2, 3])):
            toks += self.local_stat() if r.random() < 0.6 else self.stat(0)
        k = r.random()
        if k < 0.5:
            toks += self.chain_stat(0)
        elif k < 0.65:
            self.scopes.append([])
            inner = (self.local_stat() if r.random() < 0.5 else []) + self.chain_stat(1)
            self.scopes.pop()
            toks += ["do"] + inner + ["end"]
        else:
            n = self.fresh("f")
            self.declare(n)
            ps, va, ptoks = self.params()
            self.scopes.append(list(ps))
            self.vararg.append(va)
            self.fn += 1
            inner = (self.local_stat() if r.random() < 0.5 else []) + self.chain_stat(1)
            if r.random() < 0.3:
                inner += ["return"] + self.explist(r.choice([0, 1]), 2)
            self.fn -= 1
            self.vararg.pop()
            self.scopes.pop()
            toks += ["local", "function", n, "("] + ptoks + [")"] + inner + ["end"]
        for _ in range(r.choice([0, 1, 2])):
            toks += self.stat(0)
        return toks

    def gname(self):
        r = self.r
        k = r.random()
        vis = self.visible()
        if vis and k < 0.45:
            return r.choice(vis[-4:]) if r.random() < 0.6 else r.choice(vis)
        if k < 0.85:
            return r.choice(self.gpool if r.random() < 0.7 else GLOBALS)
        return r.choice(UNDEF)

    def gref(self):
        return ["_G", Tight("."), self.gname()]

    def prefix(self, d, noparen=False):
        """something that can be indexed / called (noparen: at the start of a statement, where `(` would continue the
        previous statement)"""
        r = self.r
        k = r.random()
        if k < 0.7 or d > 2:
            return [self.use_name()]
        if k < 0.8:
            return self.gref()
        if k < 0.9 or noparen:
            return self.prefix(d + 1, noparen) + [Tight("."), self.field()]
        return ["("] + self.exp(d + 1) + [")"]

    def args(self, d):
        out = []
        for j in range(self.r.choice([0, 1, 1, 2])):
            if j:
                out.append(",")
            out += self.exp(d + 1)
        return out

    def table(self, d):
        r = self.r
        out = ["{"]
        n = r.choice([0, 1, 2, 3])
        for j in range(n):
            if j:
                out.append(r.choice([",", ",", ";"]))
            k = r.random()
            if k < 0.45:
                out += self.exp(d + 1)
            elif k < 0.8:
                out += [self.field(), "="] + self.exp(d + 1)
            else:
                key = [self.use_name()] if r.random() < 0.7 else [self.use_name(), "+", "1"]
                out += ["["] + key + ["]", "="] + self.exp(d + 1)
        if n and r.random() < 0.15:
            out.append(",")
        return out + ["}"]

    def index(self, d, noparen=False):
        r = self.r
        p = self.prefix(d, noparen)
        if r.random() < 0.55:
            return p + [Tight("."), self.field()]
        return p + ["["] + (self.exp(d + 1) if r.random() < 0.5 else [self.use_name()]) + ["]"]

    def mcall(self, d, noparen=False):
        return self.prefix(d, noparen) + [Tight(":"), self.field(), "("] + self.args(d) + [")"]

    def exp(self, d=0):
        r = self.r
        k = r.random()
        if d > 3 or k < 0.62:
            return ProgGen.exp(self, d)
        if k < 0.74:
            return self.gref()
        if k < 0.82:
            return self.table(d)
        if k < 0.91:
            return self.index(d)
        if k < 0.95:
            return self.mcall(d)
        return self.index(d) + ["("] + self.args(d) + [")"]

    def stat(self, d):
        r = self.r
        if self.chains and d < 3 and r.random() < self.chains:
            return self.chain_stat(d)
        k = r.random()
        if k < 0.70:
            return ProgGen.stat(self, d)
        if k < 0.78:
            # `_G.name = e` (also under a same-named local), sometimes two targets
            t = self.gref()
            if r.random() < 0.2:
                t += [","] + (self.gref() if r.random() < 0.5 else [self.use_name()])
            return t + ["="] + self.explist(r.choice([1, 1, 2]))
        if k < 0.86:
            return self.index(0, True) + ["="] + self.exp()
        if k < 0.90:
            return self.mcall(0, True)
        if k < 0.93:
            return self.index(0, True) + ["("] + self.args(0) + [")"]
        # function t.f() / function t:m() / function _G.f()
        q = r.random()
        if q < 0.2 and self.define_globals:
            head = ["_G", Tight("."), r.choice(self.gpool)]
        else:
            head = [self.use_name()]
            for _ in range(r.choice([1, 1, 2]) - 1):
                head += [Tight("."), self.field()]
            head += [Tight(":" if r.random() < 0.4 else "."), self.field()]
        return ["function"] + head + self.funcbody(d)


# ----------------------------------------------------------------------------- layout


def needs_sep(a, b):
    """may tokens a b be written without white space?  (conservative: the text cut of check_util.go:GetVarStruct
    looks at the characters before an identifier)"""
    wa = a[-1].isalnum() or a[-1] == "_"
    wb = b[0].isalnum() or b[0] == "_"
    if wa and wb:
        return True
    if a[-1] in ")\"'.]" and wb:
        return True
    if a == "-" and b.startswith("-"):
        return True
    if a == "..." or b == "...":
        return True
    if a in ("..", "<", ">", "=", "==", "~=", "~", "<=", ">=", "/", "^", "%", "#") or b in ("..", "=", "==", "~=", "<=", ">=") :
        # a..b between two names is allowed below; otherwise keep operators apart from numbers / each other
        if a == ".." and wb and not b[0].isdigit():
            return False
        if b == ".." and wa and not a[-1].isdigit() and not a[0].isdigit():
            return False
        return True
    if a[-1].isdigit() and b[0] == ".":
        return True
    return False


def render(tokens, rng, style=None):
    """-> (text, [(tok, line, col)])  ASCII, LF only; several statements per line, one-line blocks, odd indentation"""
    style = style or rng.choice(["lines", "lines", "dense", "mixed", "oneline"])
    out = []
    pos = []
    line, col = 0, 0
    prev = None
    depth = 0
    for t in tokens:
        if prev is not None and (isinstance(t, Tight) or isinstance(prev, Tight)):
            out.append("")
        elif prev is not None and isinstance(t, Brk):
            sep = "\n" + " " * rng.choice([0, 0, 2, 4])
            line, col = line + 1, len(sep) - 1
            out.append(sep)
        elif prev is not None:
            ns = needs_sep(prev, t)
            k = rng.random()
            stmt_start = t in ("local", "function", "if", "while", "for", "repeat", "do", "return", "break", "end",
                               "until", "else", "elseif") or prev in (";", "end", "then", "do", "else", "repeat")
            if style == "oneline":
                sep = " " if (ns or k < 0.7) else ""
            elif style == "dense":
                sep = (" " if ns else "") if k < 0.8 else ("\n" if stmt_start and k < 0.9 else " ")
            elif style == "lines":
                if stmt_start and k < 0.75:
                    sep = "\n" + " " * rng.choice([0, 0, 2, 4, depth])
                else:
                    sep = " " if (ns or k < 0.85) else ""
            else:
                if k < 0.12:
                    sep = "\n" + " " * rng.choice([0, 1, 2, 8])
                elif k < 0.2:
                    sep = "  "
                else:
                    sep = " " if (ns or k < 0.8) else ""
            if "\n" in sep and rng.random() < 0.04 and style != "oneline":
                sep = " -- " + rng.choice(["note", "x = 1", "local a", "TODO f(x)"]) + sep
            for ch in sep:
                if ch == "\n":
                    line += 1
                    col = 0
                else:
                    col += 1
            out.append(sep)
        pos.append((t, line, col))
        out.append(t)
        col += len(t)
        prev = t
    text = "".join(out)
    if rng.random() < 0.7:
        text += "\n"
    return text, pos


def ident_positions(pos):
    return [(t, l, c, c + len(t)) for (t, l, c) in pos
            if IDENT_RE.fullmatch(t) and t not in KEYWORDS and t != "const" and not isinstance(t, Field)]


# ----------------------------------------------------------------------------- cases
def make_case(files, steps):
    """files: [(relpath, text)], steps: ['define:0:3:4', ...] (open steps are added)"""
    items = ["F:%s:%s" % (hx(n), hx(t)) for n, t in files]
    items += ["S:open:%d" % i for i in range(len(files))]
    items += ["S:" + s for s in steps]
    return " ".join(items)


def split_case(case):
    fs, steps = [], []
    for it in case.split(" "):
        if it.startswith("F:"):
            fs.append(it)
        elif it.startswith("S:") and not it.startswith("S:open:"):
            steps.append(it[2:])
    return fs, steps


def case_files(case):
    out = []
    for it in case.split(" "):
        if it.startswith("F:"):
            n, c = it[2:].split(":")
            out.append((binascii.unhexlify(n).decode(), b"" if c == "-" else binascii.unhexlify(c)))
    return out


def gen_workspace(rng, unique=False, multi=None, gen_cls=None):
    """-> [(name, text, ident positions)]; gen_cls=WideGen: the wide fragment"""
    wide = gen_cls is not None
    gen_cls = gen_cls or ProgGen
    nfiles = multi if multi is not None else rng.choice([1, 1, 1, 1, 2, 2, 3])
    names = ["a.lua", "b.lua", "sub/c.lua"][:nfiles]
    out = []
    gp = list(GLOBALS)
    rng.shuffle(gp)
    for fi, fn in enumerate(names):
        if nfiles == 1:
            pool, define = GLOBALS, True
        else:
            # most globals have one owner file; a few are assigned in several files (class split_global)
            own = gp[fi::nfiles] + (gp[:1] if rng.random() < 0.25 else [])
            pool, define = own, True
        g = gen_cls(rng, unique=unique, globals_pool=pool if rng.random() < 0.7 or nfiles == 1 else GLOBALS,
                    define_globals=define)
        toks = g.chunk()
        if nfiles > 1 and rng.random() < 0.8:
            # uses of the other files' globals
            other = [x for x in GLOBALS if x not in pool] or GLOBALS
            for _ in range(rng.choice([1, 2, 3])):
                if wide and rng.random() < 0.5:
                    toks += [rng.choice(UNDEF), "(", "_G", Tight("."), rng.choice(other), ")"]
                else:
                    toks += [rng.choice(UNDEF), "(", rng.choice(other), ")"]
        text, pos = render(toks, rng)
        out.append((fn, text, ident_positions(pos)))
    return out


def gen_wide_workspace(rng, unique=False, multi=None):
    return gen_workspace(rng, unique=unique, multi=multi, gen_cls=WideGen)


def gen_twin_workspace(rng):
    """two or three files whose uses of a global sit at IDENTICAL line/column in different files (the global is
    defined in one file only): position-keyed bookkeeping that forgets the file name shows up here"""
    g = rng.choice(GLOBALS)
    fill = ["local zq = 1", "use(1)", "do end", "local function hh() end", ""]
    nlines = rng.choice([2, 3, 4])
    k = rng.randrange(1, nlines + 1)
    ind = " " * rng.choice([0, 0, 2, 4])
    call = rng.choice(UNDEF)
    use_line = ind + "%s(%s + 1)" % (call, g) if rng.random() < 0.5 else ind + "%s(%s)" % (call, g)
    out = []
    for fi, fn in enumerate(["a.lua", "b.lua", "sub/c.lua"][:rng.choice([2, 2, 3])]):
        lines = [rng.choice(fill) for _ in range(nlines + 1)]
        if fi == 0:
            lines[0] = "%s = 1" % g
        else:
            lines[0] = rng.choice(["local zq = 2", "use(2)"])
        lines[k] = use_line
        if rng.random() < 0.5:
            lines.append(use_line)
        text = "\n".join(lines) + "\n"
        pos = []
        for li, ln in enumerate(text.split("\n")):
            for m in IDENT_RE.finditer(ln):
                pos.append((m.group(0), li, m.start()))
        out.append((fn, text, ident_positions(pos)))
    return out


def gen_returned_local_workspace(rng):
    """a local RETURNED by its file's main chunk (find-references then searches every file) and unrelated same-named
    locals declared at the same line/column in other files"""
    n = rng.choice(LOCALS)
    call = rng.choice(UNDEF)
    ind = " " * rng.choice([0, 0, 2])
    out = []
    for fi, fn in enumerate(["a.lua", "b.lua", "sub/c.lua"][:rng.choice([2, 3])]):
        lines = [ind + "local %s = %d" % (n, fi + 1), "%s(%s)" % (call, n)]
        if rng.random() < 0.5:
            lines.append("%s = %s + 1" % (n, n))
        if fi == 0:
            lines.append("return %s" % n)
        text = "\n".join(lines) + "\n"
        pos = []
        for li, ln in enumerate(text.split("\n")):
            for m in IDENT_RE.finditer(ln):
                pos.append((m.group(0), li, m.start()))
        out.append((fn, text, ident_positions(pos)))
    return out


def gen_many_files_workspace(rng, n=None):
    """more files than the references worker pool has workers (runtime.NumCPU()+2): some worker handles several files;
    a global defined in one file and used once per file, each use on a different line"""
    import os
    n = n or (os.cpu_count() or 16) + rng.choice([6, 10])
    g = rng.choice(GLOBALS)
    out = []
    for fi in range(n):
        fn = "m%02d.lua" % fi
        lines = ["-- filler %d" % k for k in range(fi)]
        lines.append("%s = %d" % (g, fi) if fi == 0 else "%s(%s)" % (rng.choice(UNDEF), g))
        text = "\n".join(lines) + "\n"
        pos = []
        for li, ln in enumerate(text.split("\n")):
            if ln.startswith("--"):
                continue
            for m in IDENT_RE.finditer(ln):
                pos.append((m.group(0), li, m.start()))
        out.append((fn, text, ident_positions(pos)))
    return out


def cursor_steps(ops, ws, rng, both_ends=True, newname="zz9", docend=True):
    steps = []
    for fi, (fn, text, ids) in enumerate(ws):
        for (t, l, s, e) in ids:
            for c in ((s, e) if both_ends else (s,)):
                for op in ops:
                    st = "%s:%d:%d:%d" % (op, fi, l, c)
                    if op == "rename":
                        st += ":" + hx(newname)
                    steps.append(st)
    return steps


def prefix_steps(ws):
    steps = []
    for fi, (fn, text, ids) in enumerate(ws):
        for (t, l, s, e) in ids:
            for c in range(s + 1, e + 1):
                steps.append("complete:%d:%d:%d" % (fi, l, c))
    return steps


# ----------------------------------------------------------------------------- projection of the server's answers
def hover_proj(item, ident):
    h = item[len("hover="):]
    if h in ("", "-"):
        return "hover=none"
    try:
        v = binascii.unhexlify(h).decode("utf8", "replace")
    except Exception:
        return item
    lines = v.split("\n")
    label = lines[1] if len(lines) > 1 and lines[0].startswith("```") else lines[0]
    loc = label.startswith("local ")
    rest = label[6:] if loc else label
    if rest.startswith("function "):
        rest = rest[9:]
    if rest.startswith("_G."):
        rest = rest[3:]              # nothing found for `_G.name`: the label is the text that was cut, "_G.name : any"
    m = IDENT_RE.match(rest)
    return "hover=%s:%s" % ("L" if loc else "G", m.group(0) if m else "?")


def idents_of_files(files):
    s = set()
    for _, content in files:
        for m in IDENT_RE.finditer(content.decode("latin1")):
            if m.group(0) not in KEYWORDS:
                s.add(m.group(0))
    return s


def complete_proj(item, idents):
    body = item[len("complete=["):-1] if item.startswith("complete=[") else None
    if body is None:
        return item
    labels = set()
    for x in body.split(","):
        if not x:
            continue
        lab = x.rsplit("/", 1)[0]
        if lab in idents and lab != "_G":         # `_G` is a completion keyword (wide fragment): not modelled
            labels.add(lab)
    return "complete=[" + ",".join(sorted(labels)) + "]"


def ident_at(text, line, col):
    lines = text.decode("latin1").split("\n")
    if line >= len(lines):
        return ""
    ln = lines[line]
    for m in IDENT_RE.finditer(ln):
        if m.start() <= col <= m.end():
            return m.group(0)
    return ""


def project_impl(case, impl_items):
    files = case_files(case)
    _, steps = split_case(case)
    idents = None
    out = []
    for st, it in zip(steps, impl_items):
        a = st.split(":")
        if it.startswith("hover="):
            out.append(hover_proj(it, ident_at(files[int(a[1])][1], int(a[2]), int(a[3]))))
        elif it.startswith("complete=["):
            if idents is None:
                idents = idents_of_files(files)
            out.append(complete_proj(it, idents))
        else:
            out.append(it)
    return out


# ----------------------------------------------------------------------------- runner: one row per query
class BinderRunner(vlib.Runner):
    def eval_cases(self, leg, cases):
        # a wide leg runs the same model leg as its narrow sibling (`run_as`) and drives the real server through the
        # generic scripted leg (`impl_as`): the family's own harness legs reject `_G` as a built-in name
        impl = vlib.run_worker([self.impl_exe, getattr(leg, "impl_as", leg.name)], cases, leg.per_case_s, leg.jobs)
        mod = vlib.run_worker([self.model_exe, getattr(leg, "run_as", leg.name)], cases, max(0.5, leg.per_case_s))
        rows = []
        for c, i, m in zip(cases, impl, mod):
            parts = m.split("\t")
            while len(parts) < 3:
                parts.append("-")
            fs, steps = split_case(c)
            opens = ["S:open:%d" % k for k in range(len(fs))]
            mi, si, ci = (parts[0].split(" | "), parts[1].split(" | "), parts[2].split(" | "))
            ii = i.split(" | ")
            whole_bad = (len(ii) != len(steps)) or (len(mi) != len(steps))
            if whole_bad:
                # a crash / timeout of the whole process, or a driver problem: one row for the whole case
                rows.append((c, i[:2000], parts[0][:2000], "-", "-"))
                continue
            ii = project_impl(c, ii)
            while len(si) < len(steps):
                si.append("-")
            while len(ci) < len(steps):
                ci.append("-")
            for k, st in enumerate(steps):
                one = " ".join(fs + opens + ["S:" + st])
                rows.append((one, ii[k], mi[k], si[k], ci[k]))
        return rows


def skip_model(m):
    return "SKIP" in m


def wide_leg(name, run_as, gen, per_case_s=1.5):
    """a leg on the wide stream (`_G.name`, tables, indexing, methods); same decision rule as the narrow leg `run_as`"""
    leg = Leg(name, gen, nontrivial=nontrivial, describe=describe, per_case_s=per_case_s, skip_model=skip_model)
    leg.run_as, leg.impl_as = run_as, "srv.script"
    return leg


def gen_wide_twin_workspace(rng):
    """a global defined in one file (plainly or as `_G.g = ...`) and used in every file as `g` / `_G.g`, sometimes
    under a same-named local; uses at identical positions in different files"""
    g = rng.choice(GLOBALS)
    call = rng.choice(UNDEF)
    out = []
    for fi, fn in enumerate(["a.lua", "b.lua", "sub/c.lua"][:rng.choice([2, 2, 3])]):
        lines = []
        if fi == 0:
            lines.append(rng.choice(["%s = 1", "_G.%s = 1", "function %s() end", "function _G.%s() end"]) % g)
        else:
            lines.append(rng.choice(["local zq = 2", "use(2)"]))
        if rng.random() < 0.5:
            lines.append("local %s = %d" % (g, fi))              # a local of the same name: `_G.g` is still the global
        lines.append("local y = _G.%s + 1" % g if rng.random() < 0.6 else "local y = %s(_G.%s, %s)" % (call, g, g))
        if rng.random() < 0.5:
            lines.append("_G.%s = y" % g)
        if rng.random() < 0.4:
            lines.append("%s(%s)" % (call, g))
        text = "\n".join(lines) + "\n"
        pos = []
        for li, ln in enumerate(text.split("\n")):
            for m in IDENT_RE.finditer(ln):
                pos.append((m.group(0), li, m.start()))
        out.append((fn, text, ident_positions(pos)))
    return out


def gen_chain_workspace(rng, unique=False):
    """one small file around a call-chain STATEMENT with callbacks in two or more links, every callback body on lines of
    its own (seeded C05-5: cgFuncCallStat analysing the arguments before the callee stores the sibling function scopes
    out of source order; the expression form of the same slip was C14-4)"""
    g = WideGen(rng, unique=unique, size=rng.choice([3, 4, 6]))
    text, pos = render(g.chain_chunk(), rng)
    return [("a.lua", text, ident_positions(pos))]


def chain_workspaces(rng, tier, quick, unique=False):
    return [gen_chain_workspace(rng, unique) for _ in range(n_programs(tier, quick=quick))]


def pick_wide_workspace(rng, unique=False):
    return gen_wide_twin_workspace(rng) if (not unique and rng.random() < 0.12) else gen_wide_workspace(rng, unique=unique)


TRUSTED = vlib.TRUSTED_COMMON + [
    "shared Lua front end model (coq/Model/Lexer.v Parser.v; validated separately against the Go parser incl. every Loc)",
    "modelled, tied by correspondence: scope_info.go (AddLocVar, FindLocVar, FindMinScope, GetCompleteVar), var_info.go "
    "(IsCorrectPosition), the scope creation order of analysis_stat.go/analysis_exp.go incl. the re-pointing of empty "
    "locals in cgAssignStat, file_result.go globals, check_util.go GetVarStruct text cut, FindReferences/MatchVarInfo, "
    "hover local/global flag, bare-identifier completion",
    "harness leg = the real language server (harness/srv_script.go), one fresh process per program, all queries of "
    "a program batched; hover is projected to (says local, names the identifier), completion to the labels that are "
    "identifiers of the workspace",
]
ASSUME = [
    "fragment (T1): in_fragment programs (no table constructors / indexing / methods / self / _G / require / goto), "
    "ASCII text without CR and square brackets, no identifier equal to a keyword, snippet or Lua library name",
    "wide legs (*.wide): in_wide programs (Spec/LuaScopeWide.v: additionally `_G.name`, table constructors, indexing, "
    "method calls, `function t.f()` / `function t:m()`; still no self / require / goto / `_G` outside `_G.name`), ASCII "
    "text without CR; cursors on field / method names, next to a same-named string key (near_str) or on a line where "
    "matchSpecialBracketsStr fires are skipped (SKIP-CUT / SKIP-KEY); correspondence and spec as for the narrow legs, "
    "no positive theorem yet beyond model-level facts (Properties: *_wide_*)",
    "a global defined by several files resolves through the order-dependent workspace table (C09): such queries are "
    "skipped (SKIP-AMBIG) unless the querying file defines the global itself",
    "Laid P (Locs are token spans of a text) is a hypothesis of the theorems; discharged for parser output by the lead",
    "wide legs also run small programs around a call-chain STATEMENT with callbacks in two or more links, each callback "
    "body on lines of its own (gen_chain_workspace): the position resolver needs the sibling function scopes in source order",
]


def nontrivial(case):
    return "S:open" in case and len(case) > 200


def describe(case):
    try:
        fs = case_files(case)
        _, steps = split_case(case)
        return "%s || %s" % (" ## ".join("%s: %r" % (n, t.decode("latin1")[:300]) for n, t in fs), " ".join(steps)[:200])
    except Exception:
        return case[:300]


def n_programs(tier, quick=400):
    return {"quick": quick, "thorough": quick * 50, "search": quick // 2}[tier]


def gen_define(rng, tier):
    out = []
    for _ in range(n_programs(tier)):
        ws = gen_workspace(rng)
        steps = cursor_steps(["define"], ws, rng)
        if rng.random() < 0.3:
            # the very end of the document
            fn, text, ids = ws[0]
            lines = text.split("\n")
            steps.append("define:0:%d:%d" % (len(lines) - 1, len(lines[-1])))
        out.append(make_case([(fn, text) for fn, text, _ in ws], steps))
    return out


def run_family(pid, legs, tier, seed, model_pid="C05", runner_cls=None, assume_extra=()):
    r = (runner_cls or BinderRunner)(pid, tier, seed)
    if pid == model_pid:
        r.build()
    else:
        r.build(need_model=False, coq_targets=["Extract/Extract%s.vo" % model_pid])
        with vlib.Lock("build.lock" if not vlib.ALT else "build-" + os.path.basename(vlib.ALTDIR) + ".lock"):
            ok, out, exe = vlib.build_ocaml(model_pid)
        if not ok:
            r.build_problems.append(("model-build", "ocaml driver", out[-3000:]))
        r.model_exe = exe
    can_run = r.can_run()
    extra = {}
    if can_run:
        r.replay_findings({l.name: l for l in legs})
        for leg in legs:
            r.run_leg(leg)
        # how many of the generated programs lie inside the guards of the positive theorems (C05_define_local_partial,
        # C14_complete_locals_partial: fragment + Laid2 layout + no re-pointing assignment)?  Model side only.
        import random
        rng = random.Random(seed * 31 + 7)
        progs = []
        for _ in range(300 if tier != "thorough" else 5000):
            ws = gen_workspace(rng, multi=1)
            progs.append(make_case([(fn, text) for fn, text, _ in ws], []))
        outs = vlib.run_worker([r.model_exe, "c05.laid"], progs, 0.5)
        cnt = {}
        for o in outs:
            k = o.split("\t")[0]
            cnt[k] = cnt.get(k, 0) + 1
        inside = sum(v for k, v in cnt.items() if k == "frag+laid+laid2+norepoint")
        extra = {"theorem_guard_statistics": {"programs": len(progs), "inside_all_guards": inside, "by_guard_vector": cnt}}
    return r.finish(legs, extra_cov=extra, trusted=TRUSTED, assumptions=ASSUME + list(assume_extra))


def gen_define_wide(rng, tier):
    out = []
    for _ in range(n_programs(tier, quick=160)):
        ws = pick_wide_workspace(rng)
        steps = cursor_steps(["define"], ws, rng)
        out.append(make_case([(fn, text) for fn, text, _ in ws], steps))
    for ws in chain_workspaces(rng, tier, 16):
        out.append(make_case([(fn, text) for fn, text, _ in ws], cursor_steps(["define"], ws, rng)))
    return out


LEGS = [
    Leg("c05.define", gen_define, nontrivial=nontrivial, describe=describe, per_case_s=1.0, skip_model=skip_model),
    wide_leg("c05.wide", "c05.define", gen_define_wide, per_case_s=1.0),
]


def main(tier, seed):
    return run_family("C05", LEGS, tier, seed)
