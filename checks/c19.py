# C19 - symbol outlines list every declaration at its real place, findable by name (DESIGN 5, C19)
#
# Legs (all on the REAL server through harness/srv_script.go):
#   c19.docsym  1-2 generated files, textDocument/documentSymbol of each: implementation == model on the FULL outline
#               (names, kinds, ranges, children); the spec comparison uses the verdict of the Gallina judge
#               (Spec/SymbolSpec.v: every reference declaration covered by an entry with a good range) that the model
#               driver prints in its spec column, itemised with the cause (class) of every deviation.
#   c19.wssym   1-3 files + workspace/symbol queries for exact declared names (and one absent name). Demanded: every
#               global (G), every function-valued member at any depth (F) and every function-valued local declaration
#               at any nesting depth (N, each declaration separately) of that name, located at its identifier.
#   c19.wsbig   workspaces with > 200 symbols (the truncation after sorting by score): projection = number of
#               returned symbols + the entries whose name is the query.
#   c19.score   the fuzzy matcher (oracle of C19_workspace_exact): Score(n, n) = 1 and Score <= 1 on every generated name.
import os, re, sys
import vlib
from vlib import Leg, hexs

NAMES = ["a", "b", "c", "t", "u", "obj", "cfg", "M", "f", "g", "h", "x", "y", "Mod", "new_obj", "K2"]
KEYS = ["k", "v", "f", "m", "n", "init", "x", "new", "a", "b", "get_x", "Val"]
PARAMS = ["p", "q", "a", "x", "self_", "n", "cb"]


class Gen:
    """structured generator of mostly-valid Lua files made of declarations (token lists)"""

    def __init__(self, rng, names=None, annot=False):
        self.r = rng
        self.names = names or rng.sample(NAMES, rng.choice([3, 4, 6, 8]))
        self.keys = rng.sample(KEYS, rng.choice([2, 3, 5]))
        self.annot = annot

    def name(self):
        return self.r.choice(self.names)

    def key(self):
        return self.r.choice(self.keys)

    def params(self):
        n = self.r.choice([0, 0, 1, 1, 2, 3])
        ps = self.r.sample(PARAMS, n)
        out = []
        for i, p in enumerate(ps):
            if i:
                out.append(",")
            out.append(p)
        if self.r.random() < 0.1:
            out += ([","] if out else []) + ["..."]
        return ["("] + out + [")"]

    def literal(self):
        return [self.r.choice(["nil", "true", "false", "1", "42", "0.5", '"s"', "'str'", "{}", '"a.b"'])]

    def func(self, d):
        return ["function"] + self.params() + self.block(d - 1, self.r.choice([0, 1, 1, 2, 3])) + ["end"]

    def table(self, d):
        n = self.r.choice([0, 1, 2, 2, 3, 4])
        out = ["{"]
        for i in range(n):
            k = self.r.random()
            if k < 0.6:
                out += [self.key(), "="] + self.value(d - 1)
            elif k < 0.7:
                out += ["[", '"' + self.key() + '"', "]", "="] + self.value(d - 1)
            elif k < 0.8:
                out += ["[", self.r.choice(["1", "2", self.name()]), "]", "="] + self.value(d - 1)
            else:
                out += self.value(d - 1)
            out.append(self.r.choice([",", ",", ";"]) if i < n - 1 or self.r.random() < 0.2 else "")
        out.append("}")
        return [t for t in out if t != ""]

    def access(self):
        out = [self.name()]
        for _ in range(self.r.choice([1, 1, 1, 2])):
            out += [".", self.key()]
        return out

    def value(self, d):
        k = self.r.random()
        if d <= 0 or k < 0.3:
            return self.literal()
        if k < 0.5:
            return self.func(d)
        if k < 0.7:
            return self.table(d)
        if k < 0.76:
            return [self.name()]
        if k < 0.82:
            return [self.name(), "("] + self.literal() + [")"]
        if k < 0.87:
            return [self.name(), "or"] + self.r.choice([["{}"], ["nil"], self.table(d - 1)])
        if k < 0.9:
            return self.access()
        if k < 0.93:
            return ["("] + self.value(d - 1) + [")"]
        if k < 0.96:
            return self.r.choice([["not", self.name()], ["1", "+", "2"], [self.name(), "..", '"s"'], ["#", self.name()]])
        return [self.name(), ":", self.key(), "("] + self.value(d - 1) + [")"]

    def block(self, d, n):
        out = []
        for _ in range(n):
            out += self.stat(d)
            if self.r.random() < 0.15:
                out.append(";")
        if self.r.random() < 0.12:
            out += ["return"] + (self.value(d) if self.r.random() < 0.7 else [])
        return out

    def stat(self, d):
        r = self.r
        k = r.random()
        if k < 0.16:
            m = r.random()
            if m < 0.6:
                return ["local", self.name(), "="] + self.value(d)
            if m < 0.7:
                return ["local", self.name()]
            if m < 0.8:
                return ["local", self.name(), ",", self.name(), "="] + self.literal() + [","] + self.literal()
            if m < 0.87:
                return ["local", self.name(), ",", self.name(), "=", self.name(), "(", ")"]
            if m < 0.92:
                return ["local", self.name(), "=", "nil"]
            if m < 0.96:
                return ["local", self.name(), self.r.choice(["<const>", "<close>", "< const >"]), "="] + self.r.choice([["nil"], self.literal()])
            return ["local", self.name(), "="] + self.literal() + [","] + self.value(d)
        if k < 0.24:
            return ["local", "function", self.name()] + self.params() + self.block(d - 1, r.choice([0, 1, 2])) + ["end"]
        if k < 0.38:
            m = r.random()
            if m < 0.7:
                return [self.name(), "="] + self.value(d)
            if m < 0.85:
                return [self.name(), ",", self.name(), "="] + self.value(d) + [","] + self.value(d)
            if m < 0.92:
                return [self.name(), ",", self.name(), "=", self.name(), "(", ")"]
            return [self.name(), "=", "nil"]
        if k < 0.52:
            m = r.random()
            if m < 0.3:
                tgt = [self.name()]
            elif m < 0.6:
                tgt = [self.name(), ".", self.key()]
            elif m < 0.9:
                tgt = [self.name(), ":", self.key()]
            elif m < 0.95:
                tgt = [self.name(), ".", self.key(), ".", self.key()]
            else:
                tgt = [self.name(), ".", self.key(), ":", self.key()]
            return ["function"] + tgt + self.params() + self.block(d - 1, r.choice([0, 1, 2, 3])) + ["end"]
        if k < 0.56:
            # the table of globals: `_G.n = v`, `_G.n.k = v`, `function _G.n.k() end`, `_G["n"] = v`, reads of `_G.n`
            m = r.random()
            if m < 0.35:
                return ["_G", ".", self.name(), "="] + self.value(d)
            if m < 0.55:
                return ["function", "_G", ".", self.name(), r.choice([".", ":"]), self.key()] + self.params() + \
                    self.block(d - 1, r.choice([0, 1, 2])) + ["end"]
            if m < 0.7:
                return ["_G", ".", self.name(), ".", self.key(), "="] + self.value(d)
            if m < 0.78:
                return ["function", "_G", ".", self.name()] + self.params() + self.block(d - 1, r.choice([0, 1])) + ["end"]
            if m < 0.84:
                return ["_G", "[", '"' + self.name() + '"', "]", "="] + self.value(d)
            if m < 0.9:
                return ["_G", ".", self.name(), ".", self.key(), ".", self.key(), "="] + self.value(d)
            return ["print", "(", "_G", ".", self.name(), ")"]
        if k < 0.66:
            m = r.random()
            if m < 0.6:
                tgt = [self.name(), ".", self.key()]
            elif m < 0.75:
                tgt = [self.name(), ".", self.key(), ".", self.key()]
            elif m < 0.85:
                tgt = [self.name(), "[", '"' + self.key() + '"', "]"]
            elif m < 0.92:
                tgt = [self.name(), "[", r.choice(["1", self.name()]), "]"]
            else:
                tgt = [self.name(), "[", "1", "]", ".", self.key()]
            return tgt + ["="] + self.value(d)
        if k < 0.74:
            m = r.random()
            if m < 0.4:
                return ["print", "("] + self.value(d) + [")"]
            if m < 0.6:
                return self.access() + ["("] + self.value(d) + [")"]
            if m < 0.8:
                return [self.name(), ":", self.key(), "(", ")"]
            return [self.name(), "("] + self.func(d) + [")"]
        if d <= 0:
            return [self.name(), "="] + self.literal()
        n = r.choice([0, 1, 2, 3])
        if k < 0.80:
            return ["do"] + self.block(d - 1, n) + ["end"]
        if k < 0.87:
            out = ["if"] + self.value(0) + ["then"] + self.block(d - 1, n)
            if r.random() < 0.4:
                out += ["elseif", self.name(), "then"] + self.block(d - 1, r.choice([0, 1, 2]))
            if r.random() < 0.5:
                out += ["else"] + self.block(d - 1, r.choice([0, 1, 2]))
            return out + ["end"]
        if k < 0.90:
            return ["while", self.name(), "do"] + self.block(d - 1, n) + ["end"]
        if k < 0.93:
            return ["repeat"] + self.block(d - 1, n) + ["until", self.name()]
        if k < 0.96:
            return ["for", self.name(), "=", "1", ",", "3", "do"] + self.block(d - 1, n) + ["end"]
        if k < 0.99:
            return ["for", self.name(), ",", self.name(), "in", "pairs", "(", self.name(), ")", "do"] + self.block(d - 1, n) + ["end"]
        return ["::", "lbl" + str(r.randrange(3)), "::"]

    def chunk(self, nstats, depth):
        return self.block(depth, nstats)


TIGHT = {".", ":", "(", ")", ",", "[", "]", "{", "}", ";", "=", "<", ">", "::"}
COMMENTS = [" -- c\n", " -- local zz = 1\n", " --x\n", "\n-- function q() end\n"]


def render(toks, rng, crlf=False):
    """random layout: indentation, blank lines, line comments; never fuses two word tokens"""
    nl = "\r\n" if crlf else "\n"
    out = []
    for i, t in enumerate(toks):
        if i > 0:
            p = toks[i - 1]
            tight = (t in TIGHT or p in TIGHT) and not (p == "." and t == ".") and not (p[-1:] == "." or t[:1] == ".") or \
                    (t in (".", ":") or p in (".", ":"))
            # a number followed by "." / ".." would lex as one numeral
            if p[:1].isdigit() or t[:1].isdigit():
                tight = tight and (p in TIGHT - {"."} or t in TIGHT - {"."})
            k = rng.random()
            if tight and k < 0.55:
                sep = ""
            elif k < 0.75:
                sep = " "
            elif k < 0.86:
                sep = nl + " " * rng.choice([0, 0, 2, 4, 1])
            elif k < 0.90:
                sep = "\t"
            elif k < 0.94:
                sep = "  "
            elif k < 0.97:
                sep = nl + nl
            else:
                sep = rng.choice(COMMENTS).replace("\n", nl) + " " * rng.choice([0, 2])
            if p == "-" and (sep + t).startswith("-"):
                sep = " " + sep
            if p.endswith(">") and t == "=" and sep == "":
                sep = " "                 # `>=` would lex as one token
            out.append(sep)
        out.append(t)
    s = "".join(out)
    if rng.random() < 0.7:
        s += nl
    if rng.random() < 0.1:
        s = rng.choice(["-- head" + nl, nl, "  "]) + s
    return s.encode()


WITNESS_SHAPES = [
    "local u = { k = 1, g = function() end }\n",
    "t = {}\nt.v = 1\n",
    "local M = {}\nfunction M.f(a) end\nfunction M:m(b) end\nreturn M\n",
    "h = function() end\nlocal lh = function(q) end\n",
    "local x = 1\nlocal x = 2\n",
    "function t.f() end\n",
    "t = { f = function() end }\nlocal u = nil\nu = { g = function() end }\n",
    "function g()\n  local function h() end\n  zz = 1\nend\n",
    "do local a = 1 end\nprint(function() local b = 2 end)\n",
    # shapes of the defects repaired in round 2b (regression; the committed witnesses are in corpus/c19.*.txt)
    "function foo()\n  t.x = 1\n  t.y = function() end\nend\nt = { z = 2 }\n",
    "local x = 1\nlocal function x() end\nlocal x = { a = 1 }\n",
    "function M.f() end\nfunction M:m(a) end\nM.v = 1\n",
    "M = {}\nfunction M.own() end\n",
    "t.f = nil\nfunction t:f() end\nlocal lt = {}\nlt.g = function() end\n",
    # the five reports of round 3 (agent c19-rest)
    "function init() Cfg = {} end\ninit()\nfunction Cfg.load() end\n",
    "if true then Blk = {} end\nfunction Blk.f() end\nBlk.g = function(a) end\n",
    "local function dup() end\nlocal dup = 5\n",
    "local dup = function() end\nlocal function dup(a) end\ndo local function dup() end local dup = 1 end\n",
    "function gouter()\n  local function inner() end\n  local v = function(a) end\nend\n",
    "M = {}\nfunction M.f()\n  local function deep() end\nend\nfunction M:m()\n  local function deep2() end\nend\n",
    "_G.GT = {}\nfunction _G.GT.f() end\n_G.GT.v = 1\nfunction _G.GT:m(a) end\n",
    "_G.gf = function(a) end\nfunction _G.gg() end\n_G.gv = 1\nprint(_G.other)\n",
    "N = { sub = { f = function() end } }\nfunction N.sub.h() end\nlocal L = { q = {} }\nfunction L.q.s() end\n",
    "function g() T = { a = 1 } end\nT = { f = function() end }\nfunction T.h() end\n",
    "do Blk2 = {} end\nfunction Blk2:m() end\nwhile x do W = {} end\nW.f = function() end\n",
]


def gen_file(rng, tier):
    k = rng.random()
    if k < 0.09:
        src = rng.choice(WITNESS_SHAPES).encode()
        if rng.random() < 0.5:       # shifted by a random prefix so that columns/lines vary
            src = (rng.choice(["\n", "local q0 = 0\n", "  ", "-- c\n\n"]) * rng.choice([1, 2, 5])).encode() + src
        return src
    g = Gen(rng, annot=False)
    toks = g.chunk(rng.choice([1, 2, 3, 4, 6, 8, 12]), rng.choice([1, 2, 2, 3]))
    src = render(toks, rng, crlf=rng.random() < 0.08)
    if rng.random() < 0.03:         # annotation class lines: outside the modelled fragment (SKIP-FRAGMENT)
        src = b"---@class Cls\n" + src
    if rng.random() < 0.02:         # damaged file: outside the property ("valid file"), model says SKIP-INVALID
        i = rng.randrange(len(src) + 1)
        src = src[:i] + rng.choice([b"(", b"end", b"=", b"'"]) + src[i:]
    return src


def case_of(files, steps):
    items = ["F:%s:%s" % (hexs(("f%d.lua" % i).encode()), hexs(c)) for i, c in enumerate(files)]
    return " ".join(items + steps)


def gen_docsym(rng, tier):
    n = {"quick": 1200, "thorough": 20000, "search": 600}[tier]
    out = []
    for _ in range(n):
        files = [gen_file(rng, tier) for _ in range(rng.choice([1, 1, 1, 2]))]
        out.append(case_of(files, ["S:docsym:%d" % i for i in range(len(files))]))
    return out


IDENT = re.compile(rb"[A-Za-z_][A-Za-z0-9_]*")


MEMBER = re.compile(rb"([A-Za-z_][A-Za-z0-9_]*)\s*[.:]\s*([A-Za-z_][A-Za-z0-9_]*)")


CHAIN = re.compile(rb"[A-Za-z_][A-Za-z0-9_]*(?:\s*[.:]\s*[A-Za-z_][A-Za-z0-9_]*){2,}")


def names_in(files, rng, k):
    """candidate exact names: identifiers of the files, the member pairs b.k / b:k written in them, random pairs"""
    ids = sorted({m.group(0).decode() for f in files for m in IDENT.finditer(f)} - set(KW))
    pairs = {(m.group(1) + b"." + m.group(2)).decode() for f in files for m in MEMBER.finditer(f)}
    for f in files:                      # longer chains a.b.c and their suffixes, `_G.` dropped
        for m in CHAIN.finditer(f):
            parts = [x.decode() for x in re.split(rb"\s*[.:]\s*", m.group(0))]
            if parts and parts[0] == "_G":
                parts = parts[1:]
            for a in range(len(parts)):
                for b in range(a + 2, len(parts) + 1):
                    pairs.add(".".join(parts[a:b]))
    pairs = sorted(pairs)
    if not ids:
        return ["zz"]
    out = []
    for _ in range(k):
        m = rng.random()
        if m < 0.45 and pairs:
            a = rng.choice(pairs)
        elif m < 0.55:
            a = rng.choice(ids) + "." + rng.choice(ids)
        else:
            a = rng.choice(ids)
        out.append(a)
    return out


KW = ["and", "break", "do", "else", "elseif", "end", "false", "for", "function", "goto", "if", "in", "local", "nil", "not",
      "or", "repeat", "return", "then", "true", "until", "while", "print", "pairs", "const"]


def gen_wssym(rng, tier):
    n = {"quick": 400, "thorough": 8000, "search": 200}[tier]
    out = []
    for _ in range(n):
        files = [gen_file(rng, tier) for _ in range(rng.choice([1, 2, 2, 3]))]
        qs = names_in(files, rng, rng.choice([1, 2, 3])) + (["absent_name"] if rng.random() < 0.3 else [])
        out.append(case_of(files, ["S:wssym:%s" % hexs(q.encode()) for q in qs]))
    return out


def gen_wsbig(rng, tier):
    """more than maxSymbols (200) symbols: only the exact names have score 1 (distinct fixed-length lower-case names)"""
    n = {"quick": 16, "thorough": 200, "search": 10}[tier]
    out = []
    for _ in range(n):
        nfiles = rng.choice([1, 2, 3])
        total = rng.choice([201, 230, 260, 420])
        ids = rng.sample(range(1000, 9999), total)
        files = [[] for _ in range(nfiles)]
        names = []
        for j, idn in enumerate(ids):
            nm = "g%04dz" % idn
            names.append(nm)
            f = files[rng.randrange(nfiles)]
            m = rng.random()
            if m < 0.5:
                f.append("%s = %d" % (nm, j))
            elif m < 0.8:
                f.append("function %s(a) end" % nm)
            else:
                f.append("local %s = %d" % (nm, j))
        # the same name declared in two files: two perfect matches
        dup = rng.choice(names)
        files[rng.randrange(nfiles)].append("%s = 0" % dup)
        srcs = [("\n".join(rng.sample(f, len(f))) + "\n").encode() for f in files]
        qs = [rng.choice(names), dup]
        out.append(case_of(srcs, ["S:wssym:%s" % hexs(q.encode()) for q in qs]))
    return out


def gen_score(rng, tier):
    n = {"quick": 4000, "thorough": 60000, "search": 2000}[tier]
    out = []
    alpha = "abcxyzABCXYZ_019"
    for _ in range(n):
        def nm():
            k = rng.random()
            if k < 0.5:
                s = rng.choice(NAMES + KEYS)
            else:
                s = rng.choice("abcXYZ_") + "".join(rng.choice(alpha) for _ in range(rng.choice([0, 1, 2, 5, 9, 30, 70])))
            if rng.random() < 0.4:
                s += "." + rng.choice(KEYS + ["Zz9_"])
            return s
        out.append(hexs(nm().encode()) + " " + hexs(nm().encode()))
    return out


# ---------------------------------------------------------------------------------------------- judge (Python side)
# Used (a) to re-judge the IMPLEMENTATION's answer when it differs from the model's, (b) as a cross-check of the
# Gallina judge's verdict on the model's own answer.
ENT = re.compile(r"((?:[0-9a-f]{2})+|-)/(\d+)@(\d+):(\d+)-(\d+):(\d+)/[^,\[\]]*")


def parse_outline(s):
    """'[a/13@r/r[kid,...],b...]' -> list of (name, kind, (sl, sc, el, ec), children)"""
    pos = [0]

    def lst():
        assert s[pos[0]] == "["
        pos[0] += 1
        out = []
        while s[pos[0]] != "]":
            if s[pos[0]] == ",":
                pos[0] += 1
            m = ENT.match(s, pos[0])
            if not m:
                raise ValueError("bad outline at %d: %s" % (pos[0], s[pos[0]:pos[0] + 40]))
            pos[0] = m.end()
            name = bytes.fromhex(m.group(1)).decode("latin1") if m.group(1) != "-" else ""
            rng_ = tuple(int(m.group(i)) for i in (3, 4, 5, 6))
            kids = lst() if pos[0] < len(s) and s[pos[0]] == "[" else []
            out.append((name, int(m.group(2)), rng_, kids))
        pos[0] += 1
        return out
    return lst()


def undecorate(name):
    loc = name.startswith("local ")
    if loc:
        name = name[6:]
    i = name.find("(")
    if i >= 0:
        name = name[:i]
    if not loc and name.startswith("_G."):         # ContainerName "_G" of a global defined through `_G.name = ...`
        name = name[3:]
    return loc, name.replace(":", ".")


def entries(outline):
    es = []
    for name, kind, r, kids in outline:
        loc, key = undecorate(name)
        es.append((loc, False, key, r))
        for kn, kk, kr, _ in kids:
            es.append((loc, True, undecorate(kn)[1], kr))
    return es


def pos_le(a, b):
    return a <= b


def good_range(r, cands, lens):
    # r in LSP convention (line from 0); cands in Loc convention (line from 1)
    sl, sc, el, ec = r
    if not (sl, sc) <= (el, ec):
        return False
    for l, c in ((sl, sc), (el, ec)):
        if l < 0 or l >= len(lens) or c > lens[l]:
            return False
    for (a, b, c, d) in cands:
        if (sl, sc) <= (a - 1, b) and (c - 1, d) <= (el, ec):
            return True
    return False


def parse_spec(spec):
    """spec column -> (verdict string, {i: decls}, {i: lens}, [(query, [(file, decl)])])"""
    parts = spec.split(" ")
    verdict = parts[0][2:] if parts and parts[0].startswith("J:") else "?"
    decls, lens, queries = {}, {}, []

    def decl(x):
        k, key, locs = x.split(":")
        return (k, bytes.fromhex(key).decode("latin1") if key != "-" else "",
                [tuple(int(v) for v in l.split(".")) for l in locs.split(";") if l])
    for p in parts[1:]:
        if p.startswith("D") and "=" in p:
            i, v = p[1:].split("=", 1)
            decls[int(i)] = [decl(x) for x in v.split(",") if x]
        elif p.startswith("X") and "=" in p:
            i, v = p[1:].split("=", 1)
            lens[int(i)] = [int(x) for x in v.split(",") if x]
        elif p.startswith("Q="):
            q, v = p[2:].split(":", 1)
            queries.append((bytes.fromhex(q).decode("latin1") if q != "-" else "",
                            [(int(x.split("/", 1)[0]), decl(x.split("/", 1)[1])) for x in v.split(",") if x]))
    return verdict, decls, lens, queries


def judge(obs, spec):
    """itemised verdict of an answer (implementation's or model's) against the reference declarations: sorted list"""
    verdict, decls, lens, queries = parse_spec(spec)
    items = []
    steps = obs.split(" | ")
    di = sorted(decls)
    dpos = 0
    qpos = 0
    for st in steps:
        if st.startswith("docsym="):
            if dpos >= len(di):
                return ["unparsed"]
            i = di[dpos]
            dpos += 1
            try:
                es = entries(parse_outline(st[7:]))
            except Exception:
                return ["unparsed"]
            for (k, key, locs) in decls[i]:
                if k == "N":             # function-valued local declaration: demanded of workspace/symbol only
                    continue
                c = [e for e in es if e[2] == key and ((k == "L" and e[0] and not e[1]) or (k == "G" and not e[0] and not e[1])
                                                      or (k == "F" and e[1]))]
                tag = None
                if not c:
                    tag = "missing"
                elif not any(good_range(e[3], locs, lens[i]) for e in c):
                    tag = "badrange"
                if tag:
                    items.append("%s:%d:%s:%s" % (tag, i, k, key))
        elif st.startswith("wssym="):
            if qpos >= len(queries):
                return ["unparsed"]
            q, ds = queries[qpos]
            qpos += 1
            ans = []
            for m in re.finditer(r"((?:[0-9a-f]{2})+|-)/(\d+)@f(\d+)\.lua@(\d+):(\d+)-(\d+):(\d+)", st):
                nm = bytes.fromhex(m.group(1)).decode("latin1") if m.group(1) != "-" else ""
                ans.append((nm[3:] if nm.startswith("_G.") else nm, int(m.group(3)), tuple(int(m.group(j)) for j in (4, 5, 6, 7))))
            for (f, (k, key, locs)) in ds:
                if not any(n == key and ff == f and any(r == (a - 1, b, c - 1, d) for (a, b, c, d) in locs) for (n, ff, r) in ans):
                    items.append("wsmissing:%d:%s:%s" % (f, k, key))
        else:
            return ["unparsed"]
    return sorted(items)


def verdict_items(spec):
    v = parse_spec(spec)[0]
    if v == "OK":
        return []
    out = []
    for it in v.split("|"):
        tag, i, k, key = it.split(":")[:4]
        out.append("%s:%s:%s:%s" % (tag, i, k, bytes.fromhex(key).decode("latin1") if key != "-" else ""))
    return sorted(out)


class Runner19(vlib.Runner):
    """classification with a judge that needs the reference declarations (model's spec column):
       impl == model is decided on the FULL answer; the spec comparison uses the itemised verdict."""

    def classify(self, leg, row):
        c, i, m, s, cls = row
        if getattr(leg, "big", False):
            if leg.skip_model and leg.skip_model(m):
                return "skipped", None
            if i == m:
                return ("ok", None) if big_ok(m, s) else ("unlisted", None)
            return ("corr", None) if big_ok(i, s) else ("corr+violation", None)
        if not getattr(leg, "judged", False):
            return super().classify(leg, row)
        if leg.skip_model and leg.skip_model(m):
            return "skipped", None
        classes = [x for x in cls.split(",") if x and x != "-"]
        if i == m:
            mine = judge(m, s)
            if mine != verdict_items(s):
                return "corr", None               # Gallina judge and Python judge disagree on the same answer
            if not mine:
                return "ok", None
            # every deviation item carries a cause; all causes must be open known classes
            if classes and all(k in self.open_classes for k in classes):
                pref = getattr(self, "_prefer", None)
                if pref is not None and pref.get("class") in classes:
                    return "known", pref
                return "known", self.open_classes[classes[0]]
            return "unlisted", None
        if s != "-" and s.startswith("J:") and judge(i, s):
            return "corr+violation", None
        return "corr", None

    def replay_findings(self, legs_by_name):
        # a witness may show several classes at once (the DESIGN witness of the range rewrite also contains a
        # function-valued field): replay each finding with its own class preferred
        allf = self.findings
        try:
            for f in allf:
                self.findings, self._prefer = [f], f
                super().replay_findings(legs_by_name)
        finally:
            self.findings, self._prefer = allf, None


def big_ok(obs, spec):
    """c19.wsbig: every demanded (file, one of the candidate ranges) appears among the hits of its query"""
    if not spec.startswith("W:"):
        return spec == "-"
    qs = spec[2:].split("|")
    parts = obs.split(" | ")
    if len(parts) != len(qs):
        return False
    for p, q in zip(parts, qs):
        m = re.match(r"n=(\d+) hits=\[(.*)\]$", p)
        if not m:
            return False
        hits = [h.split("@")[1:] for h in m.group(2).split(",") if h]
        for dem in [x for x in q.split(",") if x]:
            f, rs = dem.split("@")
            if not any(h[0] == f and h[1] in rs.split(";") for h in hits):
                return False
    return True


SKIP = lambda m: m.startswith("SKIP")


def describe(c):
    out = []
    for it in c.split(" "):
        if it.startswith("F:"):
            out.append(bytes.fromhex(it.split(":")[2]).decode("utf8", "replace") if it.split(":")[2] != "-" else "")
        else:
            out.append(it)
    return " ## ".join(out)[:600]


def nontrivial(c):
    return sum(len(it) for it in c.split(" ") if it.startswith("F:")) > 120


def shrink_files(case):
    """drop whole lines of a file, then whole files"""
    items = case.split(" ")
    fidx = [k for k, it in enumerate(items) if it.startswith("F:")]
    for k in fidx:
        p = items[k].split(":")
        if p[2] == "-":
            continue
        lines = bytes.fromhex(p[2]).split(b"\n")
        if len(lines) <= 1:
            continue
        for j in range(len(lines)):
            nl = lines[:j] + lines[j + 1:]
            yield " ".join(items[:k] + ["F:%s:%s" % (p[1], hexs(b"\n".join(nl)))] + items[k + 1:])


L_DOC = Leg("c19.docsym", gen_docsym, skip_model=SKIP, describe=describe, nontrivial=nontrivial, per_case_s=1.5,
            shrink=shrink_files)
L_WS = Leg("c19.wssym", gen_wssym, skip_model=SKIP, describe=describe, nontrivial=nontrivial, per_case_s=1.5,
           shrink=shrink_files)
L_BIG = Leg("c19.wsbig", gen_wsbig, skip_model=SKIP, describe=lambda c: c[:120], per_case_s=3.0,
            nontrivial=lambda c: True)
L_SCORE = Leg("c19.score", gen_score, nontrivial=lambda c: True)
for l in (L_DOC, L_WS):
    l.judged = True
L_BIG.big = True
LEGS = [L_DOC, L_WS, L_BIG, L_SCORE]

TRUSTED = vlib.TRUSTED_COMMON + [
    "oracle: fuzzy matcher of workspace/symbol (Section variable score with the hypotheses score n n = 1 and score <= 1; "
    "validated on every generated name by leg c19.score; with <= 200 symbols the answer does not depend on it)",
    "oracle: rune count of GBK-decoded string literals (front end); cases needing it are skipped",
    "shared Lua front end model (lexer + parser, validated by C03's legs) supplies the AST with every Loc",
    "modelled, tied by correspondence on the real server: first-pass analysis as far as the symbol tables observe it "
    "(cgLocalVarDeclStat, cgLocalFuncDefStat, cgAssignStat/checkLeftAssign/handleNotNeedDefine, cgFuncDefExp, "
    "cgTableConstructorExp, scope creation of every block statement), FindAllSymbol / FindAllLocalVal / FindAllVar "
    "(one model flag per repaired defect, Symbols.fixes; deployed = all repairs), lexer.Location.Union, the workspace "
    "merge of members defined on undefined names (generateAllGlobalMaps; ambiguous merges are skipped), "
    "transferSymbolVec, getQuerySymbols (three more flags for the workspace/symbol repairs of round 3), `_G.name = v` / "
    "`_G.t.k = v` targets and reads of `_G.name` (GFlag globals, analysisNoDefineStr), the checkLeftAssign fall-back to a "
    "global defined at a deeper level (Symbols.deep_global_fix); annotation symbols (---@class), `self.` targets, a bare "
    "`_G = v` and `local` statements with a function literal in a later value are outside the fragment (SKIP-FRAGMENT)",
    "open classes are exact boolean predicates extracted from Coq (SymbolsJudge.cls_depth2, cls_member_lost); any other "
    "deviation of the model's answer from the reference declaration list is class `unexplained` = VIOLATION",
    "Python judge in checks/c19.py: only labels correspondence breaks and cross-checks the Gallina judge",
]
ASSUME = [
    "C19_workspace_exact: score n n = 1, score p c <= 1 (Section hypotheses), #perfect <= 200",
    "theorems are stated for analyse fuel b = Ok st (no fuel exhaustion; the driver reports MODEL-OUT-OF-FUEL otherwise)",
]


def main(tier, seed):
    r = Runner19("C19", tier, seed)
    r.build()
    can_run = r.can_run()
    if can_run:
        r.replay_findings({l.name: l for l in LEGS})
        for leg in LEGS:
            r.run_leg(leg)
    return r.finish(LEGS, trusted=TRUSTED, assumptions=ASSUME)
