# C15 - annotated types give a variable exactly its declared and inherited members (DESIGN 5, C15)
#        + the class-traversal part of C01 (cyclic aliases / inheritance never hang or crash)
#
# The deciding model is the REPAIRED class lookup (fix 53b8e25: the best declaration of the referring file
# first, then all the others; Model/Classes.v c15_split_fixed = true) and the repaired alias resolution: no known
# class is left, every deviation from the closure is a violation.
#
# One leg, c15.members: generated class graphs, rendered by the Go leg to annotation comments in the Lua files of
# a temporary workspace and queried through the REAL language server (child process per ~150 cases; a stack
# overflow kills only the child).  The model side (extracted from coq/Model/Classes.v) receives the graph in the
# serialised form of the case line, not the Lua text.  Case format: see ocaml/c15_run.ml.
import glob, os, re, shutil, time
import vlib
from vlib import Leg

ANY, NUMBER = 0, 3
FIRST_TYPE, FIRST_FIELD = 10, 40


# ----------------------------------------------------------------------------- abstract graphs
# def = dict(file, kind 'c'|'a', name, parents [..] | ty str, fields [(name, tystr)], glue bool)
# glue = written directly under the previous definition of the same file (same comment block)

def layout(defs, nfiles, f0, slot, q, ty, univ):
    """assign line numbers; returns the case line.  slot = index among the definitions of file f0 before which
    the two variables are declared (len = after all)."""
    per_file = {i: [] for i in range(nfiles)}
    for d in defs:
        per_file[d["file"]].append(d)
    out = []
    l0 = None
    line = 1
    for fi in range(nfiles):
        # line numbers are unique across the workspace (file fi starts below the last line used by file fi-1):
        # the server reports some non-member definition targets with the line of one file and the name of
        # another; with unique numbers such a target can never look like a ---@field line
        line += 1
        ds = per_file[fi]
        groups = []
        for d in ds:
            if d.get("glue") and groups:
                groups[-1].append(d)
            else:
                groups.append([d])
        # the variable slot sits between groups, never inside one
        gslot = None
        if fi == f0:
            cnt = 0
            gslot = len(groups)
            for gi, g in enumerate(groups):
                if cnt >= slot:
                    gslot = gi
                    break
                cnt += len(g)
        for gi, g in enumerate(groups + [None]):
            if fi == f0 and gi == gslot:
                line += 1                      # blank
                l0 = line
                line += 6                      # type, local, blank, type, local, blank
            if g is None:
                break
            recs = []
            for d in g:
                hdr = line
                line += 1
                line += d.get("pre", 0)        # remark lines (no annotation) below the header: left unassigned,
                flds = []                      # the Go leg fills every gap of a block with remark lines
                for (fn, ft) in d.get("fields", []):
                    flds.append((fn, line, ft))
                    line += 1
                line += d.get("post", 0)       # remark lines below the last field (they may END the block)
                recs.append((d, hdr, flds))
            last = line - 1
            line += 1                          # blank line ends the block
            # insertion order of generateNewType inside one block: classes first, then aliases
            recs.sort(key=lambda r: 0 if r[0]["kind"] == "c" else 1)
            for d, hdr, flds in recs:
                if d["kind"] == "c":
                    ps = ",".join(str(p) for p in d["parents"]) or "-"
                    fs = "+".join("%d@%d~%s" % f for f in flds) or "-"
                    out.append((fi, "%d:%d:%d:c%d:%s:%s" % (fi, hdr, last, d["name"], ps, fs)))
                else:
                    out.append((fi, "%d:%d:%d:a%d:%s" % (fi, hdr, last, d["name"], d["ty"])))
    out.sort(key=lambda x: x[0])               # stable: file ascending, insertion order inside
    return "%s %d %d %s %s %s" % (q, f0, l0, ty, ",".join(str(u) for u in univ) or "-",
                                  ";".join(x[1] for x in out) or "-")


def parse_case(case):
    """inverse of layout (up to line numbers): -> (defs, nfiles, f0, slot, q, ty, univ)"""
    q, f0, l0, ty, us, ds = case.split(" ")[:6]
    f0, l0 = int(f0), int(l0)
    univ = [int(x) for x in us.split(",")] if us != "-" else []
    recs = []
    if ds != "-":
        for s in ds.split(";"):
            p = s.split(":")
            d = {"file": int(p[0]), "hdr": int(p[1]), "last": int(p[2]), "kind": p[3][0], "name": int(p[3][1:])}
            if d["kind"] == "c":
                d["parents"] = [int(x) for x in p[4].split(",")] if p[4] != "-" else []
                d["fields"] = []
                if p[5] != "-":
                    for f in p[5].split("+"):
                        a, rest = f.split("@")
                        ln, t = rest.split("~")
                        d["fields"].append((int(a), t))
                        d.setdefault("flines", []).append(int(ln))
            else:
                d["ty"] = p[4]
            recs.append(d)
    recs.sort(key=lambda d: (d["file"], d["hdr"]))
    for i, d in enumerate(recs):                   # remark gaps (layout's pre / post)
        fl = d.pop("flines", [])
        d["pre"] = (fl[0] - d["hdr"] - 1) if fl else 0
        used = fl[-1] if fl else d["hdr"]
        nxt = recs[i + 1] if i + 1 < len(recs) else None
        if nxt is not None and nxt["file"] == d["file"] and nxt["last"] == d["last"]:
            d["post"] = max(0, nxt["hdr"] - used - 1)
        else:
            d["post"] = max(0, d["last"] - used)
    prev = None
    slot = 0
    for d in recs:
        d["glue"] = prev is not None and prev["file"] == d["file"] and prev["last"] == d["last"]
        if d["file"] == f0 and d["hdr"] < l0:
            slot += 1
        prev = d
    nfiles = max([f0] + [d["file"] for d in recs]) + 1
    return recs, nfiles, f0, slot, q, ty, univ


# ----------------------------------------------------------------------------- random types

def rand_single(rng, pool, depth=0):
    r = rng.random()
    n = "n%d" % rng.choice(pool)
    if r < 0.55:
        return n
    if r < 0.70:
        return n + "[]"
    if r < 0.80:
        return "t<n%d,%s>" % (NUMBER, rand_type(rng, pool, depth + 1) if depth < 1 else n)
    if r < 0.84:
        return "t<%s,%s>" % (n, "n%d" % rng.choice(pool))
    if r < 0.87 and depth < 1:
        return "(%s)[]" % rand_type(rng, pool, depth + 1, minlen=2)
    if r < 0.90 and depth < 1:
        return "(%s)" % rand_type(rng, pool, depth + 1)
    if r < 0.93:
        return "te"
    if r < 0.95:
        return "fn"
    if r < 0.97:
        return "cs"
    if r < 0.985:
        return "n%d" % ANY
    return "n%d" % NUMBER


def rand_type(rng, pool, depth=0, minlen=1):
    k = max(minlen, rng.choice([1, 1, 1, 2, 2, 3]))
    return "|".join(rand_single(rng, pool, depth) for _ in range(k))


def gen_graph(rng, size):
    """random workspace"""
    nnames = rng.randint(2, size)
    pool = list(range(FIRST_TYPE, FIRST_TYPE + nnames))
    refpool = pool + [FIRST_TYPE + nnames]          # one name that is never declared
    nfiles = rng.choice([1, 1, 2, 2, 3])
    fpool = list(range(FIRST_FIELD, FIRST_FIELD + rng.randint(2, 6)))
    split_p = rng.choice([0.0, 0.0, 0.15, 0.4])
    alias_p = rng.choice([0.15, 0.3, 0.5])
    defs = []
    for n in pool:
        r = rng.random()
        copies = 0 if r < 0.05 else (1 if r > split_p + 0.05 else rng.choice([2, 2, 3]))
        kind = "a" if rng.random() < alias_p else "c"
        for c in range(copies):
            if c > 0 and rng.random() < 0.1:
                kind = "a" if kind == "c" else "c"      # same name declared as class and as alias
            d = {"file": rng.randrange(nfiles), "kind": kind, "name": n, "glue": False}
            if rng.random() < 0.02:
                d["name"] = ANY
            if kind == "c":
                k = rng.choice([0, 0, 1, 1, 1, 2, 2, 3])
                d["parents"] = [rng.choice(refpool + [n] * (1 if rng.random() < 0.1 else 0) + [ANY] * (1 if rng.random() < 0.05 else 0))
                                for _ in range(k)]
                nf = rng.choice([0, 1, 1, 2, 2, 3])
                d["fields"] = [(rng.choice(fpool), "n%d" % NUMBER if rng.random() < 0.6 else rand_type(rng, refpool))
                               for _ in range(nf)]
            else:
                d["ty"] = rand_type(rng, refpool + ([n] if rng.random() < 0.1 else []))
            defs.append(d)
    rng.shuffle(defs)
    # glue some neighbours of the same file into one comment block (never two aliases/classes that would
    # reorder same-named definitions: class before alias is what generateNewType does anyway)
    by_file = {}
    for d in defs:
        by_file.setdefault(d["file"], []).append(d)
    defs = []
    for fi in sorted(by_file):
        prev = None
        for d in by_file[fi]:
            if prev is not None and rng.random() < 0.12:
                ok = (prev["kind"], d["kind"]) in (("c", "c"), ("a", "a"), ("c", "a")) or prev["name"] != d["name"]
                # an alias line between a class header and later fields would steal nothing but keep it simple:
                # alias followed by a class in one block is only glued when the class has no same-named alias
                if prev["kind"] == "a" and d["kind"] == "c":
                    ok = ok and not d.get("fields")
                d["glue"] = bool(ok)
            defs.append(d)
            prev = d
    return defs, nfiles, pool, refpool, fpool


def start_of(rng, defs, nfiles, pool, refpool):
    r = rng.random()
    if r < 0.25:
        f0, nf = nfiles, nfiles + 1               # a file of its own: every lookup goes to the workspace map
    else:
        f0, nf = rng.randrange(nfiles), nfiles
    cnt = sum(1 for d in defs if d["file"] == f0)
    slot = cnt if rng.random() < 0.7 else rng.randint(0, cnt)
    r = rng.random()
    cls = [d for d in defs if d["kind"] == "c" and d["parents"]]
    if r < 0.12 and cls:
        d = rng.choice(cls)                     # a parent first, then the class itself (or the other way round)
        pair = [rng.choice(d["parents"]), d["name"]]
        if rng.random() < 0.5:
            pair.reverse()
        ty = "|".join("n%d" % x for x in pair)
    elif r < 0.5:
        ty = "n%d" % rng.choice(pool)
    elif r < 0.6:
        ty = "n%d[]" % rng.choice(pool)
    elif r < 0.7:
        ty = "t<n%d,n%d>" % (NUMBER, rng.choice(pool))
    else:
        ty = rand_type(rng, refpool)
    return f0, nf, slot, ty


def type_names(ty):
    return [int(x) for x in re.findall(r"n(\d+)", ty)]


def order_safe(defs, f0):
    """The order of the workspace list of a name declared in several FILES is a Go map iteration order.  (Fallback of
    stable_filter for a missing / stale driver only.)  Conservative syntactic condition from round 1: no such name is
    referred to from a file that declares it.  Since the repair of the split-class lookup the member SETS are order
    free for every workspace (C15_members_full_proved); what can still depend on the order is the first alias
    declaration of a name (element types) - see order_safe_case."""
    files_of = {}
    for d in defs:
        files_of.setdefault(d["name"], set()).add(d["file"])
    multi = {n for n, fs in files_of.items() if len(fs) >= 2}
    if not multi:
        return True
    for n in multi:
        if f0 in files_of[n]:
            return False
    for d in defs:
        refs = list(d.get("parents", [])) + type_names(d.get("ty", ""))
        for (_, ft) in d.get("fields", []):
            refs += type_names(ft)
        for n in refs:
            if n in multi and d["file"] in files_of[n]:
                return False
    return True


def order_safe_case(case):
    defs, nfiles, f0, slot, q, ty, univ = parse_case(case)
    afile = {}
    for d in defs:
        if d["kind"] == "a" and afile.setdefault(d["name"], d["file"]) != d["file"]:
            return False            # "first alias of the workspace list" would depend on the map order
    return order_safe(defs, f0)


def stable_filter(cases):
    """Keep the cases whose answer cannot depend on the iteration order of the Go map that collects the
    declarations of all files (rebuidCreateTypeMap): decided by the extracted model, evaluated under every order of
    the files (driver leg c15.stable).  Without a built driver fall back to the syntactic condition order_safe."""
    cases = list(cases)
    exe = os.path.join(vlib.OCAML_BUILD, "c15_run")
    if not os.path.exists(exe):
        return [c for c in cases if order_safe_case(c)]
    out = vlib.run_worker([exe, "c15.stable"], cases, 0.05)
    keep = []
    for c, o in zip(cases, out):
        v = o.split("\t")[0]
        if v == "1" or (v != "0" and order_safe_case(c)):      # a stale driver without the helper: fall back
            keep.append(c)
    return keep


def has_alias_cycle_risk(defs):
    return any(d["kind"] == "a" for d in defs)


# ----------------------------------------------------------------------------- hand-built shapes (structured stream)

def C(name, parents=(), fields=(), file=0, glue=False):
    return {"file": file, "kind": "c", "name": name, "parents": list(parents),
            "fields": [(f, "n%d" % NUMBER) if isinstance(f, int) else f for f in fields], "glue": glue}


def A(name, ty, file=0, glue=False):
    return {"file": file, "kind": "a", "name": name, "ty": ty, "glue": glue}


def shapes():
    T, F = FIRST_TYPE, FIRST_FIELD
    U = list(range(F, F + 7))
    out = []

    def add(defs, ty, f0=0, q="MIKD", slot=None, nfiles=None):
        nf = max([f0] + [d["file"] for d in defs]) + 1 if nfiles is None else nfiles
        cnt = sum(1 for d in defs if d["file"] == f0)
        out.append(layout(defs, nf, f0, cnt if slot is None else slot, q, ty, U))

    n = lambda k: "n%d" % k
    # single / multiple inheritance, diamond
    add([C(T, [T + 1], [F]), C(T + 1, [T + 2], [F + 1]), C(T + 2, [], [F + 2])], n(T))
    add([C(T, [T + 1, T + 2], [F]), C(T + 1, [], [F + 1]), C(T + 2, [], [F + 2])], n(T))
    add([C(T, [T + 1, T + 2], [F]), C(T + 1, [T + 3], [F + 1]), C(T + 2, [T + 3], [F + 2]), C(T + 3, [], [F + 3])], n(T))
    # cycles: 2, 3, self
    add([C(T, [T + 1], [F]), C(T + 1, [T], [F + 1])], n(T))
    add([C(T, [T + 1], [F]), C(T + 1, [T + 2], [F + 1]), C(T + 2, [T], [F + 2])], n(T + 1))
    add([C(T, [T], [F])], n(T))
    # alias chains, alias as parent, alias to union in both orders
    add([A(T, n(T + 1)), A(T + 1, n(T + 2)), C(T + 2, [], [F])], n(T))
    add([C(T, [T + 1], [F]), A(T + 1, n(T + 2)), C(T + 2, [], [F + 1])], n(T))
    add([A(T, n(T + 1) + "|" + n(T + 2)), C(T + 1, [], [F]), C(T + 2, [], [F + 1])], n(T))
    add([A(T, n(T + 2) + "|" + n(T + 1)), C(T + 1, [], [F]), C(T + 2, [], [F + 1])], n(T))
    add([C(T + 1, [], [F]), C(T + 2, [], [F + 1])], n(T + 1) + "|" + n(T + 2))
    # class reached as parent first and through an alias later, and the other way round
    add([C(T, [T + 2], [F]), A(T + 1, n(T + 2)), C(T + 2, [T + 3], [F + 1]), C(T + 3, [], [F + 2])], n(T) + "|" + n(T + 1))
    add([C(T, [T + 2], [F]), A(T + 1, n(T + 2)), C(T + 2, [T + 3], [F + 1]), C(T + 3, [], [F + 2])], n(T + 1) + "|" + n(T))
    # a cycle BELOW the start (none of its names is in the name-visited map): only the definition list stops it
    add([C(T, [T + 1], [F]), C(T + 1, [T + 2], [F + 1]), C(T + 2, [T + 1], [F + 2])], n(T))
    add([C(T, [T + 1], [F], file=0), C(T + 1, [T + 2], [F + 1], file=1), C(T + 2, [T + 1], [F + 2], file=2)], n(T), f0=3)
    add([A(T, n(T + 1)), C(T + 1, [T + 2, T + 1], [F + 1]), C(T + 2, [T + 2, T + 1], [F + 2])], n(T))
    # a parent that is already in the name-visited map is skipped, the parents after it are not
    add([C(T, [T + 1, T + 2], [F]), C(T + 1, [], [F + 1]), C(T + 2, [], [F + 2])], n(T + 1) + "|" + n(T))
    add([C(T, [T + 1, T + 2], [F], file=0), C(T + 1, [], [F + 1], file=1), C(T + 2, [], [F + 2], file=1)],
        n(T + 1) + "|" + n(T), f0=2)
    add([C(T, [ANY, T + 2], [F]), C(T + 2, [], [F + 2])], n(T))
    add([C(T, [ANY, T + 2], [F], file=0), C(T + 2, [], [F + 2], file=0)], n(T), f0=1)
    # one half of a split class reached from its own file first (best declaration first, then the other half), the
    # whole class later from another file: everything already visited is skipped
    add([C(T + 1, [T], [F + 2], file=0), C(T, [], [F], file=0), C(T, [], [F + 1], file=1), C(T + 2, [T], [F + 3], file=2)],
        n(T + 1) + "|" + n(T + 2), f0=2)
    add([C(T + 1, [T], [F + 2], file=0), C(T, [], [F], file=0), C(T, [], [F + 1], file=1), C(T + 2, [T], [F + 3], file=2)],
        n(T + 2) + "|" + n(T + 1), f0=2)
    # array and table wrappers, through aliases
    add([C(T, [T + 1], [F]), C(T + 1, [], [F + 1])], n(T) + "[]")
    add([C(T, [T + 1], [F]), C(T + 1, [], [F + 1])], "t<n3," + n(T) + ">", q="MIKDP")
    add([A(T + 2, n(T) + "[]"), C(T, [T + 1], [F]), C(T + 1, [], [F + 1])], n(T + 2), q="MIKDP")
    add([A(T + 2, "t<" + n(T + 1) + "," + n(T) + ">"), C(T, [T + 1], [F]), C(T + 1, [], [F + 1])], n(T + 2), q="MIKDP")
    add([A(T + 3, n(T + 2)), A(T + 2, "n3|" + n(T) + "[]"), C(T, [], [F])], n(T + 3))
    add([A(T + 2, "(" + n(T) + "|" + n(T + 1) + ")[]"), C(T, [], [F]), C(T + 1, [], [F + 1])], n(T + 2))
    # classes split across files, seen from a third file / from a declaring file
    add([C(T, [], [F], file=0), C(T, [], [F + 1], file=1)], n(T), f0=2)
    add([C(T, [], [F], file=0), C(T, [], [F + 1], file=1)], n(T), f0=0)
    add([C(T, [T + 1], [F], file=0), C(T + 1, [], [F + 1], file=1), C(T + 1, [], [F + 2], file=2)], n(T), f0=3)
    # same-file shadowing + name-visited map: union order changed the answer before fix 53b8e25
    # (C15_union_order_repaired; in general C15_union_order_free)
    sh = [C(T, [], [F], file=0), A(T + 1, n(T), file=0), C(T, [], [F + 1], file=1), A(T + 2, n(T), file=2)]
    add(sh, n(T + 1) + "|" + n(T + 2), f0=2)
    add(sh, n(T + 2) + "|" + n(T + 1), f0=2)
    # two declarations of one class in one file: the one "best" by line comes first, the other one follows
    add([C(T, [], [F]), C(T, [], [F + 1])], n(T))
    add([C(T, [], [F]), C(T, [], [F + 1])], n(T), slot=0)
    add([C(T, [], [F]), C(T, [], [F + 1])], n(T), slot=1)
    add([C(T, [], [F]), C(T, [], [F + 1], glue=True)], n(T))
    # `any` as a class / parent, undeclared names
    add([C(ANY, [], [F]), C(T, [ANY, T + 5], [F + 1])], n(T))
    add([C(ANY, [], [F])], n(ANY))
    # remark lines between the last annotation line and the declaration, inside and at the end of blocks
    leaf = [C(T, [T + 1], [F]), C(T + 1, [], [F + 1])]
    add(leaf, n(T), q="MIKDR")
    add(leaf, n(T), q="MIKDS")
    add(leaf, n(T) + "[]", q="MIKDFR")
    add(leaf, "t<n3," + n(T) + ">", q="MIKDPS")
    add([dict(C(T, [T + 1], [F]), pre=1, post=1), dict(C(T + 1, [], [F + 1, F + 2]), pre=2)], n(T), q="MIKDF")
    add([dict(C(T, [T + 1], [F]), post=2), dict(C(T + 1, [], [F + 1], glue=True), post=1), dict(A(T + 2, n(T)), post=1)],
        n(T + 2), q="MIKDRF")
    # cyclic aliases: members are fine, indexing recurses for ever (C15_elem_type_refuted)
    cyc = [A(T, n(T + 1)), A(T + 1, n(T))]
    add(cyc, n(T), q="M")
    add(cyc, n(T), q="MI")
    add(cyc, n(T), q="D")
    add(cyc, n(T), q="P")
    add([A(T, n(T))], n(T), q="MK")
    add([A(T, n(T + 1)), A(T + 1, n(T + 2)), A(T + 2, n(T) + "|" + n(T + 3)), C(T + 3, [], [F])], n(T), q="M")
    add([A(T, n(T + 1)), A(T + 1, n(T + 2)), A(T + 2, n(T) + "|" + n(T + 3)), C(T + 3, [], [F])], n(T), q="MIK")
    # a cycle in the alias graph that is never followed: the array member comes first
    add([A(T, n(T + 1) + "[]|" + n(T)), C(T + 1, [], [F])], n(T))
    add([A(T, n(T) + "|" + n(T + 1) + "[]"), C(T + 1, [], [F])], n(T), q="MI")
    return out


# ----------------------------------------------------------------------------- leg generator / shrinker

def gen_members(rng, tier):
    n = {"quick": 2500, "thorough": 50000, "search": 3000}[tier]
    out = list(shapes())
    for k in range(n):
        size = rng.choice([2, 3, 3, 4, 5, 6, 8])
        defs, nfiles, pool, refpool, fpool = gen_graph(rng, size)
        f0, nf, slot, ty = start_of(rng, defs, nfiles, pool, refpool)
        univ = fpool + [fpool[-1] + 1]
        r = rng.random()
        q = "MIKD" if r < 0.5 else ("MIKDF" if r < 0.75 else ("MIKDP" if r < 0.9 else
                                                              rng.choice(["M", "MI", "MK", "MD", "P", "F", "MDPF"])))
        # remark lines (`-- text`, `-- luacheck: ignore`, unknown `---@tag`): R / S = between the ---@type line and
        # the declaration of v / d; pre / post = inside and at the end of the definition blocks
        r = rng.random()
        if r < 0.15:
            q += "R"
        elif r < 0.3:
            q += "S"
        if rng.random() < 0.3:
            for d in defs:
                if rng.random() < 0.3:
                    d["pre"] = rng.choice([0, 1, 1, 2])
                if rng.random() < 0.3:
                    d["post"] = rng.choice([0, 1, 1, 2])
        out.append(layout(defs, nf, f0, slot, q, ty, univ))
        if has_alias_cycle_risk(defs) and rng.random() < 0.5:
            # the same workspace asked for plain members only: must answer even when indexing would overflow
            out.append(layout(defs, nf, f0, slot, "M", ty, univ))
    return stable_filter(out)


def shrink_members(case):
    defs, nfiles, f0, slot, q, ty, univ = parse_case(case)

    def emit(ds, sl=slot, t=ty, qq=q, u=univ):
        try:
            return layout(ds, max([f0] + [d["file"] for d in ds]) + 1, f0, min(sl, sum(1 for d in ds if d["file"] == f0)), qq, t, u)
        except Exception:
            return None

    for i in range(len(defs)):                                  # drop a definition
        ds = [dict(d) for j, d in enumerate(defs) if j != i]
        if i < len(defs) - 1 and defs[i + 1].get("glue") and not defs[i].get("glue"):
            for d in ds:
                pass
        before = sum(1 for j, d in enumerate(defs) if j < i and d["file"] == f0)
        c = emit(ds, slot - 1 if (defs[i]["file"] == f0 and before < slot) else slot)
        if c:
            yield c
    for i, d in enumerate(defs):                                # drop a parent / a field / simplify an alias
        if d["kind"] == "c":
            for j in range(len(d["parents"])):
                ds = [dict(x) for x in defs]
                ds[i]["parents"] = d["parents"][:j] + d["parents"][j + 1:]
                yield emit(ds)
            for j in range(len(d["fields"])):
                ds = [dict(x) for x in defs]
                ds[i]["fields"] = d["fields"][:j] + d["fields"][j + 1:]
                yield emit(ds)
        elif "|" in d["ty"] and "(" not in d["ty"] and "<" not in d["ty"]:
            parts = d["ty"].split("|")
            for j in range(len(parts)):
                ds = [dict(x) for x in defs]
                ds[i]["ty"] = "|".join(parts[:j] + parts[j + 1:])
                yield emit(ds)
    for i, d in enumerate(defs):                                # drop remark lines
        for key in ("pre", "post"):
            if d.get(key):
                ds = [dict(x) for x in defs]
                ds[i][key] = 0
                yield emit(ds)
    for qq in ("M", "I", "K", "D", "P", "F", "R", "S"):         # fewer queries
        if qq in q and len(q) > 1:
            yield emit(defs, qq=q.replace(qq, ""))
    if len(univ) > 1:
        for j in range(len(univ)):
            yield emit(defs, u=univ[:j] + univ[j + 1:])
    for d in defs:                                              # unglue
        if d.get("glue"):
            ds = [dict(x) for x in defs]
            for x in ds:
                if x["file"] == d["file"] and x["name"] == d["name"] and x.get("glue"):
                    x["glue"] = False
                    break
            yield emit(ds)


def _shrink(case):
    seen = set()
    cands = []
    for c in shrink_members(case):
        if c and c != case and c not in seen:
            seen.add(c)
            cands.append(c)
    return stable_filter(cands)


def nontrivial(case):
    p = case.split(" ")
    return len(p) >= 6 and p[5] != "-" and p[5].count(";") >= 1 and (":a" in p[5] or any(
        s.split(":")[4] != "-" for s in p[5].split(";") if s.split(":")[3][0] == "c"))


LEGS = [
    Leg("c15.members", gen_members, shrink=_shrink, nontrivial=nontrivial, per_case_s=1.5,
        describe=lambda c: c if len(c) < 400 else c[:400] + "..."),
]

TRUSTED = vlib.TRUSTED_COMMON + [
    "modelled, tied by correspondence (real server over channel.Direct, child process): getAllNormalAnnotateClass / "
    "getInLineAllNormalAnnotateClass / getClassTypeInfoList (repaired lookup), GetBestCreateTypeInfo, rebuidCreateTypeMap, "
    "GetAllArrayType / GetAllTableType / GetAllTableKeyType, symbolHasSubKey, getClassListSubMem, "
    "convertClassInfoToCompleteVecs (plain fields), getForCycleAnnotateType",
    "the Go leg renders the serialised class graph to annotation text; the annotation parser itself is C16's model "
    "(here exercised as part of the implementation only)",
    "relating a variable to the annotation fragment on the preceding line (annotate_info.go:811-858, "
    "check_lsp_annotate.go:1336-1445): by correspondence only (every case goes through it)",
    "order of the workspace map across files is a Go map iteration order (fixes/C09-class-order.diff, not applied): "
    "observables are sets, definition targets and the member step `d.<k>.` are compared exactly only for field names "
    "declared once in the workspace, and only cases whose model answer is the same under every order of the files run",
]

ASSUMPTIONS = [
    "members assigned through a variable of the class in the declaring file (RelateVar) are not modelled: the "
    "generated workspaces assign no members; placeholder names of the probe lines (prefix zq) are filtered",
    "the Go stack limit is lowered to 64 MB inside the child process so that the unbounded alias recursion is "
    "reported quickly; the fatal error is the same one as with the default 1 GB",
]


def _cleanup_tmp():
    now = time.time()
    for d in glob.glob("/tmp/c15w-*"):
        try:
            if now - os.path.getmtime(d) > 120:
                shutil.rmtree(d, ignore_errors=True)
        except OSError:
            pass


def main(tier, seed):
    try:
        return vlib.standard_main("C15", LEGS, tier, seed, trusted=TRUSTED, assumptions=ASSUMPTIONS)
    finally:
        _cleanup_tmp()
