# C08 - after any edit/file-event history, diagnostics equal those of a fresh start (DESIGN 5, C08)
#
# Leg c08.history: a case is "<mode> <initial disk> <events>" (syntax in harness/legs_c08.go). The Go leg runs every
# history in a fresh subprocess against the REAL server (langserver.CreateServer over channel.Direct, raw JSON, one
# reader, request round trip as fence) in a temporary workspace, prints the folded publishDiagnostics view after every
# event and - whenever no buffer has unsaved edits - the view of a FRESH server started on the files as they are then and
# told (didOpen) about the documents outside the workspace that are open.
# The OCaml side prints what the Coq model (with the toy analysis of Proofs/EventsToy.v) predicts for both, what the
# property demands, and the finding classes of the history.
# A diagnostic is printed as <type>@<line>#<tag>: the tag is a hash of start column, end line, end column and message
# text, i.e. the comparison covers everything the client is shown. The generators therefore produce texts whose diagnostics
# differ in the message only (g1 / g2 at the same spot; a call of gf whose definition, in another file, changes its
# parameter count; a require of another missing module), and histories that switch between them.
# Leg c08.indir: the same kinds of histories in the configurations DirManager.IsInDir depends on: the client sends no
# PluginPath option (mode letter n), the workspace has a second folder (mode letter f; then p q are workspace files).
# Leg c08.opentext: documents opened with a text that is NOT the file's text (`o<f>=<content>`: an unsaved buffer restored by
# the editor - hot exit -, a file changed behind the editor's back). The repaired didOpen (fixes/C02-didopen-analysed.diff)
# analyses the carried text like a first didChange: the document has unsaved edits from that moment on. The other
# conformant generators mix such opens in as well.
# Leg c08.anntype: annotation types (check 18): a file declares a class (`---@class T1`) another one uses (`---@type T1`) or
# declares again; the declaring file goes away in a notification naming deletions only (watched Delete; didClose of a
# document outside the workspace): the project-wide type table must be rebuilt (seeded change C08-5).
# Leg c08.samepath: ONE watched-files notification naming the same path several times (file replaced by remove + create,
# short-lived file, ...; seeded changes C08-6 / C18-6). The model takes the notification event by event; the spec's
# conformant notifications name every file once, so the demanded observable is computed in this file (samepath_proj: every
# view = the fresh start's view). Leg c08.samepathraw: the notifications of that kind with a `Deleted X, Changed X` pair for a
# re-created file (class `changed_unknown`, found by this leg in round 6, repaired: fixes/C08-changed-unknown.diff - "changed"
# said of a path that is not a project file is handled like "created"); deciding since the repair.
# Since that repair a conformant notification may also say "changed" of a NEW file, and a buffer whose file was deleted may
# be saved (Spec/FreshStart.v conf_action): the conformant generators report a creation as `M` now and then and save such
# buffers.
import vlib
from vlib import Leg

INSIDE = "abcd"
OUTSIDE = "pq"


def rand_content(rng, rich=True, ann=0.14):
    r = rng.random()
    if r < 0.06:
        return "e"
    n = rng.choice([1, 1, 2, 2, 3, 4])
    out = []
    for _ in range(n):
        if rng.random() < ann:
            # annotation types (check 18): a declaration or a use of the class T1 / T2
            out.append(rng.choice("kkt") + rng.choice("112"))
            continue
        k = rng.random()
        if k < 0.18:
            out.append("l")
        elif k < 0.30:
            out.append("c")
        elif k < 0.48:
            out.append("s")
        elif k < 0.58:
            out.append("d" + rng.choice("12"))
        elif k < 0.72:
            out.append("u" + rng.choice("12"))
        elif k < 0.79:
            out.append("f" + rng.choice("12"))
        elif k < 0.86:
            out.append("g")
        else:
            out.append("r" + rng.choice(INSIDE if rng.random() < 0.9 else OUTSIDE))
    return "".join(out)


def stmts(code):
    if code == "e":
        return []
    out, i = [], 0
    while i < len(code):
        if code[i] in "lcsg":        # the other forms have an argument: d u r f k t
            out.append(code[i]); i += 1
        else:
            out.append(code[i:i + 2]); i += 2
    return out


def unstmts(l):
    return "".join(l) if l else "e"


def edit_content(rng, code, ann=0.14):
    """a small edit of an existing text: what typing does (break it, fix it, add or drop a line)"""
    l = stmts(code)
    r = rng.random()
    swap = {"d1": "d2", "d2": "d1", "u1": "u2", "u2": "u1", "l": "c", "f1": "f2", "f2": "f1",
            "ra": "rb", "rb": "rc", "rc": "rd", "rd": "ra", "t1": "t2", "t2": "t1", "k1": "k2", "k2": "k1"}
    if ann == 0:
        swap = {a: b for a, b in swap.items() if a[0] not in "kt"}
    if r < 0.2 and any(x in swap for x in l):
        # same-length change (the unchanged-content shortcut must still see it); for u / f / r the diagnostics it causes -
        # in this file or in the callers of gf - keep type and position and change their message text only
        i = rng.choice([k for k, x in enumerate(l) if x in swap])
        l[i] = swap[l[i]]
        return unstmts(l)
    r = rng.random()
    if r < 0.3:
        l.insert(rng.randrange(len(l) + 1), "s")
    elif r < 0.55 and "s" in l:
        l.remove("s")
    elif r < 0.75:
        l.insert(rng.randrange(len(l) + 1), (stmts(rand_content(rng, ann=ann)) or ["c"])[0])
    elif r < 0.9 and l:
        del l[rng.randrange(len(l))]
    else:
        return rand_content(rng, ann=ann)
    return unstmts(l[:5])


class Ed:
    """generator-side mirror of the editor state, so that most generated actions are meaningful"""
    def __init__(self, disk):
        self.disk = dict(disk)
        self.buf = {}
        self.dirty = set()


def gen_history(rng, n_events, p_outside=0.08, p_raw=0.0, calm=False, batches=False, ann=0.14, INSIDE=INSIDE, OUTSIDE=OUTSIDE,
                p_with=0.2, p_new_changed=0.25):
    """p_new_changed = share of the new files a watched notification reports as Changed instead of Created.
    p_with = share of the didOpen notifications that carry a text of their own (a restored unsaved buffer) instead of the
    file's text.
    ann = share of annotation statements (check 18). The model keeps the project-wide annotation type table inside the
    cross-file analysis `cross`, i.e. over the files of the PROJECT, recomputed when the third pass is; the real server
    builds it over every file it has analysed (fileStructMap) whenever a re-analysis happened. The two agree as long as every
    analysed file is a member of the project - all conformant histories - and differ after a Changed event / didSave for a
    file the server does not know (raw events; saving a buffer whose file was deleted): histories that can contain those
    are generated with ann = 0 (the exploratory leg c08.annraw records what happens there)."""
    files = INSIDE
    disk = {}
    for f in files:
        if rng.random() < 0.6:
            disk[f] = rand_content(rng, ann=ann) if not calm else rand_content(rng, ann=ann).replace("e", "c")
    if OUTSIDE and rng.random() < p_outside * 3:
        disk[rng.choice(OUTSIDE)] = rand_content(rng, ann=ann)
    ed = Ed(disk)
    evs = []
    for _ in range(n_events):
        pool = INSIDE + (OUTSIDE if rng.random() < p_outside else "")
        f = rng.choice(pool)
        if rng.random() < p_raw:
            k = rng.choice("OHSXWWkK")
            c = rand_content(rng, ann=ann)
            if k in "OHSk":
                evs.append("%s%s=%s" % (k, f, c))
                if k == "k":
                    ed.disk[f] = c
            elif k == "W":
                items = [rng.choice("CMD") + g for g in rng.sample(pool, rng.choice([1, 1, 2]))]
                evs.append("W" + "+".join(items))
            else:
                evs.append(k + f)
                if k == "K":
                    ed.disk.pop(f, None)
            continue
        r = rng.random()
        opened = [g for g in ed.buf]
        closed_on_disk = [g for g in ed.disk if g not in ed.buf and (g in INSIDE or rng.random() < p_outside * 4)]
        if r < 0.16 and closed_on_disk:
            g = rng.choice(closed_on_disk)
            ed.buf[g] = ed.disk[g]; ed.dirty.discard(g)
            if not calm and rng.random() < p_with:
                # a restored unsaved buffer: usually a small edit of the file's text (now and then the very same text)
                c = edit_content(rng, ed.disk[g], ann) if rng.random() < 0.85 else ed.disk[g]
                ed.buf[g] = c
                if stmts(c) != stmts(ed.disk[g]):
                    ed.dirty.add(g)
                evs.append("o%s=%s" % (g, c))
                continue
            evs.append("o" + g)
        elif r < 0.46 and opened:
            g = rng.choice(opened)
            c = edit_content(rng, ed.buf[g], ann)
            if calm and c == "e":
                c = "c"
            ed.buf[g] = c; ed.dirty.add(g)
            evs.append("c%s=%s" % (g, c))
        elif r < 0.64 and opened:
            g = rng.choice(sorted(ed.dirty) or opened) if rng.random() < 0.8 else rng.choice(opened)
            if g not in ed.disk and (ann > 0 or rng.random() < 0.5):
                # saving a buffer whose file was deleted re-creates the file; conformant since the changed-unknown repair (the
                # didSave's Changed event is handled like Created). Not with annotation statements (see the docstring)
                continue
            ed.disk[g] = ed.buf[g]; ed.dirty.discard(g)
            evs.append("s" + g)
        elif r < 0.74 and opened:
            cands = [g for g in opened if g not in ed.dirty] if calm else opened
            if not cands:
                continue
            g = rng.choice(cands)
            del ed.buf[g]; ed.dirty.discard(g)
            evs.append("x" + g)
        else:
            items = []
            for g in rng.sample(INSIDE, rng.choice([1, 2, 2, 3]) if batches else 1):
                if calm and g in ed.dirty:
                    continue
                if g in ed.disk:
                    if rng.random() < 0.45:
                        items.append("D" + g); del ed.disk[g]
                    else:
                        c = edit_content(rng, ed.disk[g], ann) if rng.random() < 0.7 else ed.disk[g]
                        if calm and c == "e":
                            c = "c"
                        items.append("M%s=%s" % (g, c)); ed.disk[g] = c
                else:
                    c = rand_content(rng, ann=ann)
                    if calm and c == "e":
                        c = "c"
                    # a new file; some watchers report it as "changed": handled like "created" (changed-unknown repair)
                    items.append("%s%s=%s" % ("M" if rng.random() < p_new_changed else "C", g, c)); ed.disk[g] = c
            if items:
                evs.append("w" + "+".join(items))
    init = ",".join("%s=%s" % (f, c) for f, c in sorted(disk.items())) or "-"
    return init, evs


def case_of(mode, init, evs):
    return "%s %s %s" % (mode, init, ";".join(evs) or "-")


# hand-written seeds: the confirmed findings and their neighbours, fix-then-break cycles, create/delete of required files
SEEDS = [
    "A a=u1,b=c,c=l oa;ca=u1s;ob;cb=d1;sb",
    "A a=s oa;ca=c;xa",
    "A a=rb wCb=c;wDb",
    "A a=su1,b=c oa;ca=u1;ob;cb=d1;sb",
    "A a=s oa;ca=e;sa",
    "A a=s wMa=e",
    "A a=l oa;ca=ls;wMa=ll",
    "A a=u1,p=d1 op;oa;ca=cu1;sa;xp;wMa=u1",
    "A a=l,p=lu1,q=c op;oa;ca=u1;sa;xp;oq",
    "A a=rbl wCb=c;wDb;wCb=d1;oa;ca=rblu1;sa;xa",
    "A a=rbrcl wCb=c;wCc=c;wDb;wDc",
    "A a=ls,b=u1 oa;ca=l;sa;ca=ls;sa;ca=ld1;sa;xa",
    "A - wCa=l;oa;ca=ls;sa;wDa;wCa=l",
    "A a=d1,b=u1,c=u1u2 wDa;wCa=d2;wMa=d1d2;wDa",
    "A a=c oa;ca=c;sa;ca=c;sa;xa;oa;xa",
    # round 2 repairs (clean set / watched events keep the live entries) and their neighbours
    "A a=su1,b=c oa;ca=u1;wCc=d1;wDc;sa",
    "A a=su1,b=c oa;ca=u1;ob;cb=d1;sb;ca=su1;sb;ca=u1;xa",
    "A a=su1 oa;ca=u1;wMa=su2;wMa=u2;xa",
    "A a=s,b=su1 oa;ca=c;ob;cb=u1;wCc=d1;xa;sb;xb",
    "A a=l oa;ca=ls;wMa=ll;wDa;sa;xa",
    "A a=l,b=c oa;ca=ls;wMa=ll+Cc=u1;wDb+Ma=s;ca=l;wMa=ss;sa",
    # documents outside the workspace (p q): members of the project exactly while they are open
    "A a=u1,p=d1 op;oa;ca=cu1;sa;xp",
    "A a=rp,p=su1 op;cp=u1;sp;oa;xp;xa",
    "A a=u1u2,p=d1s,q=d2 op;oq;cp=d1;xq;sp;oa;ca=u2u1;xp;sa",
    "A a=rprq,b=u1,p=d1,q=l oq;op;wMb=u1u2;xq;wDa;wCa=rq;xp",
    "A p=su1 op;cp=u1;xp;op;cp=ss;sp;xp",
    # same kind, same place, other message text: the file must be re-published (seeded change C08-4)
    "A a=u1 wMa=u2",
    "A a=g,b=f2 wMb=f1",
    "A a=g,b=f2 ob;cb=f1;sb",
    "A a=g,b=cf2 wCc=f1;wDc",
    "A a=rb wMa=rc",
    "A a=cg,b=lf1,c=cf2 wDb;wCb=f2;oc;cc=f1;sc;xc",
    "A a=u1d1,b=g oa;ca=u1;sa;ca=u2;sa;wCc=f2;wMc=f1",
    "A a=gf1,b=f2,p=cf1 op;cp=f2;sp;xp;wMb=cf1",
    # annotation types (check 18): the project-wide type table after a notification that names deletions only (seeded change C08-5)
    "A a=k1,b=t1 wDa",
    "A a=k1,b=k1t1t2 wDa",
    "A a=k1k2,b=k2k1,c=t1t2l wDa;wDb",
    "A a=ck1,b=t1,c=lk1 wDa+Dc",
    "A a=t1,p=k1 op;xp",
    "A a=t1l,b=k1 wDb;wCb=k1;ob;cb=k2;sb;xb",
    "A a=t1t2,b=k1,p=k2k1 op;wDb;xp",
    # documents opened with a text that is not the file's (the text carried by didOpen is analysed: C02-open-text-not-analysed)
    "A a=d1,b=u2 oa=d2s;ca=d2;sa;xa",
    "A a=ls oa=l",
    "A a=d1 oa=d1;xa",
    "A a=ls oa=l;xa",
    "A a=l,b=u1 oa=ls;ob;cb=d1;sb;xa",
    "A a=su1,b=c oa=u1;ob;cb=d1;sb;sa",
    "A a=c oa=s;wMa=l;sa;xa",
    "A a=u1,p=d1 op=d1s;oa;xp",
    "A a=u1,p=s op=d1;sp;xp",
    "A a=e oa=s;xa;oa=c;xa;oa",
]


def gen_tagonly(rng, tier):
    """histories built around a switch between two texts whose diagnostics differ in the message only, made by a watched
    Changed event, by didChange + didSave (of the file itself / of the file the message depends on), by create / delete"""
    n = {"quick": 450, "thorough": 7000, "search": 300}[tier]
    pairs = [("u1", "u2"), ("u2", "u1"), ("ra", "rb"), ("rd", "rc")]
    out = []
    for k in range(n):
        files = list(INSIDE)
        rng.shuffle(files)
        f, g, h = files[0], files[1], files[2]
        pad = lambda: "".join(rng.choice(["", "", "c", "l", "c"]) for _ in range(2))
        disk, evs = {}, []
        kind = rng.random()
        if kind < 0.35:
            # the message belongs to the file that is rewritten
            x, y = rng.choice(pairs)
            p1 = pad()
            disk[f] = (p1 + x + pad()) or x
            new = disk[f].replace(x, y)
            if rng.random() < 0.25:
                # type-3 wording ("crcular reference or load order error, var not define") against type-2 wording at the
                # same place: the definition further down in the same file goes away / comes / moves to another file
                k = rng.choice("12")
                with_def, without = p1 + "u" + k + pad() + "d" + k, p1 + "u" + k + "c"
                disk[f], new = (with_def, without) if rng.random() < 0.5 else (without, with_def)
                if rng.random() < 0.4:
                    disk[g] = "d" + k
            if g not in disk and rng.random() < 0.5:
                disk[g] = rand_content(rng)
            how = rng.random()
            if how < 0.5:
                evs.append("wM%s=%s" % (f, new))
            elif how < 0.75:
                evs += ["o" + f, "c%s=%s" % (f, new), "s" + f] + (["x" + f] if rng.random() < 0.5 else [])
            else:
                evs += ["wD" + f, "wC%s=%s" % (f, new)]
        else:
            # the message of f (a call of gf) depends on a definition in g, perhaps competing with one in h
            disk[f] = pad() + "g" + (pad() if rng.random() < 0.5 else "")
            n1 = rng.choice("12")
            n2 = "1" if n1 == "2" else "2"
            pg = rng.choice(["", "c", "l", "cc"])
            disk[g] = pg + "f" + n1
            how = rng.random()
            if how < 0.3:
                evs.append("wM%s=%s" % (g, pg + "f" + n2))
            elif how < 0.55:
                evs += ["o" + g, "c%s=%s" % (g, pg + "f" + n2), "s" + g] + (["x" + g] if rng.random() < 0.5 else [])
            elif how < 0.8:
                # a competing definition on an earlier (or the same) line of another file is created and deleted again
                ph = rng.choice(["", "", "c"]) if pg else ""
                evs += ["wC%s=%s" % (h, ph + "f" + n2), "wD" + h]
            else:
                disk[h] = rng.choice(["", "c"]) + "f" + n2
                evs += ["wD" + g, "wC%s=%s" % (g, "f" + rng.choice("12"))]
        # decorate: unrelated events afterwards
        ed = Ed(disk)
        tail = []
        for _ in range(rng.choice([0, 1, 2, 3])):
            t = rng.choice(INSIDE)
            r = rng.random()
            if r < 0.4:
                c = edit_content(rng, ed.disk[t]) if t in ed.disk else rand_content(rng)
                tail.append(("wM" if t in ed.disk else "wC") + "%s=%s" % (t, c)); ed.disk[t] = c
            elif r < 0.6 and t in ed.disk:
                tail.append("wD" + t); del ed.disk[t]
            else:
                # t may have been deleted while its document is still open: the save is then non-conformant (no annotation
                # statements there, see gen_history)
                tail += ["o" + t, "c%s=%s" % (t, edit_content(rng, ed.disk.get(t, "c"), 0 if t not in ed.disk else 0.14)),
                         "s" + t, "x" + t]
        init = ",".join("%s=%s" % (a, c) for a, c in sorted(disk.items()))
        out.append(case_of("A", init, evs + (tail if rng.random() < 0.6 else [])))
    return out

def gen_anntype(rng, tier):
    """annotation types (check 18): one file declares the class a second one uses (and perhaps a third declares again:
    duplicate warning); the declaring file goes away in a notification that names DELETIONS ONLY (watched Delete alone or
    with other deletions; didClose of a document outside the workspace), or loses / gets the declaration by a change"""
    n = {"quick": 450, "thorough": 7000, "search": 300}[tier]
    out = []
    for k in range(n):
        files = list(INSIDE)
        rng.shuffle(files)
        f, g, h = files[0], files[1], files[2]
        j = rng.choice("12")
        pad = lambda: "".join(rng.choice(["", "", "c", "l", "t" + rng.choice("12")]) for _ in range(2))
        disk, evs = {}, []
        decl = pad() + "k" + j + (pad() if rng.random() < 0.3 else "")
        disk[g] = pad() + "t" + j + (pad() if rng.random() < 0.5 else "")
        if rng.random() < 0.45:
            disk[h] = rng.choice(["", "c"]) + "k" + j + rng.choice(["", "", "t" + j, "k" + ("1" if j == "2" else "2")])
        if rng.random() < 0.2:
            disk[g] += "k" + j
        how = rng.random()
        if how < 0.22:
            # the declaring document lies outside the workspace: it takes part exactly while it is open
            p = rng.choice(OUTSIDE)
            disk[p] = decl
            evs += ["o" + p] + (["w" + "M%s=%s" % (g, disk[g] + "c")] if rng.random() < 0.3 else []) + ["x" + p]
        else:
            disk[f] = decl
            if how < 0.5:
                evs.append("wD" + f)
            elif how < 0.64:
                others = [x for x in (g, h) if x in disk and rng.random() < 0.6]
                items = ["D" + x for x in [f] + others]
                rng.shuffle(items)
                evs.append("w" + "+".join(items))
            elif how < 0.74:
                evs += ["wD" + f, "wC%s=%s" % (f, rng.choice([decl, "c", "t" + j]))]
            elif how < 0.84:
                evs.append("wM%s=%s" % (f, decl.replace("k" + j, rng.choice(["c", "", "k" + ("1" if j == "2" else "2")])) or "e"))
            elif how < 0.92:
                evs += ["o" + f, "c%s=%s" % (f, decl.replace("k" + j, "c")), "s" + f] + (["x" + f] if rng.random() < 0.5 else [])
            else:
                # the declaration arrives later
                del disk[f]
                evs += ["wC%s=%s" % (f, decl), "wD" + f]
        ed = Ed(disk)
        for e in evs:                       # mirror of the disk for the tail
            if e.startswith("w"):
                for it in e[1:].split("+"):
                    if it[0] == "D":
                        ed.disk.pop(it[1], None)
                    else:
                        ed.disk[it[1]] = it.split("=")[1]
        tail = []
        for _ in range(rng.choice([0, 0, 1, 2])):
            t = rng.choice(INSIDE)
            r = rng.random()
            if r < 0.45 and t in ed.disk:
                tail.append("wD" + t); del ed.disk[t]
            elif r < 0.8:
                c = edit_content(rng, ed.disk[t]) if t in ed.disk else rand_content(rng, ann=0.4)
                tail.append(("wM" if t in ed.disk else "wC") + "%s=%s" % (t, c)); ed.disk[t] = c
            elif t in ed.disk:
                c = edit_content(rng, ed.disk[t])
                tail += ["o" + t, "c%s=%s" % (t, c), "s" + t, "x" + t]; ed.disk[t] = c
        init = ",".join("%s=%s" % (a, c) for a, c in sorted(disk.items()))
        out.append(case_of("A", init, evs + tail))
    return out


def gen_opentext(rng, tier):
    """documents opened with a text of their own: the file is clean / broken / has warnings, the opened text is a small edit
    of it (breaks it, repairs it, changes a name) or the same text; afterwards the usual life of a document and of its
    neighbours (change, save, close without saving, external change of the very file, another file's save that changes this
    file's saved list, documents outside the workspace)"""
    n = {"quick": 500, "thorough": 8000, "search": 300}[tier]
    out = []
    for k in range(n):
        r = rng.random()
        init, evs = gen_history(rng, rng.choice([3, 5, 8, 12]), p_outside=0.0 if r < 0.75 else 0.3, batches=rng.random() < 0.2,
                                ann=0.0 if rng.random() < 0.3 else 0.14, p_with=0.85)
        if not any(e[0] == "o" and "=" in e for e in evs):
            # put one in front: open a file of the initial disk with an edited text
            disk = dict(it.split("=") for it in init.split(",")) if init != "-" else {}
            cands = [f for f in disk if f in INSIDE]
            if cands:
                f = rng.choice(cands)
                evs = ["o%s=%s" % (f, edit_content(rng, disk[f], 0.0))] + evs
        out.append(case_of("A" if rng.random() < 0.9 else "E", init, evs))
    return out


def gen_conformant(rng, tier):
    n = {"quick": 2400, "thorough": 40000, "search": 1200}[tier]
    out = list(SEEDS)
    for k in range(n):
        m = rng.random()
        calm = m < 0.35                      # stays mostly inside the guard of C08_incremental_eq_fresh
        init, evs = gen_history(rng, rng.choice([3, 5, 8, 10, 12, 15]), p_outside=0.0 if calm or m < 0.7 else 0.3, calm=calm,
                                ann=0.0 if rng.random() < 0.2 else 0.14)
        out.append(case_of("A" if rng.random() < 0.85 else "E", init, evs))
    return out


def gen_batch(rng, tier):
    """watched notifications naming several files"""
    n = {"quick": 500, "thorough": 8000, "search": 200}[tier]
    out = ["A a=rbrcl wCb=c+Cc=c;wDb+Dc", "A a=u1u2 wCb=d1+Cc=d2;wMb=c+Dc"]
    for k in range(n):
        init, evs = gen_history(rng, rng.choice([3, 6, 10]), p_outside=0.0, calm=rng.random() < 0.4, batches=True,
                                ann=0.0 if rng.random() < 0.2 else 0.14)
        out.append(case_of("A", init, evs))
    return out


def samepath_items(rng, ed, g, ann=0.14, p_misreport=0.0):
    """2..3 watched items for ONE path, performed on the disk in this order (the harness writes / removes the file item by
    item and then sends ONE notification): what a non-coalescing watcher reports for a file replaced by remove + create
    (`D C`: there afterwards), for a short-lived file (`C D`: gone), create + write, write + remove, ... With probability
    p_misreport a re-creation after a Deleted item is reported as Changed (`D M`: seen with watchers that stat the path when
    they flush their queue)."""
    items = []
    for _ in range(rng.choice([2, 2, 2, 3])):
        if g in ed.disk:
            if rng.random() < 0.5:
                items.append("D" + g); del ed.disk[g]
            else:
                c = edit_content(rng, ed.disk[g], ann) if rng.random() < 0.6 else rand_content(rng, ann=ann)
                items.append("M%s=%s" % (g, c)); ed.disk[g] = c
        else:
            c = rand_content(rng, ann=ann)
            k = "M" if items and items[-1][0] == "D" and rng.random() < p_misreport else "C"
            items.append("%s%s=%s" % (k, g, c)); ed.disk[g] = c
    return items


def gen_samepath(rng, tier, only_changed=False):
    """ONE watched-files notification naming the SAME path more than once (seeded changes C08-6 / C18-6: the batch was
    filtered / de-duplicated per path). The server handles a batch event by event (the model too: Model/Events.v
    `handle_events`), so the state afterwards must be that of the LAST event per path. Spec/FreshStart.v `conf_action` lets a
    conformant notification name every file once: these histories are outside the domain of C08_full_proved; the leg
    compares implementation and model as usual and, as the demanded observable, every step's view with the view of a fresh
    start on the files as they are then (`samepath_proj`).
    only_changed: only histories with a `D M` pair (class `changed_unknown`, repaired), for the leg c08.samepathraw."""
    n = {"quick": 420, "thorough": 7000, "search": 300}[tier]
    if only_changed:
        n = n // 7
    out = ["A a=l,b=c wDa+Ca=s", "A a=l,b=ra wDa+Ca=u1", "A b=ra wCa=s+Da", "A a=d1,b=u1 wDa+Ca=d1", "A a=k1,b=t1 wDa+Ca=k1",
           "A a=f1,b=g wDa+Ca=f2", "A b=u1 wCa=d1+Da", "A a=l wMa=s+Da+Ca=u1", "A a=d1,b=u1ra wDa+Ca=c+Ma=d1s"]
    for k in range(n):
        files = list(INSIDE)
        rng.shuffle(files)
        ann = 0.0 if rng.random() < 0.3 else 0.14
        p_mis = 0.0
        if only_changed or rng.random() < 0.1:
            # `D M`: the Changed event names a file the server has just forgotten; no annotation statements then (see gen_history)
            ann, p_mis = 0.0, 0.7
        disk = {f: rand_content(rng, ann=ann) for f in files[:rng.choice([1, 2, 3])]}
        if rng.random() < 0.7:
            # another file depends on the replaced one: requires it, reads its global, calls its function, uses its class
            j = rng.choice("12")
            dep, use = rng.choice([("d" + j, "u" + j), ("f" + j, "g"), ("k" + j, "t" + j), ("c", "r" + files[0])])
            if rng.random() < 0.7:
                disk[files[0]] = rng.choice(["", "c", "l"]) + dep
            disk[files[1]] = rng.choice(["", "c", "r" + files[0]]) + use
        ed = Ed(disk)
        evs = []
        for _ in range(rng.choice([1, 1, 2, 3])):
            g = files[0] if rng.random() < 0.7 else rng.choice(INSIDE)
            items = samepath_items(rng, ed, g, ann, p_mis)
            # sometimes other files in the same notification, before / between / after
            for h in rng.sample([x for x in INSIDE if x != g], rng.choice([0, 0, 0, 1, 2])):
                if h in ed.disk and h not in ed.buf:
                    if rng.random() < 0.5:
                        it = "D" + h; del ed.disk[h]
                    else:
                        c = edit_content(rng, ed.disk[h], ann); it = "M%s=%s" % (h, c); ed.disk[h] = c
                else:
                    if h in ed.disk:
                        continue
                    c = rand_content(rng, ann=ann); it = "C%s=%s" % (h, c); ed.disk[h] = c
                items.insert(rng.randrange(len(items) + 1), it)
            evs.append("w" + "+".join(items))
            r = rng.random()
            if r < 0.25:
                # an ordinary single event afterwards (the wrong state of the seeded changes lasts until one names the path)
                t = rng.choice([x for x in INSIDE if x != g])
                if t in ed.disk:
                    evs.append("wD" + t); del ed.disk[t]
                else:
                    c = rand_content(rng, ann=ann); evs.append("wC%s=%s" % (t, c)); ed.disk[t] = c
            elif r < 0.4 and g in ed.disk:
                c = edit_content(rng, ed.disk[g], ann)
                evs += ["o" + g, "c%s=%s" % (g, c), "s" + g, "x" + g]; ed.disk[g] = c
        init = ",".join("%s=%s" % (a, c) for a, c in sorted(disk.items())) or "-"
        out.append(case_of("A", init, evs))
    if only_changed:
        out = ["A a=l,b=ra wDa+Ma=c", "A a=d1,b=u1 wDa+Ma=d1"] + [c for c in out if changed_unknown(c)]
    return out


def changed_unknown(case):
    """class predicate (exact, on the case text) of the REPAIRED finding changed_unknown: some watched notification says
    Changed of a path that is not a file of the project when the server comes to that event - here: deleted by an earlier
    event of the same notification and re-created on disk. Before fixes/C08-changed-unknown.diff HandleFileEventChanges
    gave such a file a first pass but did not enter it into allFilesMap / the file-name index (only Created did), so it took
    no part in the third pass and no require found it: the view differed from a fresh start's. The same happened for a
    single Changed event naming a file the server was never told about (a new file reported as changed; raw histories
    `k<f>=..;WM<f>`). Now such an event is handled like Created; the predicate only selects the cases of leg
    c08.samepathraw."""
    mode, init, evs = case.split(" ")[:3]
    disk = set(it[0] for it in init.split(",")) if init != "-" else set()
    for e in evs.split(";") if evs != "-" else []:
        if e[0] == "w":
            for it in e[1:].split("+"):
                if it[0] == "D":
                    disk.discard(it[1])
                elif it[0] == "M" and it[1] not in disk:
                    return True
                else:
                    disk.add(it[1])
        elif e[0] == "s":
            disk.add(e[1])
    return False


def samepath_proj(obs):
    """the demanded observable of leg c08.samepath, read off an implementation / model answer: "=" when every step that
    carries a fresh-start view (no unsaved edits) shows the same diagnostics per file (up to order) as the fresh start"""
    if "~" not in obs:
        return obs                       # CRASH / TIMEOUT / ERR words
    canon = lambda v: sorted((f.split(":")[0], sorted(f.split(":")[1].split(","))) for f in v.split(";")) if v != "-" else []
    for k, st in enumerate(obs.split("|")):
        if "~" in st:
            v, f = st.split("~", 1)
            if canon(v) != canon(f):
                return "step %d: view %s, fresh start %s" % (k, v, f)
    return "="



# ---- leg c08.query: the queries clause ("the answers to queries are the same as those of a freshly started server") ----
# A case is `Q:<0|1> <srv.script case: files, history steps, query steps> ## <srv.script case: the FINAL files, the same
# query steps>` (format of the halves: harness/srv_script.go). The Go leg runs both halves, each on a fresh real server, and
# answers `<answers after the history> ~ <answers of the fresh server>`; query_canon turns that into "=" when the halves
# agree. There is no Coq model of query answers: a case carries, as its first item, the class predicate of the OPEN
# finding stale_foreign_member (`stale_members` below; known_findings/C08.json); inside the class (Q:1) the answers may
# deviate and are not compared (observable "class" on both sides), outside it (Q:0) the leg demands the answers of the fresh
# server (model column "=", echoed by ocaml/c08_run.ml): every deviation outside the class is a VIOLATION. The histories are built
# around that finding: a global table defined in one file, members added to it by OTHER files, which are then rewritten,
# deleted, created, saved; the queries are definition / hover on the member uses and completion behind `M.` in a third
# file that is never touched. (A repair, fixes/C08-stale-foreign-member.diff, was tried and WITHDRAWN: see the finding.)
def hx(b):
    if isinstance(b, str):
        b = b.encode("utf8")
    return b.hex() if b else "-"


Q_TABLE = ["M = {}\n", "M = { h = 1 }\n", "M = {}\nM.own = 2\n"]
Q_MEMBER = ["function M.f() end\n", "function M.g() end\n", "M.x = 1\n", "M.f = function(a, b) end\nM.x = 'text'\n",
            "function M.f(p) return p end\nfunction M.g() end\n", "print(1)\n", "function M:f() end\n"]
Q_USER = "M.f()\nlocal v = M.x\nlocal w = M.g\nlocal z = M.f\n"
Q_QUERIES = ["S:open:0", "S:define:0:0:2", "S:hover:0:0:2", "S:define:0:1:12", "S:define:0:2:12", "S:hover:0:2:12",
             "S:complete:0:3:12", "S:pdocsyms:%s" % hx("a.lua"), "S:pdocsyms:%s" % hx("b.lua"), "S:diags"]
# texts typed into a buffer that is then CLOSED WITHOUT SAVING (op edit-close): the discarded buffer must leave no trace in
# the answers (seeded C08-7: didClose kept the live analysis of a syntactically broken buffer); broken and clean variants
Q_TYPED = ["function M.typed() end\nlocal = 1\n", "Typed = 1\nfunction M.t2(\n", "function M.typed() end\n", "M = { typed = 1 }\nx x\n"]


def query_case(init, steps, final):
    """init / final: dict name -> text (c.lua first: the queries name file 0), steps: S: items of the history"""
    order = lambda d: ["c.lua"] + sorted(k for k in d if k != "c.lua")
    fitems = lambda d: ["F:%s:%s" % (hx(k), hx(d[k])) for k in order(d)]
    return " ".join(fitems(init) + steps + Q_QUERIES) + " ## " + " ".join(fitems(final) + Q_QUERIES)


def stale_members(script):
    """The class predicate of the OPEN finding stale_foreign_member, on the history: True when
    a file that adds (or may add) members to ANOTHER file's global table - here b.lua / d.lua, the table M is a.lua's - was
    changed (and analysed), deleted or created by an event, and the table's file exists at the end. (A later analysis of the
    table's file heals the simple witnesses - corpus case 4 - but NOT always: `a=T2,b=print(1),d=function M:f() end`, Changed
    a.lua (same text), Deleted d.lua, Changed a.lua to `M = {}`: definition of f still answers the deleted d.lua; so the
    class does not except such histories.)
    Inside the class the answers may deviate from a fresh start's (generateAllGlobalMaps inserts such members IN PLACE into
    the first-phase VarInfo of the file defining M, a member only when the table has none of that name yet, and nothing
    removes them until that file is analysed again) - whether they do depends on which pass inserted which member first;
    outside the class the leg demands the answers of the fresh start. A file analysed by an event keeps its contents: a
    later Changed event with the same contents is skipped (no analysis). Returns (in class, init disk, final disk, steps)."""
    disk = {"c.lua": Q_USER}
    init = None
    steps = []
    dirty = False       # a member file was analysed / deleted / created by an event
    kept = set()        # files whose contents the server keeps (analysed by an event)

    def changed(f, t):
        nonlocal dirty
        same = f in kept and disk.get(f) == t
        disk[f] = t
        if same:
            return
        kept.add(f)
        if f != "a.lua":
            dirty = True

    for op, f, t in script:
        if op == "init":
            disk[f] = t
            continue
        if init is None:
            init = dict(disk)
        if op == "watch-change" and f in disk:
            steps += ["S:fswrite:%s:%s" % (hx(f), hx(t)), "S:watch:2:%s" % hx(f)]
            changed(f, t)
        elif op == "watch-create" and f not in disk:
            steps += ["S:fswrite:%s:%s" % (hx(f), hx(t)), "S:watch:1:%s" % hx(f)]
            kept.discard(f)
            changed(f, t)
        elif op == "watch-delete" and f in disk:
            del disk[f]
            kept.discard(f)
            steps += ["S:fsrm:%s" % hx(f), "S:watch:3:%s" % hx(f)]
            dirty = f != "a.lua"
        elif op == "edit-save" and f in disk:
            steps += ["S:popen:%s:%s" % (hx(f), hx(disk[f])), "S:pchange:%s:%s" % (hx(f), hx(t)),
                      "S:fswrite:%s:%s" % (hx(f), hx(t)), "S:psave:%s" % hx(f), "S:pclose:%s" % hx(f)]
            changed(f, t)
        elif op == "edit-close" and f in disk:
            # the editor opens the file, types (a valid edit first, then t), and closes it without saving: the disk is unchanged
            steps += ["S:popen:%s:%s" % (hx(f), hx(disk[f])), "S:pchange:%s:%s" % (hx(f), hx(disk[f] + "Typed0 = 0\n")),
                      "S:pchange:%s:%s" % (hx(f), hx(t)), "S:pclose:%s" % hx(f)]
        elif op == "touch" and f in disk:
            steps += ["S:watch:2:%s" % hx(f)]
            changed(f, disk[f])
    if init is None:
        init = dict(disk)
    return dirty and "a.lua" in disk, init, disk, steps


def gen_query(rng, tier):
    n = {"quick": 160, "thorough": 2500, "search": 120}[tier]
    out = []

    def one(script):
        """script: list of (op, file, text) performed as an editor / watcher would: the disk first, then the notification.
        The case starts with the item Q:1 / Q:0 = the class predicate stale_members (srv.script ignores the item; the Go leg
        and the model side of the leg, ocaml/c08_run.ml, echo it)"""
        dev, init, final, steps = stale_members(script)
        return "Q:%d " % (1 if dev else 0) + query_case(init, steps, final)

    # the witnesses of the finding and its variants (kept first)
    out.append(one([("init", "a.lua", Q_TABLE[0]), ("init", "b.lua", Q_MEMBER[0]), ("watch-change", "b.lua", Q_MEMBER[1])]))
    out.append(one([("init", "a.lua", Q_TABLE[0]), ("init", "b.lua", Q_MEMBER[0]), ("edit-save", "b.lua", Q_MEMBER[1])]))
    out.append(one([("init", "a.lua", Q_TABLE[0]), ("init", "b.lua", Q_MEMBER[0]), ("watch-delete", "b.lua", "")]))
    out.append(one([("init", "a.lua", Q_TABLE[0]), ("init", "b.lua", Q_MEMBER[0]), ("watch-change", "b.lua", Q_MEMBER[1]),
                    ("touch", "a.lua", "")]))
    out.append(one([("init", "a.lua", Q_TABLE[1]), ("init", "b.lua", Q_MEMBER[3]), ("init", "d.lua", Q_MEMBER[0]),
                    ("watch-delete", "b.lua", "")]))
    out.append(one([("init", "a.lua", Q_TABLE[0]), ("init", "d.lua", Q_MEMBER[0]), ("watch-create", "b.lua", Q_MEMBER[4])]))
    out.append(one([("init", "a.lua", Q_TABLE[0]), ("init", "b.lua", Q_MEMBER[0]), ("edit-close", "b.lua", Q_TYPED[0])]))
    out.append(one([("init", "a.lua", Q_TABLE[0]), ("init", "b.lua", Q_MEMBER[0]), ("edit-close", "a.lua", Q_TYPED[3])]))
    for k in range(n):
        script = [("init", "a.lua", rng.choice(Q_TABLE))] if rng.random() < 0.9 else []
        for f in ["b.lua", "d.lua"]:
            if rng.random() < (0.85 if f == "b.lua" else 0.4):
                script.append(("init", f, rng.choice(Q_MEMBER)))
        only_table = rng.random() < 0.35          # histories outside the class: events for the table's file only
        for _ in range(rng.choice([1, 1, 2, 3, 4])):
            f = "a.lua" if only_table else rng.choice(["b.lua", "b.lua", "d.lua", "a.lua"])
            texts = Q_TABLE if f == "a.lua" else Q_MEMBER
            op = rng.choice(["watch-change", "watch-change", "edit-save", "watch-delete", "watch-create", "watch-create", "touch",
                             "edit-close"])
            script.append((op, f, rng.choice(Q_TYPED) if op == "edit-close" else rng.choice(texts)))
        if rng.random() < 0.3:
            # the file defining the table is analysed again, last (heals the simple cases; still inside the class)
            script.append((rng.choice(["watch-change", "edit-save", "touch", "watch-create"]), "a.lua", rng.choice(Q_TABLE)))
        out.append(one(script))
    return out


def query_canon(obs):
    """the observable of leg c08.query: for a case outside the class (Q:0) "=" when the answers after the history are those
    of the fresh server, else "stale"; for a case inside the class (Q:1) the word "class": there the answers may deviate
    (open finding) and are not compared"""
    if " ~ " not in obs or not obs.startswith("Q:"):
        return obs[:200]
    q, rest = obs.split(" ", 1)
    if q == "Q:1":
        return "class"
    a, b = rest.split(" ~ ", 1)
    return "=" if a == b else "stale: " + query_proj(rest)


def query_proj(obs):
    """ "=" when the answers after the history are those of the fresh server"""
    if " ~ " not in obs:
        return obs[:200]
    a, b = obs.split(" ~ ", 1)
    if a == b:
        return "="
    qa, qb = a.split(" | "), b.split(" | ")
    for x, y in zip(qa, qb):
        if x != y:
            return "after the history %s, fresh server %s" % (x[:160], y[:160])
    return "answers differ in number"


def gen_raw(rng, tier):
    """non-conformant stream: raw notifications and silent disk changes mixed in (only impl == model is checked)"""
    n = {"quick": 700, "thorough": 12000, "search": 400}[tier]
    out = []
    for k in range(n):
        init, evs = gen_history(rng, rng.choice([3, 6, 10, 15]), p_outside=0.12, p_raw=rng.choice([0.15, 0.3, 0.6]), ann=0.0)
        out.append(case_of("E", init, evs))
    return out


def gen_indir(rng, tier):
    """the configurations DirManager.IsInDir depends on. Mode letters: n = the client sends no PluginPath option (histories
    with documents outside the workspace: they must leave the project when closed), f = the directory of p q is a second
    workspace folder (p q are project files like a b c d: closing one must not remove it from the project)"""
    n = {"quick": 500, "thorough": 8000, "search": 300}[tier]
    out = ["An a=u1,p=d1s op;xp", "Af a=u1,p=d1s op;xp", "Afn a=u1,p=d1s op;xp", "Af a=rp,p=c op;xp", "An a=t1,p=k1 op;xp",
           "An a=rp,p=su1 op;cp=u1;sp;oa;xp;xa", "Af a=g,p=f2,q=cf1 op;oq;xq;wDq;xp", "Af a=t1,p=k1,q=k1 oq;xq;op;cp=c;sp;xp"]
    for k in range(n):
        r = rng.random()
        if r < 0.5:
            cfg = "n"
            init, evs = gen_history(rng, rng.choice([3, 5, 8, 12]), p_outside=rng.choice([0.3, 0.5]), calm=rng.random() < 0.3)
        else:
            cfg = "f" if r < 0.85 else "fn"
            init, evs = gen_history(rng, rng.choice([3, 5, 8, 12]), p_outside=0.0, calm=rng.random() < 0.3,
                                    batches=rng.random() < 0.3, INSIDE=rng.choice(["abpq", "abcdpq", "apq"]), OUTSIDE="")
        out.append(case_of("A" + cfg, init, evs))
    return out


def gen_annraw(rng, tier):
    """EXPLORATORY (not deciding): raw notifications and silent disk changes with annotation statements. Outside the
    region where the model's `cross` carries the annotation type table faithfully (see gen_history)."""
    n = {"quick": 150, "thorough": 1500, "search": 100}[tier]
    out = ["E a=t1 kb=k1;WMb", "A b=t1l ob;wDb;sb"]
    for k in range(n):
        init, evs = gen_history(rng, rng.choice([3, 6, 10]), p_outside=0.12, p_raw=rng.choice([0.15, 0.3]), ann=0.3)
        out.append(case_of("E", init, evs))
    return out


def shrink(case):
    mode, init, evs = case.split(" ")[:3]
    el = evs.split(";") if evs != "-" else []
    il = init.split(",") if init != "-" else []
    for i in range(len(el) - 1, -1, -1):
        yield case_of(mode, init, el[:i] + el[i + 1:])
    for i in range(len(il)):
        yield case_of(mode, ",".join(il[:i] + il[i + 1:]) or "-", el)
    for i, it in enumerate(il):
        f, c = it.split("=")
        s = stmts(c)
        for j in range(len(s)):
            yield case_of(mode, ",".join(il[:i] + ["%s=%s" % (f, unstmts(s[:j] + s[j + 1:]))] + il[i + 1:]), el)
    for i, e in enumerate(el):
        if e[0] in "wW" and "+" in e:
            its = e[1:].split("+")
            for j in range(len(its)):
                yield case_of(mode, init, el[:i] + [e[0] + "+".join(its[:j] + its[j + 1:])] + el[i + 1:])
    for i, e in enumerate(el):
        if "=" in e and "+" not in e:
            head, c = e.split("=")
            s = stmts(c)
            for j in range(len(s)):
                yield case_of(mode, init, el[:i] + ["%s=%s" % (head, unstmts(s[:j] + s[j + 1:]))] + el[i + 1:])


def nontrivial(case):
    evs = case.split(" ")[2]
    return evs.count(";") >= 2 and any(e[0] in "swWS" for e in evs.split(";"))


LEGS = [
    Leg("c08.history", gen_conformant, shrink=shrink, nontrivial=nontrivial, per_case_s=5.0),
    Leg("c08.raw", gen_raw, shrink=shrink, nontrivial=nontrivial, per_case_s=5.0),
    Leg("c08.batch", gen_batch, shrink=shrink, nontrivial=nontrivial, per_case_s=5.0),
    Leg("c08.tagonly", gen_tagonly, shrink=shrink, nontrivial=lambda c: True, per_case_s=5.0),
    Leg("c08.anntype", gen_anntype, shrink=shrink, nontrivial=lambda c: True, per_case_s=5.0),
    Leg("c08.indir", gen_indir, shrink=shrink, nontrivial=nontrivial, per_case_s=5.0),
    Leg("c08.opentext", gen_opentext, shrink=shrink, per_case_s=5.0,
        nontrivial=lambda c: any(e[0] == "o" and "=" in e for e in c.split(" ")[2].split(";"))),
    Leg("c08.annraw", gen_annraw, nontrivial=nontrivial, per_case_s=5.0, deciding=False),
    # one notification naming the same path several times: outside the conformant histories of the theorem (a conformant
    # notification names every file once), so the demanded observable is computed here: every view = the fresh start's
    # (c08.samepathraw: only the notifications with a Changed event for a path the server has just been told is deleted -
    # the repaired class `changed_unknown`; exploratory until the repair, deciding now)
    Leg("c08.samepath", gen_samepath, shrink=shrink, per_case_s=5.0, spec_proj=samepath_proj,
        py_spec=lambda c: "=", nontrivial=lambda c: True),
    Leg("c08.samepathraw", lambda rng, tier: gen_samepath(rng, tier, only_changed=True), shrink=shrink, per_case_s=5.0,
        py_spec=lambda c: "=", spec_proj=samepath_proj, nontrivial=lambda c: True),
    # the queries clause: answers after a history = answers of a fresh server on the final files (implementation against its
    # own fresh start; the model column is the constant "=": see gen_query)
    Leg("c08.query", gen_query, per_case_s=8.0, canon_impl=query_canon, py_spec=lambda c: "=", nontrivial=lambda c: True),
]

TRUSTED = vlib.TRUSTED_COMMON + [
    "oracles (fields of the record `analysis`; theorems hold for every instance): per-file analyses syn / first / cross; "
    "the correspondence instantiates them with the toy analysis of Proofs/EventsToy.v over ten statement forms and checks 1,2,3,4,6,10,18 "
    "(18 = annotation types: `---@class T<j>` declares, `---@type T<j>` uses; the project-wide type table createTypeMap is part of "
    "the cross-file analysis `cross`: faithful while every analysed file is a project member - all conformant histories; histories with "
    "raw events / a save of a deleted file are generated without annotation statements, the exploratory leg c08.annraw records that region; "
    "the mutual order of the duplicate-type warnings of one file follows a Go map: the harness sorts that run by line); "
    "a diagnostic is compared as type, start line and a hash of (start column, end line, end column, message text): the model's tag "
    "rendered by ocaml/c08_run.ml against what the real server published",
    "leg c08.samepath (one watched notification naming a path several times): outside the conformant histories of C08_full_proved "
    "(Spec/FreshStart.v conf_action: every file once); implementation = model is decided as everywhere, and view = fresh-start view is "
    "evaluated by checks/c08.py on the implementation's own answer (no theorem); leg c08.samepathraw: the same for notifications with a "
    "Changed event for a path the server has just been told is deleted (repaired class changed_unknown: handled like Created)",
    "leg c08.query (queries clause): definition / hover / completion answers after a history of watched events and saves over files "
    "that add members to ANOTHER file's global table, compared with the answers of a fresh server on the final files - a differential "
    "test of the real server against its own fresh start (no Coq model of query answers); histories inside the class of the OPEN "
    "finding stale_foreign_member (predicate stale_members of checks/c08.py, carried in the case) are not compared, outside it the "
    "answers must be the fresh server's",
    "modelled, tied by correspondence: diagnostics_manager.go, the five handlers of textdocument_file_request.go (didOpen "
    "compares the carried text with the file - the model's disk - and analyses it when they differ: legs c08.opentext, c08.raw), "
    "HandleFileEventChanges, the unchanged-content shortcut, RemoveFile / FileIndexInfo.RemoveOneFile, ReanalyseReferInfo trigger, "
    "GetAllFileErrorInfo; DirManager.IsInDir = the field in_dir of the instance (single root with or without the PluginPath option: "
    "files a-d inside, p q outside; two workspace folders: all six inside - leg c08.indir); flat module names only (sub-directory matching is C18's subject); LRU capacity not modelled",
]


def main(tier, seed):
    return vlib.standard_main("C08", LEGS, tier, seed, trusted=TRUSTED,
                              assumptions=["analysis results are deterministic functions of the texts (C09's subject)",
                                           "workspace/didChangeWorkspaceFolders and didChangeConfiguration are not modelled"])
