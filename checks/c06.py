# C06 - find-references returns exactly the occurrences of the same variable (DESIGN 5, binder family).
# Machinery shared with C05 (checks/c05.py); model and spec are the C05 extraction (one OCaml driver, leg c06.refs).
import c05
from vlib import Leg


def gen_refs(rng, tier):
    out = []
    for _ in range(c05.n_programs(tier, quick=300)):
        k = rng.random()
        ws = c05.gen_twin_workspace(rng) if k < 0.08 else (c05.gen_returned_local_workspace(rng) if k < 0.12 else c05.gen_workspace(rng))
        steps = c05.cursor_steps(["refs"], ws, rng)
        if rng.random() < 0.2:
            steps += c05.cursor_steps(["highlight"], ws, rng, both_ends=False)
        out.append(c05.make_case([(fn, text) for fn, text, _ in ws], steps))
    # two workspaces with more files than the references worker pool has workers (queries only in two of the files)
    for _ in range(2 if tier != "thorough" else 20):
        ws = c05.gen_many_files_workspace(rng)
        steps = c05.cursor_steps(["refs"], ws[:1] + ws[-1:], rng)
        steps = [s if s.split(":")[1] == "0" else ":".join([s.split(":")[0], str(len(ws) - 1)] + s.split(":")[2:]) for s in steps]
        out.append(c05.make_case([(fn, text) for fn, text, _ in ws], steps))
    return out


def gen_refs_wide(rng, tier):
    out = []
    for _ in range(c05.n_programs(tier, quick=120)):
        ws = c05.pick_wide_workspace(rng)
        steps = c05.cursor_steps(["refs"], ws, rng)
        if rng.random() < 0.2:
            steps += c05.cursor_steps(["highlight"], ws, rng, both_ends=False)
        out.append(c05.make_case([(fn, text) for fn, text, _ in ws], steps))
    for ws in c05.chain_workspaces(rng, tier, 12):       # call-chain statements with callbacks (seeded C05-5)
        out.append(c05.make_case([(fn, text) for fn, text, _ in ws], c05.cursor_steps(["refs"], ws, rng)))
    return out


LEGS = [
    Leg("c06.refs", gen_refs, nontrivial=c05.nontrivial, describe=c05.describe, per_case_s=1.5, skip_model=c05.skip_model),
    c05.wide_leg("c06.wide", "c06.refs", gen_refs_wide),
]


def main(tier, seed):
    return c05.run_family("C06", LEGS, tier, seed)
