# C07 - undefined-variable and unused-local warnings agree with the actual bindings (DESIGN 5, binder family)
import json, random, re
import vlib
from vlib import Leg, hexs

N = {"quick": 4000, "thorough": 100000, "search": 3000}

LOCALS = ["a", "b", "c", "x", "y", "f", "g", "h", "i", "k", "v", "n1", "t", "acc", "_"]
GLOBALS = ["G1", "G2", "cfg", "init", "util", "State", "m1", "helper"]
BUILTINS = ["print", "pairs", "ipairs", "type", "tostring", "math", "string", "table", "next", "select", "assert", "error",
            "unpack", "arg", "jit", "_VERSION", "file", "coroutine", "os"]
UNDEF = ["undef1", "zz", "Missing", "q"]
BINOPS = ["+", "-", "*", "..", "==", "~=", "<", "<=", "and", "or", "and", "or", "=="]
UNOPS = ["not", "-", "#"]


class Prog:
    """one Lua file of the core fragment as a list of lines (each line = list of token strings)"""

    def __init__(self, rng, here, other, size):
        self.r = rng
        self.here = here          # globals this file tends to define
        self.other = other        # globals other files define
        self.lines = []
        self.budget = size
        # secondary stream (seeded from the state of the primary one WITHOUT drawing from it): shapes added to the
        # generator later take their decisions from it, so that the programs of the primary stream stay what they were
        st = rng.getstate()[1]
        self.r2 = random.Random(hash((st[0], st[1], st[2], st[-1])) & 0xFFFFFFFF)

    # ---------------------------------------------------------------- names
    def read_name(self, scope):
        r = self.r
        k = r.random()
        if scope and k < 0.55:
            return r.choice(scope)
        if k < 0.70:
            return r.choice(self.here)
        if k < 0.80 and self.other:
            return r.choice(self.other)
        if k < 0.90:
            return r.choice(BUILTINS)
        if k < 0.96:
            return r.choice(LOCALS[:-1])        # probably not declared: global of that name
        return r.choice(UNDEF)

    def new_local(self):
        return self.r.choice(LOCALS)

    # ---------------------------------------------------------------- expressions
    def exp(self, scope, d, vararg):
        r = self.r
        k = r.random()
        if d <= 0 or k < 0.40:
            j = r.random()
            if j < 0.6:
                return [self.read_name(scope)]
            if j < 0.75:
                return [str(r.choice([0, 1, 2, 7, 10, 42]))]
            if j < 0.85:
                return [r.choice(['"s"', "'k'", '""', '"a b"', "0.5", "[[ls]]" if r.random() < 0.1 else '"q"'])]
            if j < 0.95:
                return [r.choice(["nil", "true", "false"])]
            return ["..."] if vararg else ["nil"]
        if k < 0.58:
            return self.exp(scope, d - 1, vararg) + [r.choice(BINOPS)] + self.exp(scope, d - 1, vararg)
        if k < 0.66:
            return [r.choice(UNOPS)] + self.exp(scope, d - 1, vararg)
        if k < 0.84:
            return self.call(scope, d - 1, vararg)
        if k < 0.92:
            return ["("] + self.exp(scope, d - 1, vararg) + [")"]
        return self.funcexp(scope, d - 1)

    def args(self, scope, d, vararg):
        out = []
        for j in range(self.r.choice([0, 1, 1, 2, 3])):
            if j:
                out.append(",")
            out += self.exp(scope, d, vararg)
        return out

    def call(self, scope, d, vararg):
        r = self.r
        k = r.random()
        if k < 0.85:
            callee = [self.read_name(scope)]
        elif k < 0.93:
            callee = ["("] + self.exp(scope, d, vararg) + [")"]
        else:
            callee = self.call(scope, d - 1, vararg) if d > 0 else [self.read_name(scope)]
        return callee + ["("] + self.args(scope, d, vararg) + [")"]

    def params(self):
        r = self.r
        ps = [self.new_local() for _ in range(r.choice([0, 1, 1, 2, 3]))]
        va = r.random() < 0.2
        toks = []
        for j, p in enumerate(ps):
            if j:
                toks.append(",")
            toks.append(p)
        if va:
            if ps:
                toks.append(",")
            toks.append("...")
        return ps, va, toks

    def funcexp(self, scope, d):
        """function expression rendered on one line (statements separated by spaces)"""
        ps, va, toks = self.params()
        sub = Prog(self.r, self.here, self.other, self.r.choice([1, 2, 3]))
        sub.block(scope + ps, min(d, 1), va, False, True)
        body = []
        for ln in sub.lines:
            body += ln
        return ["function", "("] + toks + [")"] + body + ["end"]

    # ---------------------------------------------------------------- statements
    def emit(self, toks):
        self.lines.append(toks)

    def block(self, scope, d, vararg, inloop, infunc):
        r = self.r
        scope = list(scope)
        n = r.choice([1, 2, 2, 3, 4]) if d < 3 else r.choice([3, 5, 8])
        for _ in range(n):
            if self.budget <= 0:
                break
            self.budget -= 1
            self.stat(scope, d, vararg, inloop, infunc)
        k = r.random()
        if infunc and k < 0.35:
            self.emit(["return"] + self.args(scope, 1, vararg)[:] )
        elif inloop and k < 0.1:
            self.emit(["break"])
        return scope

    def stat(self, scope, d, vararg, inloop, infunc):
        r = self.r
        k = r.random()
        sub = d - 1
        if k < 0.22:                                     # local
            nn = r.choice([1, 1, 1, 2, 2, 3])
            names = [self.new_local() for _ in range(nn)]
            ne = r.choice([0, 1, 1, 1, nn, nn])
            ne = min(ne, nn)
            toks = ["local"]
            for j, nm in enumerate(names):
                if j:
                    toks.append(",")
                toks.append(nm)
                if r.random() < 0.04:
                    toks += ["<", r.choice(["close", "const"]), ">"]
            if ne:
                toks.append("=")
                for j in range(ne):
                    if j:
                        toks.append(",")
                    m = r.random()
                    if j > 0 and m < 0.12:               # class multi_local_order
                        toks.append(names[r.randrange(j)])
                    elif m < 0.22:
                        toks += self.funcexp(scope, 1)
                    elif m < 0.30:
                        toks.append(r.choice(BUILTINS))  # alias of a library name
                    elif m < 0.36:
                        toks += [names[j], "or", r.choice(["nil", "1"])]
                    else:
                        toks += self.exp(scope, 2, vararg)
                if ne == nn and self.r2.random() < 0.12:
                    # surplus initialisers (all analysed since fixes/C20-local-surplus.diff; before it only the first
                    # one): a local read only there is used, an undefined global there is reported.  Secondary stream
                    saved, self.r = self.r, self.r2
                    try:
                        for _ in range(self.r.choice([1, 2, 2, 3])):
                            toks.append(",")
                            m = self.r.random()
                            if scope and m < 0.4:
                                toks.append(self.r.choice(scope))
                            elif m < 0.55:
                                toks.append(self.r.choice(UNDEF))
                            else:
                                toks += self.exp(scope, 1, vararg)
                    finally:
                        self.r = saved
            self.emit(toks)
            scope.extend(names)
        elif k < 0.30:                                   # local function
            nm = self.new_local()
            ps, va, ptoks = self.params()
            self.emit(["local", "function", nm, "("] + ptoks + [")"])
            scope.append(nm)
            if sub >= 0:
                self.block(scope + ps, sub, va, False, True)
            self.emit(["end"])
        elif k < 0.37:                                   # function Name
            nm = r.choice(self.here + self.here + (scope[-2:] if scope else []))
            ps, va, ptoks = self.params()
            self.emit(["function", nm, "("] + ptoks + [")"])
            if sub >= 0:
                self.block(scope + ps, sub, va, False, True)
            self.emit(["end"])
        elif k < 0.55:                                   # assignment, incl. the suppression idioms
            m = r.random()
            if m < 0.45 and scope:
                nm = r.choice(scope)
            elif m < 0.85:
                nm = r.choice(self.here)
            else:
                nm = r.choice(LOCALS[:-1] + UNDEF)
            j = r.random()
            if j < 0.15:
                rhs = [nm, "or"] + self.exp(scope, 1, vararg)
            elif j < 0.20:
                rhs = [nm]
            elif j < 0.25:
                rhs = ["(", nm, "==", "nil", ")", "and", "1"]
            elif j < 0.32:
                rhs = self.funcexp(scope, 1)
            elif j < 0.38:
                rhs = [r.choice(BUILTINS)]
            elif j < 0.44:
                rhs = ["nil"]
            else:
                rhs = self.exp(scope, 2, vararg)
            self.emit([nm, "="] + rhs)
        elif k < 0.68:                                   # call statement
            self.emit(self.call(scope, 2, vararg))
        elif k < 0.73 and sub >= 0:
            self.emit(["do"])
            self.block(scope, sub, vararg, inloop, infunc)
            self.emit(["end"])
        elif k < 0.78 and sub >= 0:
            self.emit(["while"] + self.cond(scope, vararg) + ["do"])
            self.block(scope, sub, vararg, True, infunc)
            self.emit(["end"])
        elif k < 0.83 and sub >= 0:
            self.emit(["repeat"])
            inner = self.block(scope, sub, vararg, True, infunc)
            self.emit(["until"] + self.cond(inner, vararg))
        elif k < 0.92 and sub >= 0:
            self.emit(["if"] + self.cond(scope, vararg) + ["then"])
            self.block(scope, sub, vararg, inloop, infunc)
            for _ in range(r.choice([0, 0, 1, 2])):
                self.emit(["elseif"] + self.cond(scope, vararg) + ["then"])
                self.block(scope, sub, vararg, inloop, infunc)
            if r.random() < 0.4:
                self.emit(["else"])
                self.block(scope, sub, vararg, inloop, infunc)
            self.emit(["end"])
        elif k < 0.96 and sub >= 0:
            v = self.new_local()
            toks = ["for", v, "="] + self.exp(scope, 1, vararg) + [","] + self.exp(scope, 1, vararg)
            if r.random() < 0.4:
                toks += [","] + self.exp(scope, 1, vararg)
            self.emit(toks + ["do"])
            self.block(scope + [v], sub, vararg, True, infunc)
            self.emit(["end"])
        elif sub >= 0:
            vs = [self.new_local() for _ in range(r.choice([1, 2, 2, 3]))]
            toks = ["for"]
            for j, v in enumerate(vs):
                if j:
                    toks.append(",")
                toks.append(v)
            toks += ["in", r.choice(["pairs", "ipairs", "next"]), "("] + self.exp(scope, 1, vararg) + [")"]
            self.emit(toks + ["do"])
            self.block(scope + vs, sub, vararg, True, infunc)
            self.emit(["end"])
        else:
            self.emit(self.call(scope, 1, vararg))

    def cond(self, scope, vararg):
        r = self.r
        j = r.random()
        nm = self.read_name(scope)
        if j < 0.25:
            return ["not", nm]
        if j < 0.40:
            return [nm, "==", "nil"]
        if j < 0.48:
            return ["nil", "==", nm]
        if j < 0.56:
            return [nm, "and", "not", self.read_name(scope)]
        return self.exp(scope, 2, vararg)


SEPS = [" ", " ", " ", " ", "  ", "\t", "\n", "\n  ", " --c\n", " -- x = y\n", "\r\n"]
SEPS_RARE = [" --[[ c ]] ", " --[==[ d ]==] "]


def render(lines, rng, style):
    out = []
    for ln in lines:
        if style == "plain":
            out.append(" ".join(ln))
        else:
            s = ""
            for j, t in enumerate(ln):
                if j:
                    if rng.random() < 0.004:
                        s += rng.choice(SEPS_RARE)       # long comment: lexer column defect => class pos_filter
                    else:
                        s += rng.choice(SEPS)
                s += t
            out.append(s)
    sep = "\n" if style == "plain" or rng.random() < 0.7 else rng.choice(["\n", " ", "\n\n", " ; ", "\r\n"])
    text = sep.join(out)
    if rng.random() < 0.7:
        text += "\n"
    return text


def case_of(files, conf=None):
    """conf = None (client-flag mode) or {"f": [(File text, [names])], "m": [names], "l": [names]}: the luahelper.json route;
    the file luahelper.json goes to the server, the same settings as G: items to the model side (ocaml/c07_run.ml)"""
    items = ["F:%s:%s" % (hexs(p.encode()), hexs(t.encode())) for p, t in files]
    if conf is not None:
        js = {"IgnoreFileVars": [{"File": f, "Vars": list(ns)} for f, ns in conf.get("f", [])]}
        if conf.get("m"):
            js["IgnoreModules"] = list(conf["m"])
        if conf.get("l"):
            js["IgnoreLocalNoUseVars"] = list(conf["l"])
        items.append("F:%s:%s" % (hexs(b"luahelper.json"), hexs(json.dumps(js).encode())))
        hn = lambda ns: ",".join(hexs(n.encode()) for n in ns) or "-"
        for f, ns in conf.get("f", []):
            items.append("G:f:%s:%s" % (hexs(f.encode()), hn(ns)))
        if conf.get("m"):
            items.append("G:m:%s" % hn(conf["m"]))
        if conf.get("l"):
            items.append("G:l:%s" % hn(conf["l"]))
    return " ".join(items) + " S:diags"


def conf_of(case):
    """inverse of case_of for the configuration: None when the case has no luahelper.json"""
    if ("F:%s:" % hexs(b"luahelper.json")) not in case:
        return None
    unh = lambda s: [bytes.fromhex(h).decode() for h in s.split(",")] if s not in ("-", "") else []
    conf = {"f": [], "m": [], "l": []}
    for it in case.split(" "):
        p = it.split(":")
        if p[0] == "G" and p[1] == "f":
            conf["f"].append((bytes.fromhex(p[2]).decode(), unh(p[3])))
        elif p[0] == "G" and p[1] in ("m", "l"):
            conf[p[1]] += unh(p[2])
    return conf


FILES = ["a.lua", "b.lua", "sub/c.lua"]


def gen_diags(rng, tier):
    out = []
    for k in range(N[tier]):
        nf = rng.choice([1, 1, 2, 2, 3])
        pools = []
        gl = list(GLOBALS)
        rng.shuffle(gl)
        for j in range(nf):
            pools.append(gl[j * 2:j * 2 + 3])
        files = []
        for j in range(nf):
            other = [g for i, p in enumerate(pools) if i != j for g in p]
            pr = Prog(rng, pools[j], other, rng.choice([3, 6, 10, 16]))
            pr.block([], rng.choice([1, 2, 3, 3]), True, False, False)
            style = "plain" if rng.random() < 0.5 else "wild"
            files.append((FILES[j], render(pr.lines, rng, style)))
        out.append(case_of(files))
    out += gen_conf_cases(rng, {"quick": 700, "thorough": 12000, "search": 500}[tier])
    return out


# the luahelper.json route: per-file ignore lists (IgnoreFileVars: the names are configured-ignored in every file whose path
# CONTAINS the File text), entries that overlap on one file, IgnoreModules, IgnoreLocalNoUseVars.  None of the File texts
# occurs in the path of the temporary workspace root (/tmp/lhsrv<digits>)
CFILES = ["a.lua", "b.lua", "sub/c.lua", "sub/data.lua", "scripts/boot.lua"]
CPATS = ["a.lua", ".lua", "sub/", "c.lua", "b.lu", "/sub", "lua", "/a.lua", "data.lua", "scripts/", "boot.lua", "ta.lu", "b.lua",
         "sub/c.lua", "s/boot", "a.l", "scripts/boot.lua", "/"]
CNAMES = UNDEF * 3 + GLOBALS + ["a", "x", "k", "print", "jit", "engine_api", "boot_hook"]


def gen_conf_cases(rng, n):
    out = []
    # the shape of the report: a directory entry and a file entry match one file, each lists one name the file reads
    out.append(case_of([("scripts/boot.lua", "print(engine_api)\nprint(boot_hook)\nprint(real_undefined)\n"),
                        ("scripts/other.lua", "print(engine_api)\nprint(boot_hook)\n")],
                       {"f": [("scripts/", ["engine_api"]), ("boot.lua", ["boot_hook"])]}))
    out.append(case_of([("sub/data.lua", "zz()\nlocal k = undef1\nprint(k, Missing)\n"), ("a.lua", "zz(undef1)\n")],
                       {"f": [("a.lua", ["zz"]), ("data.lua", ["undef1"]), ("sub/", ["Missing"])]}))
    for _ in range(n):
        nf = rng.choice([1, 2, 2, 3])
        paths = rng.sample(CFILES, nf)
        gl = list(GLOBALS)
        rng.shuffle(gl)
        pools = [gl[j * 2:j * 2 + 3] for j in range(nf)]
        pats = rng.sample(CPATS, rng.choice([1, 2, 2, 3, 4]))
        if rng.random() < 0.6:
            # make sure two entries match one of the files
            p0 = rng.choice(paths)
            m = [q for q in CPATS if q in "/" + p0]
            pats = list(dict.fromkeys(rng.sample(m, min(len(m), rng.choice([2, 2, 3]))) + pats))[:4]
        conf = {"f": [(q, list(dict.fromkeys(rng.choice(CNAMES) for _ in range(rng.choice([1, 1, 2, 3]))))) for q in pats],
                "m": [], "l": []}
        if rng.random() < 0.3:
            conf["m"] = list(dict.fromkeys(rng.choice(CNAMES) for _ in range(rng.choice([1, 2]))))
        if rng.random() < 0.3:
            conf["l"] = list(dict.fromkeys(rng.choice(LOCALS) for _ in range(rng.choice([1, 2, 3]))))
        listed = [x for _, ns in conf["f"] for x in ns] + conf["m"]
        files = []
        for j in range(nf):
            other = [g for i, p in enumerate(pools) if i != j for g in p]
            pr = Prog(rng, pools[j], other, rng.choice([2, 4, 8]))
            pr.block([], rng.choice([1, 2, 3]), True, False, False)
            # reads (and a few writes) of the listed names at the top level of every file
            for _ in range(rng.choice([1, 2, 3, 4])):
                nm = rng.choice(listed)
                k = rng.random()
                if k < 0.4:
                    pr.emit(["print", "(", nm, ")"])
                elif k < 0.6:
                    pr.emit([nm, "(", ")"])
                elif k < 0.75:
                    pr.emit(["local", rng.choice(LOCALS), "=", nm])
                elif k < 0.85:
                    pr.emit(["if", nm, "then", "print", "(", rng.choice(listed), ")", "end"])
                elif k < 0.93:
                    pr.emit(["function", rng.choice(pools[j]), "(", ")", "return", nm, "end"])
                else:
                    pr.emit([nm, "=", rng.choice(["1", nm, rng.choice(listed)])])
            files.append((paths[j], render(pr.lines, rng, "plain" if rng.random() < 0.7 else "wild")))
        out.append(case_of(files, conf))
    return out


KEEP = {"2", "3", "4", "17"}
ENTRY = re.compile(r"([^;{\[]+)\{([^}]*)\}")


def canon(line):
    """keep only the diagnostics of types 2, 3, 4, 17, as a SET per file: the analysis can publish one diagnostic twice
    (`local f, v = f or nil, ...`: the read of f is visited by two paths); the property speaks of what is reported, so the
    observable compared with the model is the set of (type, range)"""
    if not line.startswith("diags=["):
        return line
    files = []
    for m in ENTRY.finditer(line[len("diags=["):]):
        ds = list(dict.fromkeys(d for d in m.group(2).split(",") if d.split("@")[0] in KEEP))
        if ds:
            files.append(m.group(1) + "{" + ",".join(ds) + "}")
    return "diags=[" + ";".join(files) + "]"


def parse_case(case):
    files = []
    for it in case.split(" "):
        if it.startswith("F:"):
            p, c = it[2:].split(":")
            files.append((bytes.fromhex(p).decode(), b"" if c == "-" else bytes.fromhex(c)))
    return files


def shrink(case):
    conf = conf_of(case)
    files = [(p, c.decode("latin1")) for p, c in parse_case(case) if p != "luahelper.json"]
    if len(files) > 1:
        for i in range(len(files)):
            yield case_of([(p, c) for j, (p, c) in enumerate(files) if j != i], conf)
    for i, (p, c) in enumerate(files):
        lines = c.split("\n")
        for j in range(len(lines)):
            nc = "\n".join(lines[:j] + lines[j + 1:])
            yield case_of([(q, nc if k == i else d) for k, (q, d) in enumerate(files)], conf)
    if conf is not None:
        for key in ("m", "l"):
            if conf[key]:
                yield case_of(files, dict(conf, **{key: []}))
        for i, (f, ns) in enumerate(conf["f"]):
            yield case_of(files, dict(conf, f=conf["f"][:i] + conf["f"][i + 1:]))
            for j in range(len(ns)):
                if len(ns) > 1:
                    yield case_of(files, dict(conf, f=conf["f"][:i] + [(f, ns[:j] + ns[j + 1:])] + conf["f"][i + 1:]))


def describe(case):
    return " || ".join("%s: %s" % (p, c.decode("latin1").replace("\n", " / ")[:160]) for p, c in parse_case(case))


def gen_conf(rng, tier):
    names = set(LOCALS + GLOBALS + BUILTINS + UNDEF)
    names |= {"debug", "math", "os", "io", "coroutine", "utf8", "table", "string", "package", "bit", "bit32", "jit", "arg", "_G",
              "_VERSION", "_ENV", "_env", "self", "assert", "collectgarbage", "dofile", "error", "getfenv", "getmetatable",
              "ipairs", "load", "loadfile", "loadstring", "module", "next", "pairs", "pcall", "print", "rawequal", "rawget",
              "rawlen", "rawset", "require", "select", "setfenv", "setmetatable", "tonumber", "tostring", "type", "warn",
              "xpcall", "unpack", "import", "file", "a", "sub", "c", "lua", "b"}
    for _ in range(200):
        names.add("".join(rng.choice("abcdefgxyz_GV12") for _ in range(rng.choice([1, 2, 3, 5]))))
    return [hexs(n.encode()) for n in sorted(names)]


LEGS = [
    Leg("c07.conf", gen_conf, describe=lambda c: bytes.fromhex(c).decode()),
    Leg("c07.diags", gen_diags, canon_impl=canon, shrink=shrink, per_case_s=0.5, describe=describe,
        skip_model=lambda m: m.startswith("SKIP"),
        nontrivial=lambda c: True),
]

TRUSTED = vlib.TRUSTED_COMMON + [
    "Lua front end model (Model/Lexer.v, Parser.v: bytes -> AST with Locs), validated by the C03/C04 legs",
    "name sets of the configuration (ignored / built-in / library names) are parameters of the theorems; the lists used by the "
    "driver are tied to the running server by leg c07.conf",
    "modelled, tied by correspondence: analysis_stat.go / analysis_exp.go traversal order, ScopeInfo.FindLocVar + "
    "VarInfo.IsCorrectPosition, checkLocVarCall, findGlobalVar (third term), FindGlobalLimitVar",
]


def main(tier, seed):
    return vlib.standard_main("C07", LEGS, tier, seed, trusted=TRUSTED,
                              assumptions=["core fragment only (in_fragment): no tables, indexing, methods, self, _G, require, goto; "
                                           "single-target assignments; all checks enabled; configuration: client flags, and the luahelper.json route with "
                                           "IgnoreFileVars (overlapping entries), IgnoreModules, IgnoreLocalNoUseVars (name sets per file)"])
