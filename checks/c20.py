# C20 - pattern-based checks fire exactly where their pattern occurs (DESIGN 5, C20)
#
# Leg c20.diags: one Lua file in a fresh workspace of the REAL language server (alias of srv.script); the published
# diagnostics of types 5 7 8 13 14 15 16 19 20 21 against the model (Model/Patterns.v on the shared front end)
# and against the documented patterns (Spec/PatternSpec.v).  Generator: grammar-directed programs (lib/luagen.Gen)
# into which instances and near-misses of every pattern are planted at random depths.
import re
import vlib, luagen
from vlib import Leg, hexs
from luagen import Gen, Tok, T, KEYWORDS

N = {"quick": (2000, 300), "thorough": (100000, 8000), "search": (2500, 300)}

MAX_TOKENS = 700
NAME_POOL = ["a", "b", "x", "t", "f", "_", "self", "obj", "k"]
NUM_RE = re.compile(r"^(\.?[0-9])")


def tk(word):
    """one source word -> token"""
    if word in KEYWORDS:
        return Tok("kw", word.encode())
    if word[0] in "\"'" or word.startswith("[[") or word.startswith("[="):
        return Tok("string", word.encode())
    if NUM_RE.match(word):
        return Tok("number", word.encode())
    if re.match(r"^[A-Za-z_][A-Za-z0-9_]*$", word):
        return Tok("name", word.encode())
    return Tok("op", word.encode())


def toks(src):
    """space separated source words -> tokens (string literals must not contain spaces)"""
    return [tk(w) for w in src.split()]


# operands: (group, source).  Members of one group are "the same" for some notion (structurally, modulo parentheses,
# by internal name only, by value only ...): picking both operands from one group plants instances and near-misses.
OPERAND_GROUPS = [
    ["a", "a", "( a )", "'!a'", "\"!a\"", "b"],
    ["a . b", "a . b", "a [ 'b' ]", "( a ) . b", "( a . b )", "'!a.b'", "a . c", "a [ b ]", "a [ '!b' ]"],
    ["a . b . c", "a [ 'b.c' ]", "a . b [ 'c' ]", "a [ 'b' ] . c", "( a . b ) . c"],
    ["a [ 1 ]", "a [ 1 ]", "a [ 1.0 ]", "a [ '1' ]", "a [ 01 ]", "a [ 0x1 ]"],
    ["1", "1", "1.0", "01", "0x1", "'1'", "1e0"],
    ["0.5", "0.5", ".5", "0.50", "5e-1", "0x1p-1", "0.5000001", "0.500002"],
    ["nil", "nil", "true", "true", "false", "false"],
    ["'s'", "\"s\"", "[[s]]", "'s#'", "'s#'", "''", "''", "'#'"],
    ["f ( )", "f ( )", "f ( a )", "f ( a )", "f ( ( a ) )", "f ( g ( ) )", "f ( ( g ( ) ) )", "f ( ( g ( ) ) )", "f { }",
     "f 's'", "f 's'", "a : m ( )", "a : m ( )", "a . m ( )", "a : n ( )", "a ( )", "a : m ( x )", "a ( x )", "a ( x )",
     "a . b : m ( x )", "a . b ( x )", "( f ( ) )", "( ( f ( ) ) )", "( f ( a ) )",
     "f ( ( ( g ( ) ) ) )", "f ( ( g ( ) ) , 1 )", "f ( g ( ) , 1 )"],
    ["- a", "- a", "not a", "not a", "# a", "- ( a )", "- b"],
    ["a + 1", "a + 1", "a + 1.0", "1 + a", "( a + 1 )", "a .. 's'", "a .. 's'", "a + b * 2", "a + b * 2", "( a + b ) * 2"],
    ["...", "...", "( ... )", "( ... )", "( ( ... ) )", "f ( ... )", "f ( ... )", "f ( ( ... ) )", "f ( ( ... ) )"],
    ["{ }", "{ }", "function ( ) end", "function ( ) end", "{ 1 }", "{ 1 }"],
    ["x == 1", "x == 1", "x == 1.0", "x == 0.5", "x == 0.5", "x == 0.50", "x ~= 0.5", "x == nil", "x == nil"],
    ["9223372036854775807", "9223372036854775807", "9223372036854775808", "9223372036854775808", "1e999", "1e999"],
]
# operands with an internal name (check 14 works on those); since C20-t14-name-collision a string spelled like a name
# is no deviation any more
CLEAN_GROUPS = [
    ["a", "a", "( a )", "( ( a ) )", "'!a'", "b"],
    ["a . b", "a . b", "a [ 'b' ]", "( a ) . b", "( a . b )", "a . c", "a [ b ]", "b . b"],
    ["a . b . c", "a . b [ 'c' ]", "a [ 'b' ] . c", "( a . b ) . c", "a . b . d"],
    ["'s'", "\"s\"", "[[s]]", "'t'", "''", "''"],
    ["self . x", "self . x", "self . y", "self [ 'x' ]"],
]
CMP_OPS = ["==", "~=", "<", "<=", ">", ">=", "and", "or"]
OTHER_OPS = ["+", "-", "..", "*", "//", "&", "|"]
VARS = ["a", "b", "a . b", "a . b . c", "a [ 1 ]", "a [ b ]", "a [ 'k' ]", "( a ) . b", "t [ f ( ) ]", "f ( ) . x",
        "obj : m ( x ) . y", "obj ( x ) . y", "obj : m ( x ) . y",
        "a [ 0.5 ]", "self . x"]
ONE_VALUED = ["1", "1.5", "'s'", "nil", "true", "false", "x", "_G"]
NOT_ONE_VALUED = ["f ( )", "...", "( f ( ) )", "( x )", "x . y", "x [ 1 ]", "- 1", "1 + 2", "{ }", "function ( ) end",
                  "not x", "a : m ( )"]
KEY_POOL = ["a =", "a =", "[ 'a' ] =", "[ a ] =", "[ '!a' ] =", "[ 1 ] =", "[ 1 ] =", "[ '1' ] =", "[ 1.0 ] =",
            "[ '#int1' ] =", "[ 01 ] =", "[ 0x1 ] =", "[ '' ] =", "[ '' ] =", "[ true ] =", "[ true ] =", "[ - 1 ] =",
            "[ - 1 ] =", "[ 2 ] =", "[ 2 ] =", "b =", "[ \"b\" ] =", "[ b ] =", "[ a . b ] =", "[ a . b ] =", "",
            "[ 1e0 ] =", "[ 9223372036854775807 ] =", "[ 0x7fffffffffffffff ] =", "[ 0xffffffffffffffff ] =",
            "[ '#int-1' ] =", "[ 10LL ] =", "[ 10 ] ="]
# conditions; grouping parentheses, `nil` and the literal `true` (the synthetic condition of `else`) are no deviations
# any more since C20-parens, C20-nil-loc, C20-t19-else
CLEAN_COND_GROUPS = [
    ["a", "a", "b", "not a", "not a", "a . b", "a . b", "a [ 'b' ]", "( a )", "( a . b )"],
    ["nil", "nil", "true", "true", "( true )", "( nil )", "false"],
    ["x == 1", "x == 1", "x == 1.0", "x == 2", "1 == x", "x ~= 1", "x == 0.5", "x == 0.5", "x == 0.50", "x == 0.500002"],
    ["f ( a )", "f ( a )", "f ( b )", "f ( a , b )", "a : m ( )", "a : m ( )", "a . m ( )", "a ( )", "a ( )", "f { }", "f 's'", "f 's'"],
    ["obj : m ( x )", "obj ( x )", "obj : m ( x )", "obj ( x )", "obj . m ( x )", "obj : n ( x )", "obj : m ( y )"],
    ["a and b", "a and b", "b and a", "a or b", "a and b or x", "a and b or x", "# t > 0", "# t > 0", "# t > 1"],
    ["a [ 1 ]", "a [ 1 ]", "a [ 1.0 ]", "a [ '1' ]", "a [ 0x1 ]", "false", "false", "1", "1", "'s'", "...", "..."],
]
CLEAN_KEYS = ["[ '' ] =", "[ '' ] =", "[ '!a' ] =", "[ '#int1' ] =", "[ 1 ] =", "[ 0x1 ] =",
              "a =", "a =", "[ 'a' ] =", "[ a ] =", "b =", "[ \"b\" ] =", "[ b ] =", "[ 1 ] =", "[ '1' ] =", "[ 1.0 ] =",
              "[ 2 ] =", "[ true ] =", "[ true ] =", "[ - 1 ] =", "[ - 1 ] =", "[ a . b ] =", "[ a . b ] =", "", "",
              "[ 'a b' ] =", "[ 'a b' ] =", "x ="]


class PGen(Gen):
    """luagen.Gen with planted pattern instances / near-misses"""

    def __init__(self, rng, plant=0.25, dirty=False, **kw):
        """dirty=False: planted forms stay (mostly) where the code agrees with the documented patterns;
        dirty=True: all forms, including those of the known deviation classes"""
        Gen.__init__(self, rng, names=NAME_POOL + ["foo", "print", "_G", "i", "v"], **kw)
        self.plant = plant
        self.dirty = dirty
        self.nplanted = 0

    def pick_pair(self):
        r = self.r
        if self.dirty:
            g = r.choice(OPERAND_GROUPS)
            x = r.choice(g)
            y = r.choice(g) if r.random() < 0.85 else r.choice(r.choice(OPERAND_GROUPS))
            return x, y
        if r.random() < 0.75:
            g = r.choice(CLEAN_GROUPS)
            return r.choice(g), r.choice(g)
        return r.choice(r.choice(OPERAND_GROUPS)), r.choice(r.choice(CLEAN_GROUPS))

    def wrap(self, src, p=0.12):
        if self.r.random() < p:
            return "( " + src + " )"
        return src

    # ---- expressions
    def planted_exp(self, d):
        r = self.r
        self.nplanted += 1
        k = r.random()
        if k < 0.45:        # same operands (14), all operators incl. near-miss operators
            x, y = self.pick_pair()
            op = r.choice(CMP_OPS) if r.random() < 0.85 else r.choice(OTHER_OPS)
            return toks("%s %s %s" % (self.wrap(x), op, self.wrap(y)))
        if k < 0.7:         # or true / and false (15, 16)
            other = r.choice(["a", "a . b", "f ( )", "1", "'s'", "( a )", "not a", "x == 1", "...", "{ }", "a . b . c",
                              "nil", "nil", "true", "false"])
            lit = r.choice(["true", "false", "true", "false", "( true )", "not false", "nil", "1"])
            op = r.choice(["or", "and", "or", "and", "==", ".."])
            src = "%s %s %s" % ((other, op, lit) if r.random() < 0.6 else (lit, op, other))
            return toks(src)
        # float equality (21)
        other = r.choice(["a", "a . b", "f ( )", "# t", "x % 1", "1", "0.5", "nil"])
        lit = r.choice(["0.5", "1.0", ".5", "5.", "1e3", "1E-3", "0x1p4", "0x.8", "9223372036854775808", "1e999", "1", "0x10",
                        "( 0.5 )", "- 0.5", "'0.5'", "10LL", "0xA.8p1", "3", "0.0"])
        op = r.choice(["==", "~=", "==", "~=", "<", "<=", ">=", "+"])
        src = "%s %s %s" % ((other, op, lit) if r.random() < 0.6 else (lit, op, other))
        return toks(src)

    def exp(self, d):
        if self.r.random() < self.plant * 0.5:
            e = self.planted_exp(d)
            k = self.r.random()
            if k < 0.25 and d > 0:       # as an operand of a larger expression (precedence decides the tree)
                op = self.r.choice(["and", "or", "==", "+", "..", "<"])
                e = (Gen.exp(self, d - 1) + [T(op)] + e) if self.r.random() < 0.5 else (e + [T(op)] + Gen.exp(self, d - 1))
            elif k < 0.4:
                e = [T("(")] + e + [T(")")]
            elif k < 0.5:
                e = [T("not")] + e
            return e
        return Gen.exp(self, d)

    def table(self, d):
        r = self.r
        if r.random() >= self.plant:
            return Gen.table(self, d)
        self.nplanted += 1
        out = [T("{")]
        n = r.choice([2, 3, 3, 4, 5])
        pool = r.sample(KEY_POOL if self.dirty else CLEAN_KEYS, 4)
        for i in range(n):
            out += toks(r.choice(pool)) + self.exp(d - 1)
            if i < n - 1 or r.random() < 0.3:
                out.append(T(r.choice([",", ";"])))
        return out + [T("}")]

    def funcbody(self, d):
        r = self.r
        if r.random() >= self.plant:
            return Gen.funcbody(self, d)
        self.nplanted += 1
        pool = r.sample(["a", "b", "_", "self", "x"], 3)
        ps = [r.choice(pool) for _ in range(r.choice([2, 3, 3, 4, 5]))]
        out = [T("(")]
        for i, p in enumerate(ps):
            if i:
                out.append(T(","))
            out.append(Tok("name", p.encode()))
        if r.random() < 0.2:
            out += [T(","), T("...")]
        out.append(T(")"))
        saved = self.loop
        self.loop = 0
        out += self.block(d - 1)
        self.loop = saved
        return out + [T("end")]

    # ---- statements
    def planted_stat(self, d):
        r = self.r
        self.nplanted += 1
        k = r.random()
        if k < 0.25:       # self assignment (20) and near misses
            n = r.choice([1, 1, 1, 2, 2, 3])
            vs = [r.choice(VARS) for _ in range(n)]
            es = []
            for v in vs:
                m = r.random()
                if m < 0.6:
                    es.append(v)
                elif m < 0.75:
                    es.append("( " + v + " )")
                elif m < 0.85:
                    es.append(r.choice(VARS))
                else:
                    es.append(r.choice(["a . b", "a [ 1.0 ]", "a [ 'b' ]", "a [ 0.50 ]", "b", "nil"]))
            if r.random() < 0.15:
                r.shuffle(es)
            return toks(" , ".join(vs) + " = " + " , ".join(es))
        if k < 0.5:        # arity of assignments (7) / local declarations (8)
            nv = r.choice([1, 1, 2, 2, 3])
            ne = r.choice([1, 1, 2, 2, 3, 4])
            es = []
            for i in range(ne):
                m = r.random()
                if m < 0.6:
                    es.append(r.choice(ONE_VALUED))
                elif m < 0.85:
                    es.append(r.choice(NOT_ONE_VALUED))
                else:
                    es.append(None)
            etoks = []
            for i, e in enumerate(es):
                if i:
                    etoks.append(T(","))
                etoks += toks(e) if e is not None else self.exp(d - 1)
            if r.random() < 0.5:
                vs = [r.choice(VARS) for _ in range(nv)]
                return toks(" , ".join(vs) + " =") + etoks
            names = [r.choice(NAME_POOL) for _ in range(nv)]
            out = [T("local")]
            for i, nm in enumerate(names):
                if i:
                    out.append(T(","))
                out.append(Tok("name", nm.encode()))
                if r.random() < 0.08:
                    out += [T("<"), Tok("name", b"const"), T(">")]
            if r.random() < 0.1:
                return out
            return out + [T("=")] + etoks
        if k < 0.85:       # if / elseif chains with repeated conditions (19)
            if self.dirty:
                g = r.choice(OPERAND_GROUPS)
                pool = [r.choice(g) for _ in range(2)] + [r.choice(r.choice(OPERAND_GROUPS))] + ["true", "a"]
            else:
                g = r.choice(CLEAN_COND_GROUPS)
                pool = [r.choice(g) for _ in range(3)] + [r.choice(r.choice(CLEAN_COND_GROUPS))]
            n = r.choice([1, 2, 2, 3, 3, 4])
            out = []
            for i in range(n):
                c = self.wrap(r.choice(pool), 0.12)
                out += [T("if" if i == 0 else "elseif")] + toks(c) + [T("then")] + self.block(d - 1)
            if r.random() < 0.4:
                out += [T("else")] + self.block(d - 1)
            return out + [T("end")]
        if not self.dirty:
            return Gen.stat0(self, d)
        # local declaration whose surplus expressions are not visited by the first pass
        e1 = self.planted_exp(d)
        e2 = self.planted_exp(d)
        return toks("local x = 1 , 2 ,") + [T("(")] + e1 + [T(")"), T(",")] + e2

    def stat0(self, d):
        if self.r.random() < self.plant:
            return self.planted_stat(d)
        return Gen.stat0(self, d)


def mk_case(src):
    return "F:%s:%s S:diags" % (hexs(b"a.lua"), hexs(src))


def gen_diags(rng, tier):
    nvalid, nbad = N[tier]
    out = []
    for k in range(nvalid):
        while True:
            g = PGen(rng, plant=rng.choice([0.1, 0.25, 0.25, 0.4, 0.6]), dirty=rng.random() < 0.3,
                     strings=rng.choice(["plain", "plain", "escapes"]), max_depth=rng.choice([1, 2, 2, 3, 3, 4]))
            toks_ = g.chunk()
            if len(toks_) <= MAX_TOKENS:      # the front-end model is quadratic in the file size
                break
        style = "wild" if rng.random() < 0.2 else "plain"
        out.append(mk_case(luagen.render(toks_, rng, style)))
        if k < nbad:            # malformed stream: token-level damage (syntax errors; the partial AST is analysed)
            mt, _ = luagen.mutate(toks_, rng)
            out.append(mk_case(luagen.render(mt, rng, "plain")))
    return out


def case_src(case):
    for it in case.split(" "):
        if it.startswith("F:"):
            h = it.split(":")[2]
            return b"" if h == "-" else bytes.fromhex(h)
    return b""


def shrink_case(case):
    b = case_src(case)
    lines = b.split(b"\n")
    if len(lines) > 1:
        for i in range(len(lines)):
            yield mk_case(b"\n".join(lines[:i] + lines[i + 1:]))
    n = len(b)
    step = max(1, n // 8)
    while step >= 1:
        for i in range(0, n, step):
            yield mk_case(b[:i] + b[i + step:])
        if step == 1:
            break
        step //= 2


SKIP = lambda m: m.startswith("SKIP")
LEGS = [
    Leg("c20.diags", gen_diags, nontrivial=lambda c: len(case_src(c)) > 30, skip_model=SKIP, shrink=shrink_case,
        per_case_s=0.5, describe=lambda c: case_src(c).decode("utf8", "replace")[:400]),
]

TRUSTED = vlib.TRUSTED_COMMON + [
    "shared Lua front end model (Model/Lexer.v, Parser.v, Number.v; validated by the C03 legs) - the pattern model runs on its AST",
    "oracle: rune count of GBK-decoded string literals (Section variable gbk_runes); cases needing it are skipped",
    "oracle: closeness of two float literals, |v1-v2| < 1e-6 on float64 (Section variable fclose; OCaml float_of_string in the driver)",
    "modelled, tied by correspondence on the real server's publishDiagnostics: analysis_exp.go, analysis_stat.go, "
    "analysis_block.go (first pass, not real-time), common/util.go CompExp/GetExpName/GetExpLoc/IsOneValueType/"
    "GetTableConstuctorKeyStr, check_util.go copyFileErr de-duplication",
]


def main(tier, seed):
    return vlib.standard_main("C20", LEGS, tier, seed, trusted=TRUSTED)
