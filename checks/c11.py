# C11 - rename rewrites exactly the variable's occurrences (DESIGN 5, binder family).
# rename = find-references(mode rename) converted to text edits; the new name is never validated by the server.
import c05
from vlib import Leg

FRESH = ["zz9", "renamed_1", "q7_", "NewName"]

# ---- client settings (workspace/didChangeConfiguration) in front of / between the renames (seeded C11-6: rename was grouped with
# find-references under the user setting `ReferenceIncudeDefine` = "list the definition among the references", so the declaration
# edit was lost when the key is false or ABSENT - a bool with omitempty: a settings object without the key resets it).  The
# edit set of a rename must not depend on any of this: model and spec know no settings (the K items are ignored by the model
# side's case parser), so every deviation shows as impl != model = spec.  harness/srv_script.go item `K:<k>:<hex JSON settings>`
# = the notification sent right before step number k (steps counted with the didOpen steps).
WARN_ALL = {"AllEnable": True, "CheckSyntax": True, "CheckNoDefine": True, "CheckAfterDefine": True, "CheckLocalNoUse": True}


def settings_variant(rng):
    base = {}
    k = rng.random()
    if k < 0.4:
        base["ReferenceIncudeDefine"] = False
    elif k < 0.6:
        base["ReferenceIncudeDefine"] = True
    # else: key absent
    if rng.random() < 0.5:
        base["ReferenceMaxNum"] = rng.choice([3000, 3000, 500, 100000])
    if rng.random() < 0.3:
        base["PreviewFieldsNum"] = rng.choice([30, 10])
    if rng.random() < 0.2:
        base["Report"] = False
    m = rng.random()
    if m < 0.15:
        return {}                                           # an empty settings object
    if m < 0.25:
        return {"luahelper": {}}
    st = {"luahelper": {"base": base}}
    if rng.random() < 0.5:
        st["luahelper"]["Warn"] = dict(WARN_ALL)
    if rng.random() < 0.2:
        st["files"] = {"associations": {}}
    return st


def with_settings(case, rng, p=0.5):
    """a share p of the cases gets one to three settings notifications: before the first didOpen, after the last one, or between
    two renames (the first notification of a session only stores the values, a later one re-runs the whole workspace analysis)"""
    import json
    if rng.random() >= p:
        return case
    nsteps = sum(1 for it in case.split(" ") if it.startswith("S:"))
    nopen = sum(1 for it in case.split(" ") if it.startswith("S:open:"))
    ks = []
    for _ in range(rng.choice([1, 1, 1, 2, 3])):
        m = rng.random()
        ks.append(0 if m < 0.3 else (nopen if m < 0.75 else rng.randrange(nopen, max(nopen + 1, nsteps))))
    return case + "".join(" K:%d:%s" % (k, json.dumps(settings_variant(rng), separators=(",", ":")).encode().hex()) for k in sorted(ks))


SETTINGS_SEED_A = ("counter = 0\nlocal function step(n, by)\n  local sum = n\n  for i = 1, by do\n    sum = sum + i\n  end\n"
                   "  for k, v in pairs({ n, by }) do\n    sum = sum + k * v\n  end\n  counter = counter + 1\n  return sum\nend\n"
                   "use(step(1, 2), step(3, 4))\n")


def settings_seed_cases():
    """the workspace of seeded/C11-6's demonstration (parameter, local, both loop variables, local function, global across files)
    under the three spellings of the key; narrow-fragment text except `pairs({ n, by })` - replaced by a call"""
    import json
    a = SETTINGS_SEED_A.replace("pairs({ n, by })", "iter(n, by)")
    files = [("a.lua", a), ("b.lua", "use(counter)\n")]
    cur = [(0, 2, 14), (0, 1, 23), (0, 10, 9), (0, 4, 16), (0, 7, 20), (0, 12, 4), (1, 0, 4), (0, 0, 0)]
    steps = ["rename:%d:%d:%d:%s" % (f, l, c, c05.hx("fresh_name")) for f, l, c in cur]
    out = []
    for st in ({"luahelper": {"base": {"ReferenceMaxNum": 3000, "ReferenceIncudeDefine": False}}},
               {"luahelper": {"base": {"ReferenceMaxNum": 3000}}},
               {"luahelper": {"base": {"ReferenceMaxNum": 3000, "ReferenceIncudeDefine": True}}}):
        out.append(c05.make_case(files, steps) + " K:2:" + json.dumps(st, separators=(",", ":")).encode().hex())
    return out


def gen_rename(rng, tier):
    out = settings_seed_cases()
    for _ in range(c05.n_programs(tier, quick=300)):
        k = rng.random()
        ws = c05.gen_twin_workspace(rng) if k < 0.08 else (c05.gen_returned_local_workspace(rng) if k < 0.12 else c05.gen_workspace(rng))
        steps = c05.cursor_steps(["rename"], ws, rng, newname=rng.choice(FRESH))
        out.append(with_settings(c05.make_case([(fn, text) for fn, text, _ in ws], steps), rng))
    # workspaces with more files than the reference search has pool workers (runtime.NumCPU()+2; find-references and
    # rename share that pool: seeded C06-3, C11-5): a GLOBAL defined in one file and used once in every other file, each
    # use on a line of its own number; renamed from the defining file and from two of the using files - the edits must be
    # exactly the occurrences (a worker that carries anything over from an earlier file adds edits at another file's position)
    for _ in range(2 if tier != "thorough" else 20):
        ws = c05.gen_many_files_workspace(rng)
        steps = []
        for fi in [0, rng.randrange(1, len(ws) - 1), len(ws) - 1]:
            one = c05.cursor_steps(["rename"], [ws[fi]], rng, newname=rng.choice(FRESH))
            steps += [":".join([x.split(":")[0], str(fi)] + x.split(":")[2:]) for x in one]
        out.append(c05.make_case([(fn, text) for fn, text, _ in ws], steps))
    return out


def gen_rename_wide(rng, tier):
    out = []
    for _ in range(c05.n_programs(tier, quick=120)):
        ws = c05.pick_wide_workspace(rng)
        steps = c05.cursor_steps(["rename"], ws, rng, newname=rng.choice(FRESH))
        out.append(with_settings(c05.make_case([(fn, text) for fn, text, _ in ws], steps), rng, 0.35))
    for ws in c05.chain_workspaces(rng, tier, 8):        # call-chain statements with callbacks (seeded C05-5)
        out.append(c05.make_case([(fn, text) for fn, text, _ in ws],
                                 c05.cursor_steps(["rename"], ws, rng, newname=rng.choice(FRESH))))
    return out


LEGS = [
    Leg("c11.rename", gen_rename, nontrivial=c05.nontrivial, describe=c05.describe, per_case_s=1.5,
        skip_model=c05.skip_model),
    c05.wide_leg("c11.wide", "c11.rename", gen_rename_wide),
]


class SettingsRunner(c05.BinderRunner):
    """the family's runner makes one row per query and rebuilds the row's case from files + opens + that step: put the settings
    notifications (K items) that precede the step back, so that a failing input carries them"""

    def eval_cases(self, leg, cases):
        rows = super().eval_cases(leg, cases)
        if not any(" K:" in c for c in cases):
            return rows
        out, p = [], 0
        for c in cases:
            fs, steps = c05.split_case(c)
            n = 1 if (p < len(rows) and rows[p][0] == c) else len(steps)
            ks = [it.split(":", 2) for it in c.split(" ") if it.startswith("K:")]
            for j in range(n):
                row = rows[p + j]
                if ks and row[0] != c:
                    keep = ["K:%d:%s" % (min(int(k), len(fs)), h) for _, k, h in ks if int(k) <= len(fs) + j]
                    row = (" ".join([row[0]] + keep),) + tuple(row[1:])
                out.append(row)
            p += n
        return out + rows[p:]


def main(tier, seed):
    return c05.run_family("C11", LEGS, tier, seed, runner_cls=SettingsRunner, assume_extra=[
        "c11.rename / c11.wide: a share of the cases sends workspace/didChangeConfiguration notifications (K items: key "
        "ReferenceIncudeDefine true / false / absent, other keys, empty settings; before the didOpens, after them, between two "
        "renames); model and spec know no settings - the edit set of a rename must not depend on them"])
