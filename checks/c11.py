# C11 - rename rewrites exactly the variable's occurrences (DESIGN 5, binder family).
# rename = find-references(mode rename) converted to text edits; the new name is never validated by the server.
import c05
from vlib import Leg

FRESH = ["zz9", "renamed_1", "q7_", "NewName"]


def gen_rename(rng, tier):
    out = []
    for _ in range(c05.n_programs(tier, quick=300)):
        k = rng.random()
        ws = c05.gen_twin_workspace(rng) if k < 0.08 else (c05.gen_returned_local_workspace(rng) if k < 0.12 else c05.gen_workspace(rng))
        steps = c05.cursor_steps(["rename"], ws, rng, newname=rng.choice(FRESH))
        out.append(c05.make_case([(fn, text) for fn, text, _ in ws], steps))
    # workspaces with more files than the reference search has pool workers (runtime.NumCPU()+2; find-references and
    # rename share that pool: seeded C06-3, C11-5): a GLOBAL defined in one file and used once in every other file, each
    # use on a line of its own number; renamed from the defining file and from two of the using files - the edits must be
    # exactly the occurrences (a worker that carries anything over from an earlier file adds edits at another file's position)
    for _ in range(2 if tier != "thorough" else 20):
        ws = c05.gen_many_files_workspace(rng)
        steps = []
        for fi in [0, rng.randrange(1, len(ws) - 1), len(ws) - 1]:
            one = c05.cursor_steps(["rename"], [ws[fi]], rng, newname=rng.choice(FRESH))
            steps += [":".join([x.split(":")[0], str(fi)] + x.split(":")[2:]) for x in one]
        out.append(c05.make_case([(fn, text) for fn, text, _ in ws], steps))
    return out


def gen_rename_wide(rng, tier):
    out = []
    for _ in range(c05.n_programs(tier, quick=120)):
        ws = c05.pick_wide_workspace(rng)
        steps = c05.cursor_steps(["rename"], ws, rng, newname=rng.choice(FRESH))
        out.append(c05.make_case([(fn, text) for fn, text, _ in ws], steps))
    for ws in c05.chain_workspaces(rng, tier, 8):        # call-chain statements with callbacks (seeded C05-5)
        out.append(c05.make_case([(fn, text) for fn, text, _ in ws],
                                 c05.cursor_steps(["rename"], ws, rng, newname=rng.choice(FRESH))))
    return out


LEGS = [
    Leg("c11.rename", gen_rename, nontrivial=c05.nontrivial, describe=c05.describe, per_case_s=1.5,
        skip_model=c05.skip_model),
    c05.wide_leg("c11.wide", "c11.rename", gen_rename_wide),
]


def main(tier, seed):
    return c05.run_family("C11", LEGS, tier, seed)
