# C11 - rename rewrites exactly the variable's occurrences (DESIGN 5, binder family).
# rename = find-references(mode rename) converted to text edits; the new name is never validated by the server.
import c05
from vlib import Leg

FRESH = ["zz9", "renamed_1", "q7_", "NewName"]


def gen_rename(rng, tier):
    out = []
    for _ in range(c05.n_programs(tier, quick=300)):
        k = rng.random()
        ws = c05.gen_twin_workspace(rng) if k < 0.08 else (c05.gen_returned_local_workspace(rng) if k < 0.12 else c05.gen_workspace(rng))
        steps = c05.cursor_steps(["rename"], ws, rng, newname=rng.choice(FRESH))
        out.append(c05.make_case([(fn, text) for fn, text, _ in ws], steps))
    return out


def gen_rename_wide(rng, tier):
    out = []
    for _ in range(c05.n_programs(tier, quick=120)):
        ws = c05.pick_wide_workspace(rng)
        steps = c05.cursor_steps(["rename"], ws, rng, newname=rng.choice(FRESH))
        out.append(c05.make_case([(fn, text) for fn, text, _ in ws], steps))
    return out


LEGS = [
    Leg("c11.rename", gen_rename, nontrivial=c05.nontrivial, describe=c05.describe, per_case_s=1.5,
        skip_model=c05.skip_model),
    c05.wide_leg("c11.wide", "c11.rename", gen_rename_wide),
]


def main(tier, seed):
    return c05.run_family("C11", LEGS, tier, seed)
