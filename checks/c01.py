# C01 - the server never crashes or hangs (DESIGN 5, C01)
import vlib, luagen
from vlib import Leg, hexs

NASTY_TAILS = [b"'a\\\n", b"'a\\\r", b"\"a\\", b"[=", b"[==", b"[", b"[[", b"[=[", b"--[[", b"--[==", b"--[=", b"\"abc", b"'", b"0x", b"1e",
               b"1e+", b".", b"..", b"...", b"\\", b"a.", b"a:", b"f(", b"{", b"{[", b"function", b"local", b"local function", b"for",
               b"for i", b"for i=", b"if", b"if a", b"if a then", b"repeat", b"until", b"::", b"::a", b"goto", b"<", b"local a<",
               b"local a<close", b"\xef\xbb\xbf", b"#", b"#!", b"\xff", b"\xe4\xb8", b"$", b"`", b"\x00", b"'\\z", b"'\\x", b"'\\x4",
               b"'\\12", b"'\\u{", b"[==[\n", b"--[==[\n]=]", b"a=[[\r\n"]
SOUP = [t.encode() for t in luagen.KEYWORDS + luagen.BINOPS + ["(", ")", "{", "}", "[", "]", ";", ",", ".", ":", "::", "=", "...", "#", "<", ">",
        "a", "b", "f", "1", "0x1p", "1e", "'s'", "\"", "'", "[[", "]]", "[=[", "]=]", "--", "--[[", "\n", "\r", "\\", "$", "@", "!", "?", "中", "\xff"]]


def gen_parse(rng, tier):
    n = {"quick": 4000, "thorough": 300000, "search": 4000}[tier]
    out = [hexs(t) for t in NASTY_TAILS] + [hexs(b"x = " + t) for t in NASTY_TAILS] + [hexs(b"local a = 1\nx = " + t) for t in NASTY_TAILS]
    out.append(hexs(b"x = = = " * 40))                 # more than 31 errors
    out.append(hexs(b"(" * 200))
    out.append(hexs(b"{" * 200 + b"}" * 100))
    out.append(hexs(b"a" + b".b" * 300 + b" = 1"))
    out.append(hexs(b"x = " + b"-" * 150 + b"1"))
    out.append(hexs(b"f" + b"()" * 300))
    for k in range(n):
        m = rng.random()
        if m < 0.35:                                   # token soup
            bs = b" ".join(rng.choice(SOUP) for _ in range(rng.choice([1, 2, 3, 5, 8, 13, 30])))
            if rng.random() < 0.5:
                bs = bs.replace(b" ", b"")
        elif m < 0.7:                                  # damaged valid program
            toks = luagen.Gen(rng, max_depth=rng.choice([1, 2, 3])).chunk()
            bs = bytearray(luagen.render(toks, rng, "wild" if rng.random() < 0.5 else "plain"))
            for _ in range(rng.choice([1, 2, 3, 6])):
                if not bs:
                    break
                i = rng.randrange(len(bs)); c = rng.random()
                if c < 0.3:
                    del bs[i:i + rng.choice([1, 2, 7])]
                elif c < 0.6:
                    bs[i:i] = rng.choice(NASTY_TAILS)
                elif c < 0.8:
                    bs[i] = rng.randrange(256)
                else:
                    bs = bs[:i]
            bs = bytes(bs)
            if rng.random() < 0.3:
                bs += rng.choice(NASTY_TAILS)
        elif m < 0.85:                                 # valid prefix + nasty tail
            toks = luagen.Gen(rng, max_depth=2).chunk()
            bs = luagen.render(toks, rng, "plain") + b" " + rng.choice(NASTY_TAILS)
        else:                                          # random bytes
            bs = bytes(rng.choice([rng.randrange(256), rng.choice(b" \n\r\t'\"[]=-\\.0x")]) for _ in range(rng.choice([1, 2, 3, 5, 9, 20])))
        out.append(hexs(bs))
    return out


import re
LOC = re.compile(r"@-?\d+\.-?\d+\.-?\d+\.-?\d+")


def strip_locs(obs):
    return LOC.sub("", obs)


def alive(obs):
    if obs.startswith("OK ") or obs == "TOOMANY" or obs == "ALIVE":
        return "ALIVE"
    return obs[:60]


def shrink_bytes(case):
    b = bytes.fromhex(case.split(" ")[0]) if case.split(" ")[0] != "-" else b""
    n = len(b)
    step = max(1, n // 4)
    while step >= 1:
        for i in range(0, n, step):
            yield hexs(b[:i] + b[i + step:])
        if step == 1:
            break
        step //= 2


# ---- server robustness: generated workspaces, every request kind swept over positions
def hx(s):
    return s.encode("utf8").hex() if s else "-"


ANN_LINES = ["---@class A", "---@class B : A", "---@field x number", "---@field f fun(a:number):string", "---@type A", "---@type B[]",
             "---@type table<string, A>", "---@alias N number|string", "---@param a number", "---@return A", "---@generic T",
             "---@overload fun(a:string)", "---@vararg number", "---@enum start", "---@enum end", "---@type", "---@class",
             "---@field", "---@alias", "---@type fun(", "---@type table<", "---@type (A", "---@", "---@type A|", "---|'x'"]


# luahelper.json contents: ordinary, malformed, and settings whose TEXT ends up inside regular expressions
JSON_CFGS = ["{}", '{"BaseDir":"./"}', '{"IgnoreModules":["x"]}', "{", "[]", "",
             '{"ReferFrameFiles":[{"Name":"imp(","Type":0,"SuffixFlag":1}]}',
             '{"ReferFrameFiles":[{"Name":"a[","Type":1,"SuffixFlag":0},{"Name":"*","Type":0,"SuffixFlag":1}]}',
             '{"IgnoreFileErr":["("],"IgnoreFileOrFloder":["[a"]}',
             '{"IgnoreFileErrTypes":[{"File":"(","Types":[1]}]}',
             '{"PathSeparator":"(","ProjectFiles":["f0.lua"]}',
             '{"OpenErrorTypes":[22,23,24,25,29,99,-1],"IgnoreErrorTypes":[0,1,2,300]}',
             '{"GlobalVar":["("],"IgnoreVar":["*"],"AssocialList":["(", "txt"],"OtherDir":"("}',
             '{"ProtocolVars":["c2s","s2s"]}', '{"ProtocolVars":["c2s","s2s","("],"ProjectFiles":["f0.lua"]}',
             '{"ProtocolVars":["c2s"],"GlobalVar":["c2s"]}']

# project-specific protocol prefixes (luahelper.json ProtocolVars): same member under several prefixes, defined / used in
# every order (the global table chains same-named entries; look-ups walk the chain by prefix)
PROTO_STATS = ['c2s.login = function(a) end', 's2s.login = function(a, b) end', 'c2s.login(1)', 's2s.login(1, 2)',
               'function c2s.login() end', 'function s2s.logout() end', 'x = s2s.logout', 'c2s.logout()', 'c2s.x = 1 c2s.x = 2',
               'local p = c2s.login or s2s.login', 's2s = {}', 'c2s.a.b = s2s.a.b', '_G.c2s.login = 1']


# statements whose shape is legal Lua but unusual: literal / parenthesised prefixes, _G in every position, self outside
# methods, numeric and empty keys, calls on literals, deeply chained access (the analysis keeps name chains as strings)
ODD_STATS = ['("_G").x = 1', '("a").b.c = 1', '_G["x"].y = 1', '("_G")["x"] = 1', '_G._G.x = 1', '_G = nil', '_G.x = _G',
             'local _G = {} _G.y = 1', 'self.x = 1', 'self = 1', '("s"):rep(2).x = 1', '(f()).x = 1', '({}).x = 1', 'x[""] = 1',
             'x[1][2][3] = 1', 'a.b.c.d.e.f = 1', 'function _G.f() end', 'function _G.a.b:c() end', 'function self:m() end',
             'local t = {_G = 1, [_G] = 2, ["_G.x"] = 3}', '_G["a.b"] = 1', 't["!x"] = 1', 't["#int1"] = 1', 'x = ("_G").y',
             'x = _G', 'x = _G._G._G', 'x = ("_G")', 'x = #_G', 'x = -_G.y', 'require("_G")', 'require(_G)', 'import("")',
             'x = y.z.w()', 'x.y().z = 1', 'x:y().z = 1', 'local a <const>, b <close> = 1, nil', 'goto done ::done::',
             'for _G = 1, 2 do end', 'for _G in pairs(_G) do end', 'local function _G() end', 'return _G',
             # one identifier reused as table, member and first parameter; dotted colon functions on a variable called self
             # (finding C01-self-referential-member: the retry loop of go-to-definition never ended)
             'local x = {} function x.x(x) end', 'x = {} function x:x(x) return x end', 'function self.a:f() return self.zz, self end',
             'local abc = {} function abc.abc(abc, y) end', 'self = {a={b={}}} function self.a.b:f() return self end']


def gen_server(rng, tier):
    n = {"quick": 600, "thorough": 20000, "search": 300}[tier]
    out = []
    for k in range(n):
        nfiles = rng.choice([1, 1, 2, 3])
        files = []
        for f in range(nfiles):
            g = luagen.Gen(rng, max_depth=rng.choice([1, 2, 3]))
            toks = g.chunk()
            lines = luagen.render(toks, rng, "plain").decode("utf8").split("\n")
            for _ in range(rng.choice([0, 1, 2, 4])):
                lines.insert(rng.randrange(len(lines) + 1), rng.choice(ANN_LINES))
            if rng.random() < 0.3:
                lines.insert(0, 'local m = require("%s")' % rng.choice(["f0", "f1", "sub.f2", "nope", ""]))
            for _ in range(rng.choice([0, 0, 0, 1, 2])):
                lines.insert(rng.randrange(len(lines) + 1), rng.choice(ODD_STATS))
            text = "\n".join(lines)
            if rng.random() < 0.25:      # unsaved partial edit / damage
                i = rng.randrange(len(text) + 1)
                text = text[:i] + rng.choice(["(", "'", "[[", "--[[", "end", " = ", "\\", "function "]) + text[i:]
            files.append(("f%d.lua" % f if f < 2 else "sub/f2.lua", text))
        cfg = rng.choice(JSON_CFGS) if rng.random() < 0.3 else None
        if cfg is not None and "ProtocolVars" in cfg:
            for fi in range(len(files)):
                ls = files[fi][1].split("\n")
                for _ in range(rng.choice([1, 2, 4])):
                    ls.insert(rng.randrange(len(ls) + 1), rng.choice(PROTO_STATS))
                files[fi] = (files[fi][0], "\n".join(ls))
        items = ["F:%s:%s" % (hx(p), hx(t)) for p, t in files]
        if cfg is not None:
            items.append("F:%s:%s" % (hx("luahelper.json"), hx(cfg)))
        i = rng.randrange(nfiles)
        items.append("S:open:%d" % i)
        text = files[i][1]
        tl = text.split("\n")
        steps = []
        for _ in range(rng.choice([10, 25, 40])):
            l = rng.randrange(len(tl) + 1)
            c = rng.randrange(len(tl[l]) + 2) if l < len(tl) else rng.randrange(3)
            op = rng.choice(["hover", "define", "refs", "highlight", "complete", "sighelp", "rename"])
            steps.append("S:%s:%d:%d:%d" % (op, i, l, c) + (":" + hx("zz") if op == "rename" else ""))
        steps += ["S:docsym:%d" % i, "S:wssym:%s" % hx(rng.choice(["a", "f", "", "foo", "x.y", "*", "("])), "S:color:%d" % i]
        if rng.random() < 0.5:
            j = rng.randrange(len(text) + 1)
            steps.insert(rng.randrange(len(steps)), "S:change:%d:%s" % (i, hx(text[:j] + rng.choice(["x", ".", ":", "(", "\n", "'", "--"]) + text[j:])))
        if rng.random() < 0.3:
            steps.insert(rng.randrange(len(steps)), "S:save:%d" % i)
        if rng.random() < 0.35:
            steps.insert(rng.randrange(1, len(steps) + 1), odd_change(rng, i, text))
        steps.append("S:diags")
        out.append(" ".join(items + steps))
    return out


def odd_change(rng, i, text):
    """didChange content changes in every shape the protocol allows: a change WITHOUT range that still carries the
    (optional, deprecated) rangeLength - it is a full-text change whatever rangeLength says (finding
    C01-change-without-range) -, and range edits: the whole document deleted by range, empty ranges, ranges beyond
    the text (rejected with a log line)"""
    tl = text.split("\n")
    k = rng.random()
    if k < 0.45:
        return "S:nchange:%d:%d:%s" % (i, rng.choice([1, 1, 2, len(text), 4294967295]), hx(rng.choice(["y", "", text, text[:len(text) // 2], "x = ="])))
    if k < 0.7:                                      # the whole document by range (columns in characters: good enough here)
        return "S:rchange:%d:0:0:%d:%d:%s" % (i, len(tl) - 1, len(tl[-1]), hx(rng.choice(["", "", "z = 1", "("])))
    l = rng.randrange(len(tl) + 2); c = rng.randrange(40)
    l2 = l + rng.choice([0, 0, 1, 5]); c2 = rng.choice([c, c + 1, 0, 200])
    return "S:rchange:%d:%d:%d:%d:%d:%s%s" % (i, l, c, l2, c2, hx(rng.choice(["", "q", "\n", "'"])), rng.choice(["", ":0", ":3"]))


# ---- unreadable / vanishing Lua files (seeded C01-5): names the server treats as Lua that cannot be read when the
# analysis gets to them - dangling symbolic links (the Emacs lock file `.#main.lua`), link loops, directories NAMED x.lua,
# files removed between the event and the read - at start-up and through watched-file events / didSave / didOpen /
# didChange / didClose for paths that do not exist (script items X:link: X:dir: and the path-addressed steps of srv_script.go)
LINK_TARGETS = ["user@host.12345:1700000000", "nowhere.lua", "../outside.lua", "/nonexistent/x.lua", ".", "..", "self.lua", "f0.lua", "sub", ""]
GHOST_PATHS = ["ghost.lua", ".#f0.lua", "sub/ghost.lua", "nodir/deep/x.lua", "f0.lua~.lua", "GHOST.LUA", "g h.lua", "\u4e2d.lua", "d.lua", "d.lua/in.lua",
               "ghost.txt", "luahelper.json", ".lua", "a.lua.lua"]


def gen_unreadable(rng, tier):
    n = {"quick": 160, "thorough": 6000, "search": 100}[tier]
    out = []
    for k in range(n):
        nfiles = rng.choice([1, 1, 2, 3])
        files = []
        for f in range(nfiles):
            toks = luagen.Gen(rng, max_depth=rng.choice([1, 2])).chunk()
            text = luagen.render(toks, rng, "plain").decode("utf8")
            if rng.random() < 0.4:
                text = 'local m = require("%s")\ngtotal = (gtotal or 0) + 1\n' % rng.choice(["f0", "f1", "ghost", "sub.ghost", "d"]) + text
            files.append(("f%d.lua" % f if f < 2 else "sub/f2.lua", text))
        items = ["F:%s:%s" % (hx(p), hx(t)) for p, t in files]
        paths = [p for p, _ in files]
        m = rng.random()
        if m < 0.6:                                   # unreadable names present at start-up
            for _ in range(rng.choice([1, 1, 2, 3])):
                c = rng.random()
                p = rng.choice([".#f0.lua", "lock.lua", "sub/l.lua", "z/l.lua", "self.lua", "l0.lua", "l1.lua"])
                if c < 0.6:
                    items.append("X:link:%s:%s" % (hx(p), hx(rng.choice(LINK_TARGETS))))
                elif c < 0.75:                        # a two-link loop
                    items += ["X:link:%s:%s" % (hx("l0.lua"), hx("l1.lua")), "X:link:%s:%s" % (hx("l1.lua"), hx("l0.lua"))]
                    p = "l0.lua"
                else:
                    p = rng.choice(["d.lua", "sub/d.lua", "d.lua/e.lua"])
                    items.append("X:dir:%s" % hx(p))
                    if rng.random() < 0.5:
                        items.append("F:%s:%s" % (hx(p + "/in.lua"), hx("gin = 1\n")))
                        files.append((p + "/in.lua", "gin = 1\n"))
                paths.append(p)
        if rng.random() < 0.2:
            items.append("F:%s:%s" % (hx("luahelper.json"), hx(rng.choice(['{"ProjectFiles":["f0.lua"]}', '{"IgnoreFileOrFloder":["ghost"]}', "{}"]))))
        i = rng.randrange(nfiles)
        tl = files[i][1].split("\n")
        steps = []
        if rng.random() < 0.7:
            steps.append("S:open:%d" % i)

        def query():
            l = rng.randrange(len(tl) + 1)
            c = rng.randrange(len(tl[l]) + 2) if l < len(tl) else 0
            op = rng.choice(["hover", "define", "refs", "complete", "highlight"])
            return rng.choice(["S:%s:%d:%d:%d" % (op, i, l, c), "S:wssym:%s" % hx(rng.choice(["g", "f", ""])), "S:docsym:%d" % i, "S:alive"])
        for _ in range(rng.choice([1, 2, 3, 5, 8])):
            p = rng.choice(GHOST_PATHS + paths + paths)
            c = rng.random()
            if c < 0.35:
                evs = ["%d:%s" % (rng.choice([1, 1, 2, 2, 3]), hx(p))]
                for _ in range(rng.choice([0, 0, 1, 3])):
                    evs.append("%d:%s" % (rng.choice([1, 2, 3]), hx(rng.choice(GHOST_PATHS + paths))))
                steps.append("S:watch:" + ":".join(evs))
            elif c < 0.45:                            # really removed, then announced as created / changed / deleted
                steps += ["S:fsrm:%s" % hx(p), "S:watch:%d:%s" % (rng.choice([1, 2, 2, 3]), hx(p))]
            elif c < 0.55:                            # removed, then saved by the editor (the save re-reads the disk)
                steps.append("S:fsrm:%s" % hx(p))
                steps.append(rng.choice(["S:psave:%s", "S:psave:%s:" + hx("x = 1")]) % hx(p))
            elif c < 0.65:
                steps.append(rng.choice(["S:psave:%s", "S:psave:%s:" + hx("gs = 1")]) % hx(p))
            elif c < 0.75:
                steps.append("S:popen:%s:%s" % (hx(p), hx(rng.choice(["", "go = 1", "local x = (", "return require('f0')"]))))
            elif c < 0.8:
                steps.append("S:pchange:%s:%s" % (hx(p), hx(rng.choice(["", "gc = 1", "gc = ="]))))
            elif c < 0.85:
                steps.append("S:pclose:%s" % hx(p))
            elif c < 0.9:                             # becomes a dangling link / a directory while the server runs
                steps += [rng.choice(["S:fslink:%s:" + hx(rng.choice(LINK_TARGETS)), "S:fsmkdir:%s"]) % hx(p), "S:watch:%d:%s" % (rng.choice([1, 2]), hx(p))]
            elif c < 0.95:                            # written and announced (the ordinary case) ...
                steps += ["S:fswrite:%s:%s" % (hx(p), hx("gw = 1\n")), "S:watch:1:%s" % hx(p)]
            else:
                steps += ["S:phover:%s:0:0" % hx(p), "S:pdocsym:%s" % hx(p)]
            if rng.random() < 0.5:
                steps.append(query())
        if rng.random() < 0.25:
            steps.insert(rng.randrange(len(steps) + 1), odd_change(rng, i, files[i][1]))
        steps += [query(), "S:alive", "S:diags"]
        out.append(" ".join(items + steps))
    return out


def shrink_script(case):
    """smaller scripts: drop runs of non-file items (steps, links, directories), then empty the file contents"""
    its = case.split(" ")
    if "S:alive" not in its:                         # a script without a query step prints nothing (read as a crash)
        its.append("S:alive")
    last = len(its) - 1 - its[::-1].index("S:alive")
    rem = [k for k, it in enumerate(its) if not it.startswith("F:") and k != last]
    step = max(1, len(rem) // 2)
    while step >= 1:
        for a in range(0, len(rem), step):
            drop = set(rem[a:a + step])
            yield " ".join(it for k, it in enumerate(its) if k not in drop)
        if step == 1:
            break
        step //= 2
    for k, it in enumerate(its):
        if it.startswith("F:") and not it.endswith(":-"):
            yield " ".join(its[:k] + [it.rsplit(":", 1)[0] + ":-"] + its[k + 1:])


def gen_server_all(rng, tier):
    return gen_server(rng, tier) + gen_unreadable(rng, tier)


def server_alive(obs):
    """the whole-server observable projected to what C01 demands: the process lives and every request was answered"""
    if obs.startswith(("CRASH", "TIMEOUT", "SPAWNERR", "TMPERR")) or "RECVERR" in obs or "SENDERR" in obs:
        return obs[:80]
    return "ALIVE"


import c16
# the annotation front end: ParseCommentFragment on garbage / deeply nested lines against the annotation model
# (theorems C01_ann_line_no_fault / C01_ann_fragment_no_fault are about that model); the leg and its generator are C16's
_T = [l for l in c16.LEGS if l.name == "c16.total"][0]


def ann_alive(obs):
    return obs[:80] if obs.startswith(("PANIC", "CRASH", "TIMEOUT", "FATAL")) else "ALIVE"


# C01's demand on this leg: the parser returns (no panic escapes, no hang) - whatever it returns
ANN_TOTAL = Leg("c16.total", _T.gen, py_spec=lambda c: "ALIVE", spec_proj=ann_alive, shrink=_T.shrink,
                nontrivial=_T.nontrivial, describe=_T.describe)

import c15
_M = [l for l in c15.LEGS if l.name == "c15.members"][0]


def members_alive(obs):
    return obs[:80] if obs.startswith(("PANIC", "CRASH", "TIMEOUT", "FATAL")) or "CRASH" in obs[:40] else "ALIVE"


# class hierarchies (cycles, diamonds, self-parents, alias chains) through completion / definition of the real server:
# theorems C01_class_closure_terminates / C01_alias_resolution_terminates are about the C15 model; leg and generator are C15's
CLASS_TOTAL = Leg("c15.members", lambda rng, tier: _M.gen(rng, tier)[:1200] if tier != "thorough" else _M.gen(rng, tier), py_spec=lambda c: "ALIVE",
                  spec_proj=members_alive, shrink=_M.shrink, nontrivial=_M.nontrivial, describe=_M.describe,
                  per_case_s=_M.per_case_s)

# ---- deep nesting (findings C01-deep-nesting / C01-deep-nesting-time, OPEN): leg c01.deep
# A case is `<construct> <depth> <route>` (harness/legs_c01.go builds the text and runs the route in a child process under
# an address-space cap and a watchdog). The MODEL side is the constant ALIVE: the model parser returns for every input
# (C01_parse_total) - the limit of the Go stack is outside the model (C01_parse_depth_unbounded_refuted) - and for short
# texts the extracted parser is really run (oracle leg c01.deeptext). So a crash is always implementation != model.
# The findings are identified by their concrete witnesses (`witnesses` of the open entries of known_findings/C01.json,
# with the `expect`ed observable): exactly these cases may deviate; any OTHER case of the grid below that crashes or
# hangs is a VIOLATION (a new construct, a shallower depth, another route). When a listed witness is ALIVE (repaired
# code) the check prints `FINDING-GONE:` for the entry and does not fail: the entry is then to be closed by hand.
REC = ["paren", "paren-open", "paren-name", "table", "table-open", "func", "funcstat", "do", "do-open", "while", "if", "else", "for",
       "forin", "repeat", "unm", "not", "len", "concat", "pow", "index-nest", "call-nest", "callstat-nest", "field-nest"]
CHAIN = ["add", "and", "call", "call-exp", "method", "strcall"]        # loops of the parser, left-deep AST
SLOW_CHAIN = ["dot", "dot-assign", "index", "funcname"]                # ... whose analysis takes cubic time
ANN = ["ann-paren", "ann-fun", "ann-funret", "ann-table", "ann-array", "ann-or"]
REQS = ["hover", "define", "refs", "highlight", "complete", "sighelp", "docsym", "color"]


def deep_grid(rng, tier):
    """cases that must be ALIVE on the unchanged code AND on repaired code (a nesting limit only adds a syntax error)"""
    out = []
    for c in REC + CHAIN + ANN:
        for r in ["parse", "scan", "open", "change"]:
            out.append("%s %d %s" % (c, rng.choice([1, 7, 60, 150]), r))
        if c != "index-nest":                           # cubic time like SLOW_CHAIN
            out.append("%s %d %s" % (c, rng.choice([190, 199, 200, 201, 210, 999, 1000, 1001, 1500]), rng.choice(["parse", "scan", "change"])))
    for c in SLOW_CHAIN:
        for r in ["parse", "scan", "change"]:
            out.append("%s %d %s" % (c, rng.choice([1, 7, 60, 150]), r))
    for c in ANN:
        out.append("%s %d ann" % (c, rng.choice([150, 1500, 20000])))
    # deep but below every measured threshold (the smallest is call-nest: dies from 424000 levels in the parser)
    for c in ["paren", "table", "call-nest", "concat", "unm", "field-nest", "call", "add", "method", "strcall"]:
        out.append("%s %d parse" % (c, rng.choice([20000, 100000, 250000])))
    for c in ["paren", "paren-name", "table", "call-nest", "concat", "unm", "field-nest", "do", "for", "add", "and", "call", "method"]:
        out.append("%s %d %s" % (c, rng.choice([3000, 20000]), rng.choice(["scan", "open", "change"])))
    # requests on / inside a deep expression
    n = {"quick": 25, "thorough": 400, "search": 25}[tier]
    for _ in range(n):
        c = rng.choice(REC + CHAIN + ANN + SLOW_CHAIN)
        # small where the analysis takes cubic / quadratic time (finding C01-deep-nesting-time)
        d = rng.choice([5, 40, 150]) if c in SLOW_CHAIN + ["index-nest"] else rng.choice([5, 40, 150, 1500])
        out.append("%s %d %s" % (c, d, rng.choice(REQS)))
    # random mixtures of the nesting constructs
    for _ in range(n):
        out.append("mix-%d %d %s" % (rng.randrange(100000), rng.choice([3, 30, 150, 1200]), rng.choice(["parse", "scan", "change"] + REQS)))
    return out


DEEP = Leg("c01.deep", deep_grid, oracle="c01.deeptext", per_case_s=30.0, jobs=8,
           nontrivial=lambda c: int(c.split(" ")[1]) >= 100,
           describe=lambda c: " ".join(c.split(" ")[:3]))


def deep_extra(r):
    """runs leg c01.deep with its own decision (see above); fills r.leg_stats / r.known_lines / r.violations"""
    import time, random, hashlib
    t0 = time.time()
    listed = {}
    for f in r.findings:
        if f.get("status") == "open" and f.get("witnesses"):
            for w in f["witnesses"]:
                listed[w] = f
    rng = random.Random((r.seed * 1000003) ^ int(hashlib.sha256(b"c01.deep").hexdigest()[:8], 16))
    if r.tier != "thorough":
        # every witness costs a gigabyte of stack: the quick tier replays all witnesses through the server and the
        # annotation parser and a third of the parser-only ones (which third depends on the seed); thorough replays all
        po = [w for w in listed if w.endswith(" parse")]
        for k, w in enumerate(po):
            if (k + r.seed) % 3 != 0:
                del listed[w]
    cases = list(listed) + [c for c in deep_grid(rng, r.tier) if c not in listed]
    # self-test of the decision: C01_DEEP_EXTRA="paren-name 1000000 parse;while 1700000 scan" adds cases to the grid
    # (an unlisted case that crashes must give a VIOLATION)
    import os
    cases += [c.strip() for c in os.environ.get("C01_DEEP_EXTRA", "").split(";") if c.strip() and c.strip() not in listed]
    rows = r.eval_cases(DEEP, cases)
    st = {"leg": "c01.deep", "deciding": True, "cases": len(rows), "corpus": len(listed), "agree": 0, "known_class_instances": 0,
          "corr_breaks": 0, "violations": 0, "unclassified": 0, "witnesses_gone": 0,
          "rule": "listed witnesses of open findings may deviate as recorded; every other case must be ALIVE in implementation and model"}
    hits, gone = {}, {}
    for c, i, m, s, cls in rows:
        key = " ".join(c.split(" ")[:3])
        rec = {"leg": "c01.deep", "case": key, "impl": i, "model": m, "spec": s, "class": cls}
        f = listed.get(key)
        if f is not None and i == f["expect"] and m == "ALIVE":
            st["agree"] += 1
            st["known_class_instances"] += 1
            hits[f["id"]] = hits.get(f["id"], 0) + 1
        elif f is not None and i == "ALIVE" and m == "ALIVE":
            st["witnesses_gone"] += 1
            gone[f["id"]] = gone.get(f["id"], 0) + 1
        elif i == "ALIVE" and m == "ALIVE" and s == "ALIVE":
            st["agree"] += 1
        else:
            rec["kind"] = "corr+violation" if i != "ALIVE" else "corr"
            if f is not None:
                rec["note"] = "witness of known finding %s fails differently from what is recorded (%s)" % (f["id"], f["expect"])
            st["corr_breaks"] += 1
            r.corr_breaks.append(rec)
            if i != "ALIVE":
                st["violations"] += 1
                r.violations.append(rec)
    for f in r.findings:
        fid = f.get("id")
        if fid in hits:
            r.known_hits[fid] = r.known_hits.get(fid, 0) + hits[fid]
            r.known_lines.append("KNOWN-FINDING: property=C01 %s [%s] leg=c01.deep: %d of the %d replayed witnesses reproduce (%d listed; impl=%s spec=ALIVE)" %
                                 (f["what"], fid, hits[fid], sum(1 for w in listed if listed[w] is f), len(f["witnesses"]), f["expect"]))
        if fid in gone:
            # not a violation: the listed crash does not happen on this code (repaired?); the entry is closed by hand
            r.known_lines.append("FINDING-GONE: property=C01 [%s] leg=c01.deep: %d of the %d replayed witnesses are ALIVE on this code - if it carries "
                                 "the repair (fixes/C01-nesting-limit.diff, fixes/C01-annotation-nesting-limit.diff) set the entry to fixed in known_findings/C01.json" %
                                 (fid, gone[fid], sum(1 for w in listed if listed[w] is f)))
    seen = {" ".join(row[0].split(" ")[:3]) for row in rows}
    st["distinct"] = len(seen)
    st["distinct_nontrivial"] = sum(1 for c in seen if DEEP.nontrivial(c))
    st["wall_s"] = round(time.time() - t0, 1)
    r.leg_stats.append(st)
    for row in rows[:2] + rows[len(listed):len(listed) + 2]:
        r.samples.append({"leg": "c01.deep", "case": DEEP.describe(row[0]), "impl": row[1][:100], "model": row[2][:100]})
    r.deep_summary = {"listed_witnesses": len(listed), "reproduce": hits, "alive_now": gone}


LEGS = [
    Leg("c01.parse", gen_parse, py_spec=lambda c: "ALIVE", spec_proj=alive, shrink=shrink_bytes, canon_impl=strip_locs,
        skip_model=lambda m: m.startswith("SKIP"), nontrivial=lambda c: len(c) > 8,
        describe=lambda c: repr(bytes.fromhex(c.split(" ")[0]))[:200] if c[0] != "-" else ""),
    Leg("c01.server", gen_server_all, canon_impl=server_alive, per_case_s=2.0, jobs=16, shrink=shrink_script,
        nontrivial=lambda c: c.count(" S:") > 5, describe=lambda c: "%d files, %d steps" % (c.count("F:"), c.count(" S:"))),
    ANN_TOTAL,
    CLASS_TOTAL,
]

TRUSTED = vlib.TRUSTED_COMMON + [
    "leg c01.server is a robustness search over the real server (subprocess + watchdog), not a proof: the theorems cover the modelled cores only",
    "Go runtime behaviour (stack limit, scheduler) is outside the model: leg c01.deep measures it on listed witnesses and a grid (child process, ulimit -v, watchdog)",
]


def main(tier, seed):
    return vlib.standard_main("C01", LEGS, tier, seed, trusted=TRUSTED, other_models={"c16.": "C16", "c15.": "C15"}, extra=deep_extra,
                              assumptions=["nesting depth: the recursion of the parser and of the passes over the syntax tree follows the nesting of the input (C01_parse_depth_exceeds_nesting); inputs nested some hundred thousand levels deep exhaust the Go stack: open finding C01-deep-nesting, identified by the listed witnesses of leg c01.deep",
                                           "handlers outside the modelled cores (hover label rendering, signature help, completion deep paths) have no theorem; they are exercised by leg c01.server only"])
