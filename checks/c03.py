# C03 - syntax diagnostics <=> text is not valid Lua (DESIGN 5, C03)
import os, sys
import vlib, luagen
from vlib import Leg, hexs

N = {"quick": (2500, 6000), "thorough": (60000, 400000), "search": (3000, 8000)}


def strings_valid(toks):
    """lexical level of the reference: every short-string token uses the manual's escape sequences only (the generator
    glues escape parts and plain characters, so `\\65` + `2` gives the invalid `\\652`); esc_scan is defined below"""
    for t in toks:
        if t.kind == "string" and t.text[:1] in (b'"', b"'") and esc_scan(t.text[1:-1], t.text[0]) != "V":
            return False
    return True


def is_op(t, s):
    return t.kind == "op" and t.text == s


def mutate_parens(toks, rng):
    """grammar-aware mutant: parenthesise a name or a var (`a`, `a.b`, `a[1]`) where it stands. `(a)` is an expression
    but not a var: as an assignment target (`(a) = 1`, `x, (y) = 1, 2`, `(a.b) = 1`, `((a)) = 1`), as the key of a table
    field (`{(a) = 1}`), in a local / for / parameter list the text becomes invalid; as a prefix (`(a).b = 1`, `(a)()`),
    operand or value it stays valid - the reference recogniser decides (seeded/C03-5 dropped the ParensExp node for
    names and index expressions, which was the only thing that told `(a)` from `a`)"""
    T, Tok = luagen.T, luagen.Tok
    names = [j for j, t in enumerate(toks) if t.kind == "name"]
    if not names:
        return None
    # prefer names in front of `=` or `,` and names that start a statement-like position
    pref = [j for j in names if j + 1 < len(toks) and (is_op(toks[j + 1], b"=") or is_op(toks[j + 1], b","))]
    j = rng.choice(pref) if pref and rng.random() < 0.7 else rng.choice(names)
    a = j
    if rng.random() < 0.5:                                  # walk back over a chain `x.y.` so that the whole var is wrapped
        while a >= 2 and is_op(toks[a - 1], b".") and toks[a - 2].kind == "name":
            a -= 2
    b = j + 1
    if rng.random() < 0.4:                                  # ... and forward over `.name` / `[ simple ]` suffixes
        while True:
            if b + 1 < len(toks) and is_op(toks[b], b".") and toks[b + 1].kind == "name":
                b += 2
            elif b + 2 < len(toks) and is_op(toks[b], b"[") and toks[b + 1].kind in ("name", "number", "string") and is_op(toks[b + 2], b"]"):
                b += 3
            else:
                break
    n = rng.choice([1, 1, 1, 2, 3])
    out = list(toks[:a]) + [T("(")] * n + list(toks[a:b]) + [T(")")] * n + list(toks[b:])
    return out


PAREN_SEEDS = ["(a) = 1", "(a.b) = 1", "(a[1]) = 1", "((a)) = 1", "x, (y) = 1, 2", "(x), y = 1, 2", "x = {(a) = 1}", "f{b = 1, (a) = 2}",
               "(a).b = 1", "(a)[1] = 1", "(a)()", "x = {[(a)] = 1, (a)}", "x = (a) + 1", "(f()) = 1", "(...) = 1", "(a+b) = 1", "(1) = 1",
               "(a)", "local (a) = 1", "for (i) = 1, 2 do end", "function f((a)) end", "do (a) = 1 end", "(a)\n= 1", "(a) --c\n = 1",
               "(a.b.c) = 1", "(a.b).c = 1", "(a)(b).c = 1", "x = {(a.b) = 1}", "x = {(a)}", "x = {(a), (b) = 1}", "(a), (b) = 1, 2"]
PAREN_VALID = {"(a).b = 1", "(a)[1] = 1", "(a)()", "x = {[(a)] = 1, (a)}", "x = (a) + 1", "(a.b).c = 1", "(a)(b).c = 1", "x = {(a)}"}


def param_lists(toks):
    """(open, close) token indices of every parameter list: `function` [Name {. Name} [: Name]] `(` ... `)`"""
    out = []
    for i, t in enumerate(toks):
        if not (t.kind == "kw" and t.text == b"function"):
            continue
        j = i + 1
        if j < len(toks) and toks[j].kind == "name":
            j += 1
            while j + 1 < len(toks) and (is_op(toks[j], b".") or is_op(toks[j], b":")) and toks[j + 1].kind == "name":
                j += 2
        if j < len(toks) and is_op(toks[j], b"("):
            k = j + 1
            while k < len(toks) and (toks[k].kind == "name" or is_op(toks[k], b",") or is_op(toks[k], b"...")):
                k += 1
            if k < len(toks) and is_op(toks[k], b")"):
                out.append((j, k))
    return out


def mutate_parlist(toks, rng):
    """grammar-aware mutant of a parameter list: parlist ::= namelist [`,` `...`] | `...` - the vararg marker is legal in
    the LAST position only. Moves `...` away from the end (swap with a neighbour), puts `, Name` / `, ...` behind it, puts it
    first / in the middle, drops or doubles commas (seeded/C03-6: the loop went on after the marker, `f(a, ..., b)` accepted);
    some mutants stay valid (`(a, b)` -> `(a, b, ...)`): the reference recogniser decides"""
    T, Tok = luagen.T, luagen.Tok
    pls = param_lists(toks)
    if not pls:
        return None
    a, b = rng.choice(pls)
    inner = list(toks[a + 1:b])
    nm = lambda: Tok("name", rng.choice([b"a", b"b", b"p", b"self", b"n1"]))
    va = [j for j, t in enumerate(inner) if is_op(t, b"...")]
    k = rng.random()
    if va and k < 0.75:
        j = va[-1]
        m = rng.randrange(6)
        if m == 0 and j >= 2:                       # (a, b, ...) -> (a, ..., b)
            inner[j], inner[j - 2] = inner[j - 2], inner[j]
        elif m == 1:                                # (a, ...) -> (a, ..., b [, c])
            for _ in range(rng.choice([1, 1, 2])):
                inner[j + 1:j + 1] = [T(","), nm()]
        elif m == 2:                                # (a, ...) -> (a, ..., ...)
            inner[j + 1:j + 1] = [T(","), T("...")]
        elif m == 3:                                # (a, ...) -> (a, ..., b, ...)
            inner[j + 1:j + 1] = [T(","), nm(), T(","), T("...")]
        elif m == 4:                                # (a, ...) -> (a, ... b) / (a, ... ...) / (a, ...,)
            inner[j + 1:j + 1] = rng.choice([[nm()], [T("...")], [T(",")]])
        else:                                       # (a, b, ...) -> (..., a, b)
            del inner[j]
            if j >= 1:
                del inner[j - 1]
            inner[0:0] = [T("..."), T(",")] if inner else [T("...")]
    else:
        m = rng.randrange(7)
        names = [j for j, t in enumerate(inner) if t.kind == "name"]
        if m == 0:                                  # (a, b) -> (a, b, ...)   (valid)
            inner += ([T(",")] if inner else []) + [T("...")]
        elif m == 1 and names:                      # (a, b) -> (a, ..., b)
            j = rng.choice(names)
            inner[j:j] = [T("..."), T(",")]
        elif m == 2 and names:                      # (a, b) -> (..., b) / (a, ...) by replacement
            inner[rng.choice(names)] = T("...")
        elif m == 3 and names:                      # (a, b) -> (a, b, ..., c, d)
            inner += [T(","), T("...")]
            for _ in range(rng.choice([1, 2, 3])):
                inner += [T(","), rng.choice([nm(), nm(), T("...")])]
        elif m == 4:                                # trailing / leading / doubled comma
            j = rng.randrange(len(inner) + 1)
            inner[j:j] = [T(",")]
        elif m == 5 and names:                      # (a, b) -> (a, b, ... c)
            inner += [T(","), T("..."), nm()]
        else:
            inner += ([T(",")] if inner else []) + [T("..."), T(","), nm()]
    return list(toks[:a + 1]) + inner + list(toks[b:])


PARLIST_SEEDS = ["function f(a, ..., b) end", "function f(a, ..., ...) end", "local h = function(a, b, ..., c) end", "function f(..., a) end",
                 "function f(a, ... b) end", "function f(a, ...,) end", "function f(a,) end", "local function g(a, ..., b, ...) end",
                 "function t.m:n(self, ..., x) end", "f(function(a, ..., b) return a end)", "function f(a, b, ..., c, d) end",
                 "function f(..., ...) end", "function f(... ,) end", "function f(a, ...) end", "function f(...) end", "function f(a, b) end",
                 "x = {function(a, ...) end}", "f(a, ..., b)", "f(a, ..., ...)", "x = {a, ..., b}", "return function(a, ...) return ..., a end",
                 "function f(a, ...)\n(g)(...) end", "function f(a --c\n, ... --[[x]] , b) end", "function f(a, ..., b, c, d, e, f) end"]
PARLIST_VALID = {"function f(a, ...) end", "function f(...) end", "function f(a, b) end", "x = {function(a, ...) end}", "f(a, ..., b)",
                 "f(a, ..., ...)", "x = {a, ..., b}", "return function(a, ...) return ..., a end", "function f(a, ...)\n(g)(...) end"}


def gen_parse(rng, tier):
    nv, nm = N[tier]
    out = [hexs(t.encode()) + " " + ("V" if t in PAREN_VALID else "I") for t in PAREN_SEEDS]
    out += [hexs(t.encode()) + " " + ("V" if t in PARLIST_VALID else "I") for t in PARLIST_SEEDS]
    for k in range(nv):
        g = luagen.Gen(rng, max_depth=rng.choice([1, 2, 2, 3, 4]))
        toks = g.chunk()
        style = "wild" if rng.random() < 0.6 else "plain"
        out.append(hexs(luagen.render(toks, rng, style)) + " " + ("V" if luagen.ref_valid(toks) and strings_valid(toks) else "I"))
        for _ in range(max(1, nm // nv)):
            mt, how = luagen.mutate(toks, rng)
            v = "V" if luagen.ref_valid(mt) and strings_valid(mt) else "I"
            out.append(hexs(luagen.render(mt, rng, "plain" if rng.random() < 0.5 else "wild")) + " " + v)
        if rng.random() < 0.6:
            mt = mutate_parens(toks, rng)
            if mt is not None:
                v = "V" if luagen.ref_valid(mt) and strings_valid(mt) else "I"
                out.append(hexs(luagen.render(mt, rng, "plain" if rng.random() < 0.5 else "wild")) + " " + v)
        if rng.random() < 0.6:
            mt = mutate_parlist(toks, rng)
            if mt is not None:
                v = "V" if luagen.ref_valid(mt) and strings_valid(mt) else "I"
                out.append(hexs(luagen.render(mt, rng, "plain" if rng.random() < 0.5 else "wild")) + " " + v)
    return out


def proj_valid(obs):
    if obs.startswith("OK L: P: AST:"):
        return "V"
    if obs.startswith("OK ") or obs == "TOOMANY":
        return "I"
    return "?" + obs[:20]


def gen_lex(rng, tier):
    n = {"quick": 3000, "thorough": 100000, "search": 3000}[tier]
    out = []
    for k in range(n):
        g = luagen.Gen(rng, max_depth=rng.choice([1, 2, 3]))
        toks = g.chunk()
        bs = bytearray(luagen.render(toks, rng, "wild"))
        if rng.random() < 0.5:        # byte-level damage: lexical error paths
            for _ in range(rng.choice([1, 1, 2, 4])):
                if not bs:
                    break
                i = rng.randrange(len(bs)); m = rng.random()
                if m < 0.35:
                    del bs[i:i + rng.choice([1, 1, 2, 5])]
                elif m < 0.7:
                    bs[i:i] = rng.choice([b'"', b"'", b"[[", b"]]", b"[=[", b"--", b"--[[", b"\\", b"\n", b"\r", b"$", b"@", b"\xe4\xb8", b"\xff", b".", b"0x", b"e+", b"..", b"\\z", b"\\\n", b"`", b"!", b"?"])
                else:
                    bs[i] = rng.randrange(256)
            if rng.random() < 0.2:
                bs = bs[:rng.randrange(len(bs) + 1)]
        out.append(hexs(bytes(bs)))
    return out


# ---- escape sequences in short strings (leg c03.escape): valid and invalid forms of every kind, near misses
HEX = b"0123456789abcdefABCDEF"


def esc_item(rng, tame=False):
    """one escape sequence (without the backslash), valid or a near miss of a valid one (tame: mostly valid kinds)"""
    k = rng.choice([0, 1, 2, 3, 5, 8, 7, 13, 0, 3, 5, 8]) if tame else rng.randrange(16)
    hx = lambda n: bytes(rng.choice(HEX) for _ in range(n))
    if k == 0:
        return bytes([rng.choice(b"abfnrtv\\\"'")])
    if k == 1:
        return rng.choice([b"\n", b"\r", b"\r\n", b"\n\r", b"\n\n"])
    if k == 2:
        return b"z" + bytes(rng.choice(b" \t\n\r\v\f") for _ in range(rng.randrange(4)))
    if k == 3:
        return b"x" + hx(2)
    if k == 4:                                              # \x near misses
        return b"x" + rng.choice([b"", hx(1), hx(1) + b"g", b"g" + hx(1), b"Z", b"{41}", hx(1) + b" "])
    if k == 5:
        return str(rng.choice([0, 7, 9, 10, 65, 99, 100, 199, 200, 249, 250, 255])).encode()
    if k == 6:                                              # decimal near misses
        return rng.choice([b"256", b"260", b"300", b"999", b"0255", b"0256", b"2555", b"2560", b"025", b"00", b"1234"])
    if k == 7:
        return str(rng.randrange(1000)).encode().rjust(rng.randrange(1, 4), b"0")
    if k == 8:
        return b"u{" + rng.choice([b"0", b"41", b"7FF", b"10FFFF", b"7fffffff", b"0000000000000041", hx(rng.randrange(1, 8))]) + b"}"
    if k == 9:                                              # \u near misses
        return b"u" + rng.choice([b"", b"{", b"{}", b"{41", b"41", b"41}", b"{zz}", b"{4g}", b"{ 41}", b"{41 }", b"{80000000}",
                                  b"{7FFFFFFFF}", b"{100000000}", b"{ffffffffffffffffff}", b"(41)", b"{-1}"])
    if k == 10:                                             # any other character
        return bytes([rng.choice(b"cdeghijklmopqswyABNRTUXZ!#$%&()*+,-./:;<=>?@[]^_`{|}~ ")])
    if k == 11 and rng.random() < 0.3:                      # non-ASCII byte(s) after the backslash (needs the GBK oracle: skipped)
        return rng.choice([b"\xe4\xb8\xad", b"\xc3\xa9", b"\xff", b"\x80", b"\xe9", b"\xc3", b"\xff", b"\x80"])
    if k == 12:
        return bytes([rng.choice(b"xXuU")]) + hx(rng.randrange(5))
    if k == 13:
        return bytes(rng.choice(b"0123456789") for _ in range(rng.randrange(1, 6)))
    if k == 14:
        return rng.choice([b"\t", b"\v", b"\f", b"\x00", b"\x7f"])            # raw control characters
    return bytes([rng.randrange(128)])


def esc_body(rng, q):
    """body of a short string delimited by q: plain bytes and escape sequences; never an unescaped q / line break"""
    out = bytearray()
    tame = rng.random() < 0.55
    for _ in range(rng.choice([1, 1, 2, 3, 5, 8])):
        m = rng.random()
        if m < 0.3:
            for _ in range(rng.randrange(4)):
                c = rng.choice([b"a", b"z", b"0", b"9", b"A", b"F", b" ", b"{", b"}", b"x", b"u", b"\"", b"'", b"\xe2\x82\xac", b"\xe4\xb8\xad"])   # (2-byte UTF-8 would need the GBK oracle)
                if c[0] != q:
                    out += c
        else:
            e = esc_item(rng, tame)
            out += b"\\" + e
            if rng.random() < (0.15 if tame else 0.4):      # what follows decides: \12|3, \x4|1, \25|6
                c = rng.choice(b"0123456789abfxu{}")
                out.append(c)
    # a trailing backslash or a trailing raw line break would leave the string open: close them off
    body = bytes(out)
    n = 0
    while body.endswith(b"\\" * (n + 1)):
        n += 1
    if n % 2 == 1:
        body += b"n"
    return body


def esc_scan(body, q):
    """independent reading of the manual (3.1) for the text between the quotes: 'V' all escape sequences legal and
    the string closes at the end of body, 'I' some escape is not legal, None = the body is not one closed string
    (an unescaped quote / line break inside: not generated on purpose; such cases carry no demand)"""
    i, n, ok = 0, len(body), True
    while i < n:
        c = body[i]
        if c == q or c in (10, 13):
            return None
        if c != 92:
            i += 1
            continue
        i += 1
        if i >= n:
            return None
        e = body[i]
        if e in b"abfnrtv\\\"'":
            i += 1
        elif e in (10, 13):
            i += 1
            if i < n and body[i] in (10, 13) and body[i] != e:
                i += 1
        elif e == 0x7A:                                     # z
            i += 1
            while i < n and body[i] in b" \t\n\r\v\f":
                i += 1
        elif e == 0x78:                                     # x
            if i + 2 < n + 0 and body[i + 1] in HEX and body[i + 2] in HEX:
                i += 3
            else:
                ok = False
                i += 1
        elif 48 <= e <= 57:
            j = i
            while j < n and j - i < 3 and 48 <= body[j] <= 57:
                j += 1
            if int(body[i:j]) > 255:
                ok = False
            i = j
        elif e == 0x75:                                     # u
            j = i + 1
            good = j < n and body[j] == 0x7B
            if good:
                j += 1
                k = j
                while k < n and body[k] in HEX:
                    k += 1
                good = k > j and k < n and body[k] == 0x7D and int(body[j:k], 16) < 2 ** 31
            if good:
                i = k + 1
            else:
                ok = False
                i += 1
        else:
            ok = False
            i += 1
    return "V" if ok else "I"


def gen_escape(rng, tier):
    n = {"quick": 4000, "thorough": 150000, "search": 4000}[tier]
    out = []
    while len(out) < n:
        parts, verdicts = [], []
        for _ in range(rng.choice([1, 1, 1, 2, 3])):
            q = rng.choice(b"\"'")
            body = esc_body(rng, q)
            v = esc_scan(body, q)
            if v is None:
                break
            verdicts.append(v)
            parts.append(bytes([q]) + body + bytes([q]))
        else:
            head = rng.choice([b"local s = ", b"return ", b"s = s .. ", b"f(", b"x = {", b"", b"\xef\xbb\xbf", b"a.b = "])
            sep = rng.choice([b" .. ", b", ", b" ", b" --[[ \\q ]] .. ", b"\n.. ", b" -- \\q\n .. "])
            text = head + sep.join(parts) + rng.choice([b"", b"\n", b")", b"}", b" -- \\xZZ", b" .. [[\\q]]"])
            out.append(hexs(text) + " " + ("V" if all(v == "V" for v in verdicts) else "I"))
    return out


def proj_lex_valid(obs):
    if obs.startswith("L: T:"):
        return "V"
    if obs.startswith("L:"):
        return "I"
    return "?" + obs[:20]


def shrink_bytes(case):
    f = case.split(" ")
    if f[0] == "-":
        return
    b = bytes.fromhex(f[0])
    rest = (" " + " ".join(f[1:])) if len(f) > 1 else ""
    n = len(b)
    step = max(1, n // 8)
    while step >= 1:
        for i in range(0, n, step):
            yield hexs(b[:i] + b[i + step:]) + rest
        if step == 1:
            break
        step //= 2


def nontrivial(c):
    return len(c.split(" ")[0]) > 20


SKIP = lambda m: m.startswith("SKIP-ORACLE")
LEGS = [
    # escape sequences in short strings: the lexer reports a lexical error exactly when an escape is not one of the
    # manual's (C03_lex_iff); the demand (V / I) comes from esc_scan, an independent reading of the manual
    Leg("c03.escape", gen_escape, py_spec=lambda c: c.split(" ")[1], spec_proj=proj_lex_valid, nontrivial=lambda c: True,
        skip_model=SKIP,
        describe=lambda c: bytes.fromhex(c.split(" ")[0]).decode("utf8", "replace")[:300] if c[0] != "-" else ""),
    Leg("c03.parse", gen_parse, py_spec=lambda c: c.split(" ")[1], spec_proj=proj_valid, nontrivial=nontrivial,
        skip_model=SKIP, describe=lambda c: bytes.fromhex(c.split(" ")[0]).decode("utf8", "replace")[:300] if c[0] != "-" else ""),
    Leg("c03.lex", gen_lex, nontrivial=nontrivial, skip_model=SKIP, shrink=shrink_bytes,
        describe=lambda c: bytes.fromhex(c.split(" ")[0]).decode("utf8", "replace")[:300] if c[0] != "-" else ""),
]
# numeral sub-part (checks/c03_number.py)
from c03_number import LEGS_NUMBER, TRUSTED_NUMBER, ASSUMPTIONS_NUMBER
LEGS += LEGS_NUMBER

TRUSTED = vlib.TRUSTED_COMMON + [
    "oracle: rune count of GBK-decoded string literals (Section variable gbk_runes); cases needing it are skipped",
    "independent Python reference recogniser of the Lua grammar (lib/luagen.py) used as spec oracle of the correspondence leg",
    "modelled, tied by correspondence: lexer.go, parser/*.go; tables tied by the translator (Tie/TieLexer.v, Tie/TieParser.v)",
]


def main(tier, seed):
    return vlib.standard_main("C03", LEGS, tier, seed, trusted=TRUSTED + TRUSTED_NUMBER, assumptions=ASSUMPTIONS_NUMBER,
                              ties=("TieLexer", "TieParser"))
