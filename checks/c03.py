# C03 - syntax diagnostics <=> text is not valid Lua (DESIGN 5, C03)
import os, sys
import vlib, luagen
from vlib import Leg, hexs

N = {"quick": (2500, 6000), "thorough": (60000, 400000), "search": (3000, 8000)}


def gen_parse(rng, tier):
    nv, nm = N[tier]
    out = []
    for k in range(nv):
        g = luagen.Gen(rng, max_depth=rng.choice([1, 2, 2, 3, 4]))
        toks = g.chunk()
        style = "wild" if rng.random() < 0.6 else "plain"
        out.append(hexs(luagen.render(toks, rng, style)) + " " + ("V" if luagen.ref_valid(toks) else "I"))
        for _ in range(max(1, nm // nv)):
            mt, how = luagen.mutate(toks, rng)
            v = "V" if luagen.ref_valid(mt) else "I"
            out.append(hexs(luagen.render(mt, rng, "plain" if rng.random() < 0.5 else "wild")) + " " + v)
    return out


def proj_valid(obs):
    if obs.startswith("OK L: P: AST:"):
        return "V"
    if obs.startswith("OK ") or obs == "TOOMANY":
        return "I"
    return "?" + obs[:20]


def gen_lex(rng, tier):
    n = {"quick": 3000, "thorough": 100000, "search": 3000}[tier]
    out = []
    for k in range(n):
        g = luagen.Gen(rng, max_depth=rng.choice([1, 2, 3]))
        toks = g.chunk()
        bs = bytearray(luagen.render(toks, rng, "wild"))
        if rng.random() < 0.5:        # byte-level damage: lexical error paths
            for _ in range(rng.choice([1, 1, 2, 4])):
                if not bs:
                    break
                i = rng.randrange(len(bs)); m = rng.random()
                if m < 0.35:
                    del bs[i:i + rng.choice([1, 1, 2, 5])]
                elif m < 0.7:
                    bs[i:i] = rng.choice([b'"', b"'", b"[[", b"]]", b"[=[", b"--", b"--[[", b"\\", b"\n", b"\r", b"$", b"@", b"\xe4\xb8", b"\xff", b".", b"0x", b"e+", b"..", b"\\z", b"\\\n", b"`", b"!", b"?"])
                else:
                    bs[i] = rng.randrange(256)
            if rng.random() < 0.2:
                bs = bs[:rng.randrange(len(bs) + 1)]
        out.append(hexs(bytes(bs)))
    return out


def shrink_bytes(case):
    f = case.split(" ")
    if f[0] == "-":
        return
    b = bytes.fromhex(f[0])
    rest = (" " + " ".join(f[1:])) if len(f) > 1 else ""
    n = len(b)
    step = max(1, n // 8)
    while step >= 1:
        for i in range(0, n, step):
            yield hexs(b[:i] + b[i + step:]) + rest
        if step == 1:
            break
        step //= 2


def nontrivial(c):
    return len(c.split(" ")[0]) > 20


SKIP = lambda m: m.startswith("SKIP-ORACLE")
LEGS = [
    Leg("c03.parse", gen_parse, py_spec=lambda c: c.split(" ")[1], spec_proj=proj_valid, nontrivial=nontrivial,
        skip_model=SKIP, describe=lambda c: bytes.fromhex(c.split(" ")[0]).decode("utf8", "replace")[:300] if c[0] != "-" else ""),
    Leg("c03.lex", gen_lex, nontrivial=nontrivial, skip_model=SKIP, shrink=shrink_bytes,
        describe=lambda c: bytes.fromhex(c.split(" ")[0]).decode("utf8", "replace")[:300] if c[0] != "-" else ""),
]
# numeral sub-part (checks/c03_number.py)
from c03_number import LEGS_NUMBER, TRUSTED_NUMBER, ASSUMPTIONS_NUMBER
LEGS += LEGS_NUMBER

TRUSTED = vlib.TRUSTED_COMMON + [
    "oracle: rune count of GBK-decoded string literals (Section variable gbk_runes); cases needing it are skipped",
    "independent Python reference recogniser of the Lua grammar (lib/luagen.py) used as spec oracle of the correspondence leg",
    "modelled, tied by correspondence: lexer.go, parser/*.go; tables tied by the translator (Tie/TieLexer.v, Tie/TieParser.v)",
]


def main(tier, seed):
    return vlib.standard_main("C03", LEGS, tier, seed, trusted=TRUSTED + TRUSTED_NUMBER, assumptions=ASSUMPTIONS_NUMBER,
                              ties=("TieLexer", "TieParser"))
