# C17 - each configuration switch silences exactly the diagnostics it names (DESIGN 5, C17)
#
# Three deciding legs.  c17.live: histories of unsaved edits (didOpen + didChange to a text with / without syntax errors)
# and settings notifications on the REAL server; the client's view after every step against the extracted model
# (Config.step on the lsp state) and the extracted spec (ConfigSpec.spec_steps): after a settings change that takes effect
# no file may keep showing what the new configuration excludes.  c17.sites: the two places where the ignore-for-analysis rules decide (directory walk, per-file
# predicate IsNeedHandle), observed on the REAL server through the protocol only (which files hold diagnostics after
# start-up / a settings change; which files answer a didOpen+didChange probe), against the extracted model
# (is_handled / need_handle) and spec (spec_handled: a rule takes a file out iff it matches the file's name or a folder
# on its way, however the rule is spelt).  c17.filter: the REAL server (fresh process per case) is given a configuration by one of the three
# routes and its final publishDiagnostics view is compared with the extracted model (filter of the everything-enabled
# run according to coq/Model/Config.v) and the extracted spec (coq/Spec/ConfigSpec.v).  The case line is completed in
# three oracle stages (see eval_cases): Go regexp table -> analysed-file mask (model) -> raw run over those files.
import os, random
import vlib
from vlib import Leg, run_worker

WS = {
    "w1": ["deep/er/x.lua", "imp.lua", "lib/lib.lua", "main.lua", "sub/ann.lua", "sub/ann2.lua", "syn.lua"],
    "w2": ["c++/lib2.lua", "c+v/inc.lua", "common/test.lua", "one.lua", "port/off.lua", "port/on_a.lua", "port/on_b.lua", "tests/t1.lua"],
    # types 10 and 24 side by side (+ 2, 4, 9, 15, 16), also on the SAME call: wrong argument count with mismatching
    # argument types (function `miscounts`: only the count is reported, so nothing may show there once 10 is off)
    "w3": ["calls/ptype.lua", "rets.lua", "top.lua"],
}
# leg c17.live only (clean.lua has no diagnostic on disk; c17.sites needs a diagnostic in every file)
WS_LIVE = {
    "w4": ["clean.lua", "dir/broken.lua", "dir/warn.lua", "top.lua"],
}
# leg c17.filter only: annotation type names defined in several files (Trio: dupa / dupb / dupc.lua, Pair: dupc.lua /
# mid/pair.lua), i.e. one cross-file "duplicate annotate type" warning (type 18) per defining file; for per-file silencing
# rules that name one defining file (the others keep their warning).  Not in WS: c17.sites has no pattern table for it
WS_DUP = {
    "w5": ["dupa.lua", "dupb.lua", "dupc.lua", "mid/pair.lua", "solo.lua"],
}
ALL_WS = dict(WS, **WS_LIVE, **WS_DUP)
NTEXTS = 6                                           # probe texts of harness/legs_c17.go c17LiveTexts
NFLAGS = 26
SPECIAL = [2, 3, 10, 11, 12]
# the gate list of IsSpecialCheck after the repair (Config.gate_types_fixed); 26 and 27 have no client switch
GATE = [2, 3, 10, 11, 12, 9, 22, 23, 24, 25, 26, 27]
GATE_CLIENT = [t for t in GATE if t < 26]


def hx(s):
    b = s.encode() if isinstance(s, str) else s
    return b.hex() if b else "-"


def names(l):
    return ",".join(hx(x) for x in l) if l else "_"


def ints(l):
    return ".".join(str(x) for x in l) if l else "_"


def client(flags, ih=(), ie=(), local=False):
    """local=True: the client also sends LocalRun (meaningful in the init cfg only)"""
    return "%s;%s;%s%s" % ("".join("1" if f else "0" for f in flags), names(ih), names(ie), ";L" if local else "")


def jsoncfg(show=1, ign=(), op=(), ih=(), ie=(), ft=(), entry=0):
    fts = ",".join("%s=%s" % (hx(k), ints(v)) for k, v in ft) if ft else "_"
    return "%d;%s;%s;%s;%s;%s;%d" % (show, ints(ign), ints(op), names(ih), names(ie), fts, entry)


def case(ws, root, js, c0, changes):
    return "%s %s %s %s %s %s" % (ws, hx(root), names(ALL_WS[ws]), js or "-", c0, "|".join(changes) if changes else "-")


ALL_ON = [True] * NFLAGS


def flags_off(*off):
    return [k not in off for k in range(NFLAGS)]


# ------------------------------------------------------------------ generators

def rand_root(rng, p_meta=0.02):
    tag = "%012x" % rng.getrandbits(48)
    if rng.random() < p_meta:
        return "/tmp/lhc17/server/meta%s" % tag      # the built-in server/meta rule hits the absolute name
    return "/tmp/lhc17/r%s" % tag


def rand_flags(rng):
    m = rng.random()
    if m < 0.10:
        f = list(ALL_ON)
    elif m < 0.25:                                   # single toggle
        f = list(ALL_ON); f[rng.randrange(NFLAGS)] = False
    elif m < 0.35:                                   # single switch on (plus master)
        f = [False] * NFLAGS; f[0] = True; f[rng.randrange(1, NFLAGS)] = True
    elif m < 0.45:                                   # the old gate boundary: the five off/on in all combinations
        f = [rng.random() < 0.8 for _ in range(NFLAGS)]; f[0] = True
        keep = rng.randrange(32)
        for b, t in enumerate(SPECIAL):
            f[t] = bool(keep >> b & 1) and rng.random() < 0.5
    elif m < 0.55:                                   # the gate boundary: few (or none) of the gate types on
        f = [rng.random() < 0.8 for _ in range(NFLAGS)]; f[0] = True
        on = rng.sample(GATE_CLIENT, rng.choice([0, 1, 1, 1, 2, 3]))
        for t in GATE_CLIENT:
            f[t] = t in on
    else:
        p = rng.choice([0.2, 0.5, 0.8])
        f = [rng.random() < p for _ in range(NFLAGS)]
        f[0] = rng.random() < 0.9
    return f


LIT_PARTS = ["/", ".", ".lua", "lua", "a", "x", "_", "on", "t", "er", "sub", "port", "tmp", "lhc17", "server/meta", "r",
             "c+v", "c+v/", "c++", "c++/lib2.lua", "+v/inc.lua", "c+", "+v/", "+v", "++/", "+/", "+/lib2.lua", "+"]
REGEXES = ["on.*lua", "^sub/", "^/tmp", "o[nf]+\\.lua", "a.*b", ".*", "port/on_.\\.lua", "x\\.lua$", "(sub|lib)/", "^$",
           "[a-z]+/[a-z]+/", "t1?\\.lua", "deep", "\\.lua", "ann2?", "[0-9]+", "er/x", "^port/", "test", "s$", "/$"]
# ignore-for-analysis entries (IgnoreFileOrDir / IgnoreFileOrFloder) that tell the two sites and the two rule lists apart:
#  - regex forms that match FILES but do not end in the literal ".lua" (filed as folder rules): the documented
#    "port/on.*lua" first
#  - entries anchored at either end (the walk sees "a/b/", "a/b/c.lua", the per-file predicate saw "/a/b/c.lua")
#  - folder entries with and without the trailing slash, with a leading slash, fragments of folder names
#  - entries ending in ".lua" that are regexps (filed as file rules), also ones that match a folder only
SITE_PATTERNS = {
    "w1": ["sub/ann.*lua", "ann.?\\.lu", "sub/ann2?", "^sub/", "sub/$", "^sub/$", "sub/", "sub", "/sub/", "/sub", "^/sub",
           "deep/er/", "deep/er", "deep/", "^deep/$", "er/$", "^er/", "/deep/er/x", "deep/.*x", "x\\.lu", "^imp", "^imp.lua",
           "^/imp.lua", "imp\\.lua$", "/imp.lua", "main", "main.lu", "^main\\.lua$", "(main|syn)\\.lua", "(main|syn)", "lib",
           "lib/", "^lib/lib", "lib/lib.lua", "/lib/lib.lua", "lib\\.lua", "^lib\\.lua", "l.b/", "^[a-z]+/$|zz.lua",
           "^[a-z]+\\.lua", "^/[a-z]+\\.lua", "s[uy][bn]", ".lua", "lua", "\\.lua$", "a", "/", "^/", "^[^/]*$", "x.lua",
           "syn.lua", "[", "sub/(", "sub/[.lua", "*.lua"],
    "w2": ["port/on.*lua", "port/on.*\\.lua", "port/on_", "on_.*lua", "on_[ab]", "port/o[nf]+", "^port/", "port/$", "^port/$",
           "port/", "port", "/port/", "/port", "^/port", "^port", "tests/", "tests", "/tests/", "^tests", "tests/$", "t1",
           "tests/t1", "^tests/t1.lua", "/tests/t1.lua", "t1\\.lua$", "one.lua", "^one.lua", "^/one.lua", "/one.lua", "^one",
           "one", "one\\.lu", "(one|off)\\.lua", "(one|off)", "common/", "common", "common/test", "^common/$|zz.lua",
           "^[a-z]+/$|zz.lua", "c+v/", "c+v", "c+v/inc.lua", "c++/", "c++", "c++/lib2.lua", "c\\+\\+/", "c\\+v/inc", "c.v/",
           "lib2?", "inc\\.lu", ".lua", "lua", "\\.lua$", "^[a-z]+\\.lua", "^/[a-z]+\\.lua", "o", "/", "^/", "^[^/]*$",
           "[", "port/(", "port/[.lua", "*.lua"],
    "w3": ["calls/p.*lua", "calls/", "calls", "^calls/", "calls/$", "/calls/", "/calls", "ptype", "calls/ptype.lua",
           "/calls/ptype.lua", "^calls/ptype", "pt.pe\\.lu", "^rets", "rets.lua", "^/rets.lua", "^rets.lua", "/rets.lua", "top",
           "(rets|top)\\.lua", "(rets|top)", ".lua", "lua", "^[a-z]+\\.lua", "^/[a-z]+\\.lua", "^[a-z]+/$|zz.lua", "s/$", "/",
           "^[^/]*$", "[", "calls/(", "*.lua"],
}
BAD_REGEXES = ["(", "[a", "a{2,1}", "*", "on(.lua", "\\", "(?P<n", "x.lua)", "+.lua"]


def rand_pattern(rng, ws, allow_bad):
    files = ALL_WS[ws]
    m = rng.random()
    if m < 0.30:                                     # a file, literally
        return rng.choice(files)
    if m < 0.45:                                     # a folder, literally
        f = rng.choice(files)
        cut = [i for i, ch in enumerate(f) if ch == "/"]
        if cut:
            i = rng.choice(cut)
            return f[:i + 1] if rng.random() < 0.7 else f[:i]
        return f
    if m < 0.60:                                     # a fragment of a name
        f = rng.choice(files)
        i = rng.randrange(len(f)); j = rng.randrange(i, len(f) + 1)
        return f[i:j]
    if m < 0.70:
        return rng.choice(LIT_PARTS)
    if m < 0.93 or not allow_bad:
        return rng.choice(REGEXES)
    if m < 0.97:
        return rng.choice(BAD_REGEXES)
    return ""


def rand_patterns(rng, ws, allow_bad, p_some=0.5):
    if rng.random() > p_some:
        return []
    return [rand_pattern(rng, ws, allow_bad) for _ in range(rng.choice([1, 1, 1, 2, 3]))]


def rand_site_pattern(rng, ws):
    return rng.choice(SITE_PATTERNS[ws]) if ws in SITE_PATTERNS and rng.random() < 0.7 else rand_pattern(rng, ws, True)


def rand_site_patterns(rng, ws, p_some=0.5):
    """ignore-for-analysis entries"""
    if rng.random() > p_some:
        return []
    return [rand_site_pattern(rng, ws) for _ in range(rng.choice([1, 1, 1, 2, 3]))]


def rand_client(rng, ws, bad_err=0.04, local=0.0):
    ih = rand_site_patterns(rng, ws, 0.35)
    ie = rand_patterns(rng, ws, rng.random() < bad_err, 0.45)
    return client(rand_flags(rng), ih, ie, rng.random() < local)


def rand_types(rng):
    m = rng.random()
    if m < 0.3:
        return []
    if m < 0.5:
        return [rng.randrange(0, 33)]
    if m < 0.7:
        return sorted(rng.sample(SPECIAL, rng.randrange(1, 6)) + rng.sample(range(1, 30), rng.randrange(0, 4)))
    return sorted(rng.sample(range(1, 30), rng.randrange(1, 12)))


def rand_json(rng, ws, bad=0.04):
    show = rng.choice([1, 1, 1, 1, 1, 1, 0, 2])
    ign = rand_types(rng)
    op = rng.choice([[], [], list(range(22, 30)), rng.sample(range(22, 30), 3), [23, 26, 28]])
    g = rng.random()
    if g < 0.10:
        ign = sorted(set(ign) | set(SPECIAL))        # the old gate closed
    elif g < 0.22:                                   # the gate boundary: few (or none) of the gate types on
        on = rng.sample(GATE, rng.choice([0, 1, 1, 1, 2]))
        ign = sorted((set(ign) | set(GATE)) - set(on))
        if rng.random() < 0.7:
            op = list(range(22, 30))
    ih = rand_site_patterns(rng, ws, 0.3)
    ie = rand_patterns(rng, ws, rng.random() < bad, 0.4)
    ft = []
    if rng.random() < 0.5:
        for _ in range(rng.choice([1, 1, 2, 3])):
            ft.append((rand_pattern(rng, ws, rng.random() < bad), rand_types(rng)))
        if rng.random() < 0.08 and ft:               # duplicate File entry (known class dup_file_rule)
            ft.append((ft[0][0], rand_types(rng)))
    return jsoncfg(show, ign, op, ih, ie, ft)


# the model variant in use (ocaml leg c17.variant: regexp gate coupled dead dup sites live), set by main() before the legs run
VARIANT = "1111111"


def to_json_of(flags, ih, ie):
    """the same intent as a client configuration, written as luahelper.json (Config.to_json of the variant in use:
    once the client switches reach the white list, OpenErrorTypes lists the types whose switch is on)"""
    ign = [t for t in range(1, 30) if t > NFLAGS - 1 or not flags[t]]
    op = [t for t in range(1, NFLAGS) if flags[t]] if VARIANT[3] == "1" else []
    return jsoncfg(1 if flags[0] else 0, ign, op, ih, ie, [])


def gen_filter(rng, tier):
    n = {"quick": 6000, "thorough": 100000, "search": 3000}[tier]
    out = []
    wss = sorted(WS)
    # fixed part: all 26 single toggles by each route, the gate, the master switch
    if tier != "search":
        for ws in wss:
            # every single toggle by EACH route (a slip in one of the positional flag lists - position i carrying the
            # switch of type j - shows on the route that uses that list, as soon as switches i and j differ and the
            # workspace has a diagnostic of type i), and its complement (one switch on) by a later settings change
            for k in range(NFLAGS):
                f = list(ALL_ON); f[k] = False
                c = client(f)
                out.append(case(ws, rand_root(rng, 0), None, c, []))
                out.append(case(ws, rand_root(rng, 0), None, client(ALL_ON), [client(ALL_ON), c]))
                out.append(case(ws, rand_root(rng, 0), to_json_of(f, [], []), client(ALL_ON), []))
                if k:
                    g = [False] * NFLAGS; g[0] = True; g[k] = True
                    out.append(case(ws, rand_root(rng, 0), None, client(ALL_ON), [client(ALL_ON), client(g)]))
            # exactly one of two neighbouring switches off, by the second settings change of the session
            for k in range(1, NFLAGS - 1):
                for off in (k, k + 1):
                    f = [True] * NFLAGS
                    for x in range(1, NFLAGS):
                        f[x] = x in (k, k + 1)
                    f[off] = False
                    out.append(case(ws, rand_root(rng, 0), None, client(ALL_ON), [client(ALL_ON), client(ALL_ON), client(f)]))
            out.append(case(ws, rand_root(rng, 0), None, client(ALL_ON), []))
            out.append(case(ws, rand_root(rng, 0), None, client(flags_off(*SPECIAL)), []))
            for t in GATE:                           # exactly one gate type on (a type dropped from the gate shows here)
                if t in GATE_CLIENT:
                    out.append(case(ws, rand_root(rng, 0), None, client(flags_off(*[x for x in GATE_CLIENT if x != t])), []))
                else:
                    out.append(case(ws, rand_root(rng, 0), jsoncfg(1, [x for x in GATE if x != t], list(range(22, 30))),
                                    client(ALL_ON), []))
            out.append(case(ws, rand_root(rng, 0), jsoncfg(1, [], list(range(22, 30))), client(ALL_ON), []))
    fixed = len(out)
    while len(out) < n + fixed:
        out.extend(rand_filter_cases(rng, rng.choice(wss)))
    # the workspace with annotation types defined in several files, on top of the n cases above (their random stream
    # is not touched)
    out.extend(gen_dup(rng, tier))
    return out


def rand_filter_cases(rng, ws):
    """one random configuration for workspace ws by a random route (1 or 3 cases)"""
    out = []
    root = rand_root(rng)
    m = rng.random()
    if m < 0.30:                                     # initializationOptions
        out.append(case(ws, root, None, rand_client(rng, ws, local=0.08), []))
    elif m < 0.55:                                   # later settings change(s); first notification = start-up sync
        c0 = rand_client(rng, ws, 0.0, local=0.08)
        sync = c0[:-2] if c0.endswith(";L") else c0
        chs = [sync] + [rand_client(rng, ws, 0.02) for _ in range(rng.choice([1, 1, 2, 3]))]
        out.append(case(ws, root, None, c0, chs))
    elif m < 0.70:                                   # the same intent by all three routes (three cases)
        f = rand_flags(rng); ih = rand_site_patterns(rng, ws, 0.3); ie = rand_patterns(rng, ws, False, 0.4)
        c = client(f, ih, ie)
        c0 = rand_client(rng, ws, 0.0)
        out.append(case(ws, root, None, c, []))
        out.append(case(ws, rand_root(rng), None, c0, [c0, c]))
        out.append(case(ws, rand_root(rng), to_json_of(f, ih, ie), rand_client(rng, ws, 0.0), []))
    elif m < 0.95:                                   # luahelper.json
        out.append(case(ws, root, rand_json(rng, ws), rand_client(rng, ws, 0.1, local=0.08), []))
    else:                                            # luahelper.json + later client changes (ignored)
        out.append(case(ws, root, rand_json(rng, ws, 0.0), rand_client(rng, ws, 0.0),
                        [rand_client(rng, ws, 0.3) for _ in range(2)]))
    return out


# ---- per-file silencing rules against diagnostics that several files get for one shared cause (workspace w5) ----

ANNOTATE = 18                                        # CheckErrorAnnotate: "duplicate annotate type: X", one per defining file
# rules that silence one / some of the defining files (IsIgnoreErrorFile matches the absolute name: literal substring or
# regexp), next to ones that name a non-defining file or nothing at all
DUP_PATTERNS = ["dupa.lua", "dupb.lua", "dupc.lua", "mid/pair.lua", "solo.lua", "mid/", "dupa", "dupb", "dupc", "pair",
                "dupa\\.lua$", "dupb\\.lua$", "dupc\\.lua$", "/dup[ab]\\.lua", "/dup[bc]\\.lua", "dup[ac]", "dup.\\.lua",
                "^/tmp/.*/dupb", "(dupa|pair)\\.lua", "(solo|dupb)", "mid/.*lua$", "dupd.lua", "^dupa", "dup"]


def dup_rule_cases(rng, ws, ie, ft, flags=ALL_ON):
    """the per-file rules `ie` (silence every type) / `ft` (silence the listed types) by each route that can carry them"""
    on = client(ALL_ON)
    out = []
    if not ft:
        c = client(flags, [], ie)
        out.append(case(ws, rand_root(rng, 0), None, c, []))                               # initializationOptions
        out.append(case(ws, rand_root(rng, 0), None, on, [on, c]))                         # later settings change
        out.append(case(ws, rand_root(rng, 0), to_json_of(flags, [], ie), on, []))         # luahelper.json IgnoreFileErr
    else:
        js = to_json_of(flags, [], ie).split(";")
        js[5] = ",".join("%s=%s" % (hx(k), ints(v)) for k, v in ft)
        out.append(case(ws, rand_root(rng, 0), ";".join(js), on, []))                      # luahelper.json IgnoreFileErrTypes
    return out


def gen_dup(rng, tier):
    n = {"quick": 300, "thorough": 6000, "search": 300}[tier]
    out = []
    for ws in sorted(WS_DUP):
        files = ALL_WS[ws]
        if tier != "search":
            # every file of the workspace alone (first / middle / last defining file, a non-defining one), spelt
            # literally and as a regexp: silenced altogether, for type 18 only, for type 18 among others, for other types
            out.append(case(ws, rand_root(rng, 0), None, client(ALL_ON), []))
            for f in files:
                for p in (f, "/" + f.replace(".", "\\.") + "$"):
                    out.extend(dup_rule_cases(rng, ws, [p], []))
                    out.extend(dup_rule_cases(rng, ws, [], [(p, [ANNOTATE])]))
                    out.extend(dup_rule_cases(rng, ws, [], [(p, [5, ANNOTATE, 19])]))
                    out.extend(dup_rule_cases(rng, ws, [], [(p, [4, 5, 9])]))
            for a, b in ((0, 1), (0, 2), (1, 2), (2, 3), (0, 3)):      # two files named, by one rule list / by both
                out.extend(dup_rule_cases(rng, ws, [files[a], files[b]], []))
                out.extend(dup_rule_cases(rng, ws, [files[a]], [(files[b], [ANNOTATE])]))
        fixed = len(out)
        while len(out) < n + fixed:
            m = rng.random()
            if m < 0.5:                              # the general generator on this workspace
                out.extend(rand_filter_cases(rng, ws))
                continue
            flags = list(ALL_ON)
            if rng.random() < 0.4:
                flags = rand_flags(rng)
                if rng.random() < 0.7:
                    flags[0] = flags[ANNOTATE] = True
            pick = lambda: rng.choice(files) if rng.random() < 0.4 else rng.choice(DUP_PATTERNS)
            ie = [pick() for _ in range(rng.choice([0, 1, 1, 1, 2]))]
            ft = []
            if m < 0.8:
                for _ in range(rng.choice([1, 1, 2, 3])):
                    t = rand_types(rng)
                    if rng.random() < 0.6 and ANNOTATE not in t:
                        t = sorted(t + [ANNOTATE])
                    ft.append((pick(), t))
            if not ie and not ft:
                ie = [pick()]
            out.extend(dup_rule_cases(rng, ws, ie, ft, flags))
    return out


DOC_EXAMPLE = ["port/on.*lua", "tests/", "one.lua"]       # docs/manual/config.md, verbatim


def sites_case(rng, ws, ih, route, ih0=()):
    """every switch on, no silencing rule: a scanned file shows its diagnostics"""
    if route == 0:                                   # initializationOptions
        return case(ws, rand_root(rng, 0), None, client(ALL_ON, ih), [])
    if route == 1:                                   # later settings change (the walk runs again); first = start-up sync
        c0 = client(ALL_ON, ih0)
        return case(ws, rand_root(rng, 0), None, c0, [c0, client(ALL_ON, ih)])
    return case(ws, rand_root(rng, 0), jsoncfg(1, [], [], ih), client(ALL_ON, ih0), [])     # luahelper.json


def gen_sites(rng, tier):
    n = {"quick": 700, "thorough": 12000, "search": 500}[tier]
    out = []
    wss = sorted(WS)
    if tier != "search":
        for route in range(3):                       # the documented example by each route
            out.append(sites_case(rng, "w2", DOC_EXAMPLE, route))
        for ws in wss:
            out.append(sites_case(rng, ws, [], 0))
            for k, p in enumerate(SITE_PATTERNS[ws]):    # every entry of the table alone
                out.append(sites_case(rng, ws, [p], k % 3))
    while len(out) < n:
        ws = rng.choice(wss)
        ih = [rand_site_pattern(rng, ws) for _ in range(rng.choice([1, 1, 2, 2, 3, 4]))]
        route = rng.randrange(3)
        ih0 = rand_site_patterns(rng, ws, 0.5) if route else ()
        out.append(sites_case(rng, ws, ih, route, ih0))
    return out


# ---- leg c17.live: unsaved buffers and settings changes ----

def live_case(ws, root, js, c0, changes, script):
    return case(ws, root, js, c0, changes) + " " + (",".join(script) if script else "-")


def live_client(rng, ws):
    """a new configuration for a settings change: mostly one that EXCLUDES something on display"""
    files = ALL_WS[ws]
    m = rng.random()
    if m < 0.14:
        return client(flags_off(0))                                  # master switch off
    if m < 0.30:
        return client(flags_off(1))                                  # CheckSyntax off
    if m < 0.44:                                                     # silence a file / folder (IgnoreFileOrDirError)
        f = rng.choice(files)
        return client(ALL_ON, [], [rng.choice([f, f.split("/")[0] + "/" if "/" in f else f, f[:-4]])])
    if m < 0.56:                                                     # take a file / folder out of the analysis
        f = rng.choice(files)
        return client(ALL_ON, [rng.choice([f, f.split("/")[0] + "/" if "/" in f else f, "^" + f.replace(".", "\\.") + "$"])], [])
    if m < 0.66:                                                     # something unrelated to type 1
        return client(flags_off(rng.randrange(2, NFLAGS)))
    if m < 0.76:
        return client(ALL_ON)
    return rand_client(rng, ws, 0.0)


def gen_live(rng, tier):
    n = {"quick": 1200, "thorough": 25000, "search": 600}[tier]
    out = []
    on = client(ALL_ON)
    if tier != "search":
        # the witness shape on every file of w4 (and one file of each other workspace), for each excluding change,
        # re-edit with and without a new didOpen, and the same with the change NOT excluding type 1
        for ws, idxs in (("w4", range(4)), ("w1", [3]), ("w2", [3]), ("w3", [2])):
            for i in idxs:
                f = ALL_WS[ws][i]
                for c1 in (client(flags_off(1)), client(flags_off(0)), client(ALL_ON, [], [f]), client(ALL_ON, [f], []),
                           client(flags_off(4)), on):
                    for k in (0, 1):
                        again = ("B%d.%d" if k == 0 else "b%d.%d") % (i, k)
                        out.append(live_case(ws, rand_root(rng, 0), None, on, [on, c1], ["c0", "b%d.%d" % (i, k), "c1", again]))
        # the first notification is swallowed whatever it says; luahelper.json rules
        out.append(live_case("w4", rand_root(rng, 0), None, on, [client(flags_off(1))], ["b0.0", "c0", "b0.0"]))
        out.append(live_case("w4", rand_root(rng, 0), jsoncfg(1, [], list(range(22, 30))), on, [on, client(flags_off(1))],
                             ["c0", "b0.0", "c1", "b0.0"]))
    fixed = len(out)
    wss = ["w4"] * 6 + sorted(WS)
    while len(out) < n + fixed:
        ws = rng.choice(wss)
        files = ALL_WS[ws]
        root = rand_root(rng)
        js = None
        if rng.random() < 0.06:
            js = rand_json(rng, ws, 0.0)
        c0 = on if rng.random() < 0.5 else rand_client(rng, ws, 0.0)
        nch = rng.choice([1, 1, 1, 2, 2, 3])
        sync = rng.random() < 0.85
        changes = ([c0] if sync else []) + [live_client(rng, ws) for _ in range(nch)]
        # a didChange without a new didOpen (B/G) is sent only for a file whose didOpen was certainly accepted: it was
        # opened while no ignore-for-analysis rule had been seen yet (the server keeps the text of an accepted didOpen)
        plain = [js is None and c0.split(";")[1] == "_"]
        edited = rng.sample(range(len(files)), rng.choice([1, 1, 2, 3]))
        if ws == "w4" and rng.random() < 0.6 and 0 not in edited:
            edited[0] = 0                                            # the file that is clean on disk
        opened = set()
        script = []

        def edits(k):
            for _ in range(k):
                i = rng.choice(edited)
                broken = rng.random() < 0.75
                if i in opened and rng.random() < 0.5:
                    script.append(("B%d.%d" % (i, rng.randrange(NTEXTS))) if broken else "G%d" % i)
                else:
                    script.append(("b%d.%d" % (i, rng.randrange(NTEXTS))) if broken else "g%d" % i)
                    if plain[0]:
                        opened.add(i)
        first = True
        for j in range(len(changes)):
            if not (first and sync) or rng.random() < 0.25:
                edits(rng.choice([1, 1, 2, 3]))
            script.append("c%d" % j)
            if j > 0 and changes[j].split(";")[1] != "_":          # (the first notification is swallowed)
                plain[0] = False
            first = False
        edits(rng.choice([0, 1, 1, 2]))
        out.append(live_case(ws, root, js, c0, changes, script))
    return out


def nontrivial_live(c):
    """an edit to a text with syntax errors followed, later, by a settings notification"""
    st = c.split(" ")[6].split(",")
    for a, x in enumerate(st):
        if x[0] in "bB" and any(y[0] == "c" for y in st[a + 1:]):
            return True
    return False


def shrink_live(c):
    f = c.split(" ")
    base, script = " ".join(f[:6]), f[6]
    st = script.split(",") if script != "-" else []
    root = bytes.fromhex(f[1]).decode("latin1").split("~")[0]
    for i in range(len(st)):
        r = st[:i] + st[i + 1:]
        g = list(f[:6]); g[1] = hx(root + "~s%d" % i)
        yield " ".join(g) + " " + (",".join(r) if r else "-")
    for cand in shrink_case(base):
        g = cand.split(" ")
        nch = 0 if g[5] == "-" else len(g[5].split("|"))
        if all(int(x[1:]) < nch for x in st if x[0] == "c"):         # a dropped notification would leave a dangling step
            yield cand + " " + script


def describe_live(c):
    return (describe(c) + " script[%s]" % c.split(" ")[6])[:1100]


def live_distribution(rows):
    import collections
    d = collections.Counter()
    for c, i, m, s, k in rows:
        f = c.split(" ")
        st = f[6].split(",") if f[6] != "-" else []
        d["luahelper.json" if f[3] != "-" else "client settings"] += 1
        d["workspace " + f[0]] += 1
        d["steps"] += len(st)
        d["edits to a broken text"] += sum(1 for x in st if x[0] in "bB")
        d["edits to a clean text"] += sum(1 for x in st if x[0] in "gG")
        d["settings notifications"] += sum(1 for x in st if x[0] == "c")
        views = i.split("|")
        if len(views) == len(st) + 1:
            for a, x in enumerate(st):
                if x[0] == "c" and views[a + 1] != "=":
                    d["settings notifications that changed the view"] += 1
        else:
            d["other: " + i[:20]] += 1
    return dict(d)


def nontrivial_sites(c):
    f = c.split(" ")
    return f[3] != "-" and f[3].split(";")[3] != "_" or any(x.split(";")[1] != "_" for x in [f[4]] + (f[5].split("|") if f[5] != "-" else []))


def nontrivial(c):
    f = c.split(" ")
    return not (f[3] == "-" and f[4] == "1" * NFLAGS + ";_;_" and f[5] == "-")


def shrink_case(c):
    """drop changes, drop patterns, switch flags on"""
    f = c.split(" ")[:6]
    ws, root, files, js, c0, chs = f
    count = [0]
    def emit(js=js, c0=c0, chs=chs):
        # every candidate gets its own directory (candidates are evaluated in parallel)
        count[0] += 1
        r = bytes.fromhex(root).decode("latin1").split("~")[0] + "~%d" % count[0]
        return " ".join([ws, hx(r), files, js, c0, chs])
    if chs != "-":
        l = chs.split("|")
        for i in range(len(l)):
            r = l[:i] + l[i + 1:]
            yield emit(chs="|".join(r) if r else "-")
    def shrink_client(s):
        if s.endswith(";L"):
            yield s[:-2]
            return
        fl, ih, ie = s.split(";")
        for lst, idx in ((ih, 1), (ie, 2)):
            if lst != "_":
                e = lst.split(",")
                for i in range(len(e)):
                    r = e[:i] + e[i + 1:]
                    p = [fl, ih, ie]; p[idx] = ",".join(r) if r else "_"
                    yield ";".join(p)
        for i, ch in enumerate(fl):
            if ch == "0":
                yield ";".join([fl[:i] + "1" + fl[i + 1:], ih, ie])
    for s in shrink_client(c0):
        yield emit(c0=s)
    if chs != "-":
        l = chs.split("|")
        for i in range(len(l)):
            for s in shrink_client(l[i]):
                yield emit(chs="|".join(l[:i] + [s] + l[i + 1:]))
    if js != "-":
        p = js.split(";")
        for idx, sep in ((1, "."), (2, "."), (3, ","), (4, ","), (5, ",")):
            if p[idx] != "_":
                e = p[idx].split(sep)
                for i in range(len(e)):
                    r = e[:i] + e[i + 1:]
                    q = list(p); q[idx] = sep.join(r) if r else "_"
                    yield emit(js=";".join(q))


def describe(c):
    f = c.split(" ")
    def names_of(s):
        return [] if s == "_" else [bytes.fromhex(x).decode("latin1") if x != "-" else "" for x in s.split(",")]
    def cl(s):
        fl, ih, ie = s.split(";")[:3]
        off = [i for i, ch in enumerate(fl) if ch == "0"]
        return "off=%s IgnoreFileOrDir=%s IgnoreFileOrDirError=%s%s" % (off, names_of(ih), names_of(ie),
                                                                         " LocalRun" if s.endswith(";L") else "")
    d = "ws=%s root=%s" % (f[0], bytes.fromhex(f[1]).decode())
    if f[3] != "-":
        p = f[3].split(";")
        d += " luahelper.json{ShowWarnFlag=%s IgnoreErrorTypes=%s OpenErrorTypes=%s IgnoreFileOrFloder=%s IgnoreFileErr=%s IgnoreFileErrTypes=%s}" % (
            p[0], p[1], p[2], names_of(p[3]), names_of(p[4]),
            [] if p[5] == "_" else [(names_of(e.split("=")[0])[0], e.split("=")[1]) for e in p[5].split(",")])
    d += " init{%s}" % cl(f[4])
    if f[5] != "-":
        d += " changes[%s]" % " | ".join(cl(x) for x in f[5].split("|"))
    return d[:900]


def distribution(rows, rawcache):
    """what the generated cases looked like (goes into the evidence)"""
    import collections
    route, cls, outcome = collections.Counter(), collections.Counter(), collections.Counter()
    pats = collections.Counter()
    for c, i, m, s, k in rows:
        f = c.split(" ")
        route["luahelper.json" if f[3] != "-" else ("settings-change x%d" % min(3, len(f[5].split("|")) - 1) if f[5] != "-"
                                                    else "initializationOptions")] += 1
        for x in k.split(","):
            cls[x if x != "-" else "none"] += 1
        outcome["crash" if i.startswith("CRASH") else ("no diagnostics" if i == "_" else "diagnostics")] += 1
        pats["with ignore patterns" if ("=E" in f[6] or f[6].count("=") > 1) else "no pattern"] += 1
        if "=E" in f[6]:
            pats["with a pattern that does not compile"] += 1
        if len(f) > 7 and "0" in f[7]:
            pats["some file not analysed"] += 1
    types = set()
    for v in rawcache.values():
        for e in v.split(","):
            p = e.split(":")
            if len(p) >= 4:
                types.add(int(p[1]))
    return {"routes": dict(route), "deviation_classes": dict(cls), "outcomes": dict(outcome), "patterns": dict(pats),
            "raw_runs": len(rawcache), "diagnostic_types_triggered": sorted(types)}


def sites_distribution(rows):
    import collections
    route, outcome = collections.Counter(), collections.Counter()
    for c, i, m, s, k in rows:
        f = c.split(" ")
        route["luahelper.json" if f[3] != "-" else ("settings-change" if f[5] != "-" else "initializationOptions")] += 1
        if i.startswith("S="):
            sm, am = i[2:].split(" A=")
            outcome["some file ignored" if "0" in sm + am else "nothing ignored"] += 1
            outcome["everything ignored"] += (set(sm + am) == {"0"})
        else:
            outcome["other: " + i[:20]] += 1
        if "=E" in f[6]:
            outcome["with an entry that does not compile"] += 1
    return {"routes": dict(route), "outcomes": dict(outcome)}


# an oracle run (raw analysis in a child process) that timed out under machine load leaves the word TIMEOUT in the case and the
# model driver cannot read it (`bad diag`): such a case is skipped, not counted as a correspondence break (seen once in a thorough
# run at load 90; the implementation side of the same case had answered)
_oracle_timeout = lambda m: m.startswith("MODEL-EXN Failure(\"bad diag\")")
LEG = Leg("c17.filter", gen_filter, nontrivial=nontrivial, shrink=shrink_case, per_case_s=3.0, describe=describe, skip_model=_oracle_timeout)
LEG_SITES = Leg("c17.sites", gen_sites, nontrivial=nontrivial_sites, shrink=shrink_case, per_case_s=3.0, describe=describe, skip_model=_oracle_timeout)
LEG_LIVE = Leg("c17.live", gen_live, nontrivial=nontrivial_live, shrink=shrink_live, per_case_s=3.0, describe=describe_live, skip_model=_oracle_timeout)
LEGS = [LEG_LIVE, LEG_SITES, LEG]

# The model variant (one boolean per fix: commit) follows the code through the translator (coq/Generated/GenFlags.v ->
# Tie.fixes_now); C17_FIXED in the environment overrides it (see ocaml/c17_run.ml).
MODEL_ENV = {"C17_FIXED": os.environ["C17_FIXED"]} if "C17_FIXED" in os.environ else {}


class C17Runner(vlib.Runner):
    """eval_cases with the three oracle stages of leg c17.filter"""
    rawcache = {}

    def eval_cases(self, leg, cases):
        if leg.name not in ("c17.filter", "c17.sites", "c17.live"):
            return super().eval_cases(leg, cases)
        menv = dict(os.environ, **MODEL_ENV)
        if leg.name == "c17.live":
            return self.eval_live(leg, cases, menv)
        base = [" ".join(c.split(" ")[:6]) for c in cases]
        # stage 1: Go regexp on every (pattern, name) pair of the case
        re = run_worker([self.impl_exe, "c17.re"], base, 0.05)
        c1 = [c + " " + r for c, r in zip(base, re)]
        if leg.name == "c17.sites":
            impl = run_worker([self.impl_exe, "c17.sites"], c1, leg.per_case_s, jobs=min(vlib.NCPU, max(1, len(c1) // 4)))
            mod = run_worker([self.model_exe, "c17.sites"], c1, 0.05, env=menv)
            rows = []
            for c, i, m in zip(c1, impl, mod):
                parts = m.split("\t")
                while len(parts) < 3:
                    parts.append("-")
                rows.append((c, i, parts[0], parts[1], parts[2]))
            return rows
        # stage 2: which files are analysed at all (model)
        mask = run_worker([self.model_exe, "c17.handled"], c1, 0.05, env=menv)
        # stage 3: the everything-enabled run over exactly those files (one run per distinct (workspace, mask))
        keys = []
        for c, m in zip(base, mask):
            k = c.split(" ")[0] + " " + m
            if set(m) <= {"0", "1"} and m and k not in self.rawcache and k not in keys:
                keys.append(k)
        if keys:
            outs = run_worker([self.impl_exe, "c17.raw"], keys, 3.0, jobs=min(vlib.NCPU, len(keys)))
            for k, o in zip(keys, outs):
                self.rawcache[k] = o
        c2 = []
        for c, m in zip(c1, mask):
            raw = self.rawcache.get(c.split(" ")[0] + " " + m, "RAW-UNAVAILABLE")
            c2.append(c + " " + m + " " + raw)
        impl = run_worker([self.impl_exe, "c17.filter"], c2, leg.per_case_s, jobs=min(vlib.NCPU, max(1, len(c2) // 4)))
        mod = run_worker([self.model_exe, "c17.filter"], c2, 0.05, env=menv)
        rows = []
        for c, i, m in zip(c2, impl, mod):
            parts = m.split("\t")
            while len(parts) < 3:
                parts.append("-")
            rows.append((c, i, parts[0], parts[1], parts[2]))
        return rows

    syncache = None

    def eval_live(self, leg, cases, menv):
        """oracle stages of leg c17.live: Go regexp table -> sets of analysed files the history meets (model) -> the
        everything-enabled run for each of them; plus the syntax errors of the probe texts"""
        base = [" ".join(c.split(" ")[:7]) for c in cases]
        if C17Runner.syncache is None:
            outs = run_worker([self.impl_exe, "c17.syn"], [str(k) for k in range(NTEXTS)], 3.0, jobs=min(vlib.NCPU, NTEXTS))
            C17Runner.syncache = ",".join("%d=%s" % (k, o) for k, o in enumerate(outs))
        syn = C17Runner.syncache
        re = run_worker([self.impl_exe, "c17.re"], base, 0.05)
        c1 = [c + " " + r for c, r in zip(base, re)]
        masks = run_worker([self.model_exe, "c17.live.masks"], c1, 0.05, env=menv)
        keys = []
        for c, ms in zip(base, masks):
            for m in ms.split(","):
                k = c.split(" ")[0] + " " + m
                if set(m) <= {"0", "1"} and m and k not in self.rawcache and k not in keys:
                    keys.append(k)
        if keys:
            outs = run_worker([self.impl_exe, "c17.raw"], keys, 3.0, jobs=min(vlib.NCPU, len(keys)))
            for k, o in zip(keys, outs):
                self.rawcache[k] = o
        c2 = []
        for c, ms in zip(c1, masks):
            ws = c.split(" ")[0]
            tab = "/".join("%s=%s" % (m, self.rawcache.get(ws + " " + m, "RAW-UNAVAILABLE")) for m in ms.split(","))
            c2.append(c + " " + tab + " " + syn)
        impl = run_worker([self.impl_exe, "c17.live"], c2, leg.per_case_s, jobs=min(vlib.NCPU, max(1, len(c2) // 4)))
        mod = run_worker([self.model_exe, "c17.live"], c2, 0.05, env=menv)
        rows = []
        for c, i, m in zip(c2, impl, mod):
            parts = m.split("\t")
            while len(parts) < 3:
                parts.append("-")
            rows.append((c, i, parts[0], parts[1], parts[2]))
        return rows

    def shrink(self, leg, rec, budget_s=60):
        # candidates are base cases (6 fields); the completed case is much longer, so compare on the base part
        if not leg.shrink:
            return rec
        import time
        t0 = time.time()
        cur = rec
        improved = True
        while improved and time.time() - t0 < budget_s:
            improved = False
            cands = list(leg.shrink(cur["case"]))[:200]
            if not cands:
                break
            rows = self.eval_cases(leg, cands)
            nb = 7 if leg.name == "c17.live" else 6
            curlen = len(" ".join(cur["case"].split(" ")[:nb]))
            for row in rows:
                kind, _ = self.classify(leg, row)
                if kind == cur["kind"] or (cur["kind"] == "corr+violation" and kind == "unlisted"):
                    if len(" ".join(row[0].split(" ")[:nb])) < curlen:
                        cur = {"leg": leg.name, "case": row[0], "impl": row[1], "model": row[2], "spec": row[3],
                               "class": row[4], "kind": kind, "described": leg.describe(row[0]),
                               "shrunk_from": rec["case"][:2000]}
                        improved = True
                        break
        return cur


TRUSTED = vlib.TRUSTED_COMMON + [
    "oracle: Go regexp (Section variables re_ok / re_match; every theorem holds for any regexp engine); the leg c17.re calls package regexp directly",
    "oracle: raw = diagnostics of the everything-enabled run over the analysed files (Section variable; leg c17.raw runs the real server with luahelper.json {IgnoreErrorTypes:[], OpenErrorTypes:[22..29]}, the files not analysed excluded by their literal names)",
    "oracle: the syntax errors of the six probe texts an unsaved buffer is changed to (leg c17.syn: the real server, every check enabled, one clean file, didOpen + didChange); in the theorems the errors of an edit are arbitrary diagnostics of the edited file of type 1 (edits_wf)",
    "modelled, tied by correspondence (leg c17.live): TextDocumentDidChange (IsNeedHandle, HandleFileChangeAnalysis -> InsertError -> IsIgnoreErrorFile, InsertChangeFileErr / ClearChangeFileErr / ClearFileSyntaxErr), handleChange (clearLspServer, re-analysis from disk, pushAllDiagnosticsAgain), fileErrorMap / fileChangeErrorMap; tied by translator: the statements of clearLspServer (GenFlags.settings_clear_steps -> Tie fx_live_now)",
    "hand table validated by correspondence only: produced_in / cross_types (which pass emits which type); for the variants before the repairs also global_prereq (17 behind 4, 24 behind 10) and the type-11 reference table of the test workspaces (harness/c17_ws.go c17Refs)",
    "modelled, tied by correspondence: handleNotJSONCheckFlag, HandleChangeCheckList, ReadConfig (json branch), ChangeConfiguration (first notification swallowed), IsIgnoreErrorFile, isIgnoreFloder/isIgnoreFile/isIgnoreRelFile + directory walk (getAllFile) + per-file predicate (IsIgnoreCompleteFile behind IsNeedHandle; leg c17.sites), IsSpecialCheck + HandleCheck gate",
    "tied by translator (coq/Generated/GenFlags.v, GenErrTypes.v -> Tie/TieConfig.v): order of getCheckFlagList / getWarnCheckList, json tags of InitializationOptions / WarnParams, errTypeList of IsSpecialCheck (covers every cross-file type), error type constants, open_required (= the types looked up in OpenErrorTypeMap by check/analysis), the table of every IsGlobalIgnoreErrType / IsIgnoreErrorFile use inside check/analysis (repaired shape), the OpenErrorTypeMap write of handleNotJSONCheckFlag, the IgnoreFileErrTypesMap read of ReadConfig, which ignore helper getAllFile / IsIgnoreCompleteFile / isIgnoreRelFile call; Properties/C17.v C17_code_is_deployed_variant: fixes_now = deployed",
]
ASSUMPTIONS = [
    "types 25, 27 are never triggered by the test workspaces (the model's rules for them are read from the code, not exercised); type 24 only by workspace w3",
    "project entry files (luahelper.json ProjectFiles, second-pass mode) are outside the modelled fragment; malformed JSON text of luahelper.json is not modelled (observed: initialize answers with an error, the server stays up)",
    "client protocol: the first workspace/didChangeConfiguration after initialize repeats the initializationOptions (vscode-languageclient synchronize); the server swallows it",
    "LocalRun is modelled only as far as the nil-map fault at initialize goes (the test workspaces use no system globals, so the system-module list it installs does not change their diagnostics)",
    "pattern matching is on the absolute file name (IsIgnoreErrorFile) resp. the names relative to the workspace (ignore for analysis: the file's name with and without the leading separator and the folders on its way), as in the code; the spec uses the same names; the spec of the ignore-for-analysis rules does NOT use the code's classification of the entries by a literal '.lua' suffix",
    "leg c17.live: an edit is didOpen (the text on disk) followed by didChange with the full new text (B/G steps: didChange only, generated only where no ignore-for-analysis rule occurs in the case); histories contain edits and settings notifications only - saves, closes and watched-file events (which re-analyse single files and are the subject of C08) do not occur; a settings change that takes effect is specified as a fresh start from disk: the syntax errors of a still-unsaved buffer that the new configuration allows come back with the next edit, not at once (what the code does, before and after the repair, for files with saved diagnostics)",
    "leg c17.sites observes 'scanned by the walk' as 'the client holds diagnostics of the file' (every switch on, no silencing rule, every file of the test workspaces has a diagnostic of its own) and 'accepted by IsNeedHandle' as 'a didOpen + didChange probe yields a diagnostic on the probe line'; only files of the main workspace folder (sub-directories configured elsewhere and the client's extra Lua path are walked without ignore rules in the code and are outside the model)",
]


def main(tier, seed):
    r = C17Runner("C17", tier, seed)
    r.build(ties=("TieConfig",))
    can_run = r.can_run()
    extra = {}
    if can_run:
        global VARIANT
        v = run_worker([r.model_exe, "c17.variant"], ["-"], 0.05, env=dict(os.environ, **MODEL_ENV))
        if v and len(v[0]) == 7 and set(v[0]) <= {"0", "1"}:
            VARIANT = v[0]
        extra["model_variant"] = {"regexp gate coupled dead dup sites live": VARIANT}
        os.makedirs("/tmp/lhc17", exist_ok=True)
        r.replay_findings({l.name: l for l in LEGS})
        for leg in LEGS:
            rows = r.run_leg(leg)
            if leg.name == "c17.filter":
                extra["input_distribution"] = distribution(rows, r.rawcache)
            elif leg.name == "c17.live":
                extra["live_distribution"] = live_distribution(rows)
            else:
                extra["sites_distribution"] = sites_distribution(rows)
    LEG_RULE = ("non-trivial = anything but 'every switch on, no pattern, no luahelper.json, no change'; observable = sorted "
                "(file, type, line, column) of the client's final publishDiagnostics view, or CRASH <reason>")
    SITES_RULE = ("non-trivial = at least one ignore-for-analysis entry; observable = per file of the workspace: holds "
                  "diagnostics after the (last) walk / answers the didOpen+didChange probe")
    LIVE_RULE = ("non-trivial = an edit to a text with syntax errors followed, later, by a settings notification; observable = "
                 "the client's publishDiagnostics view (sorted file, type, line, column) after initialize and after every step")
    for st in r.leg_stats:
        st["rule"] = {"c17.sites": SITES_RULE, "c17.live": LIVE_RULE}.get(st.get("leg"), LEG_RULE)
    return r.finish(LEGS, extra_cov=extra, trusted=TRUSTED, assumptions=ASSUMPTIONS)
