# C14 - completion offers the names that are in scope at the cursor, and only those (DESIGN 5, binder family).
# Deciding leg: uniquely named declarations (a label then stands for one declaration), completion at every prefix end
# of every identifier.  c14.corr: ordinary programs (shadowing, re-declaration), correspondence only (no spec column).
import c05
from vlib import Leg

# ---- names that START with a reserved word (seeded/C14-6: StrToDefineVarStruct whitelists a typed prefix that is exactly a
# reserved word / snippet label before it hands the text to the expression parser; the look-up of the reserved-word table was
# lost, so the prefix `in` of `index1`, `or` of `order1`, `end` of `endpoint1` ... made completion answer nothing).  prefix_steps
# asks at EVERY prefix end of every identifier: exactly at the reserved word, one character shorter and one longer are all there.
# No name of the pools is itself a reserved word, a snippet label or a Lua library name (precondition of the leg).
KW_STEMS = ["and", "break", "end", "goto", "in", "local", "not", "or", "return", "until", "nil", "true", "false",
            "if", "else", "elseif", "for", "do", "while", "repeat", "function"]                  # the last eight: controls (snippet labels)
# `then` is the one reserved word that is in NEITHER table of the unchanged code (common/global_conf.go: CompKeyMap lists `local`
# twice and `then` never): a typed prefix that is exactly `then` (of then_1, thenx, thenable ...) goes to the expression parser,
# fails there and completion answers NOTHING - finding C14-then-prefix, reported to the lead; those names live in the exploratory
# leg c14.then (deviations recorded in the evidence, not deciding) until the table is repaired and the model / a class says so
KW_TAILS = ["x", "y", "_", "dex", "er", "ify", "able", "ish", "point", "ed", "1", "s"]
KW_LOCALS = ["index1", "order1", "endpoint1", "notify1", "localx", "returned2", "untilx", "nilable", "trueish", "falsey", "andy",
             "breaker", "gotox", "inx", "orx", "endx", "doer", "ifx", "format1"]
KW_GLOBALS = ["Index", "orders", "ending", "notes", "locale", "inbox", "android", "nilG", "untilG", "returnG", "gotoG", "breakG"]


class KwNames:
    """mixin for c05.ProgGen / c05.WideGen: declared names start with reserved words"""

    stems = KW_STEMS

    def fresh(self, kind="v"):
        r = self.r
        if self.unique:
            self.counter += 1
            return "%s%s%d" % (r.choice(self.stems[:13] if r.random() < 0.8 else self.stems), r.choice(KW_TAILS + ["", ""]), self.counter)
        return r.choice(KW_LOCALS) if r.random() < 0.8 else r.choice(c05.LOCALS)


class KwProg(KwNames, c05.ProgGen):
    pass


class KwWide(KwNames, c05.WideGen):
    pass


class ThenProg(KwNames, c05.ProgGen):
    stems = ["then", "then", "in", "the"]


def gen_then(rng, tier):
    return kw_cases(rng, tier, 8, True, ThenProg)


def kw_workspace(rng, unique, cls):
    nfiles = rng.choice([1, 1, 1, 2])
    gp = list(KW_GLOBALS)
    rng.shuffle(gp)
    out = []
    for fi, fn in enumerate(["a.lua", "b.lua"][:nfiles]):
        pool = gp[fi::nfiles]
        g = cls(rng, unique=unique, globals_pool=pool, define_globals=True, size=rng.choice([6, 10, 14]))
        toks = g.chunk()
        if nfiles > 1:
            for _ in range(rng.choice([1, 2])):
                toks += [rng.choice(c05.UNDEF), "(", rng.choice([x for x in gp if x not in pool]), ")"]
        text, pos = c05.render(toks, rng)
        out.append((fn, text, c05.ident_positions(pos)))
    return out


def kw_cases(rng, tier, quick, unique, cls):
    out = []
    for _ in range(c05.n_programs(tier, quick=quick)):
        ws = kw_workspace(rng, unique, cls)
        out.append(c05.make_case([(fn, text) for fn, text, _ in ws], c05.prefix_steps(ws)))
    return out


KW_SEED = ("local index1 = 1\nlocal order1 = 2\nlocal function endpoint1(notify1, localx)\n  local returned2 = notify1\n"
           "  for untilx = 1, 3 do\n    use(index1, order1, untilx)\n  end\n  for nilable, trueish in iter(localx) do\n"
           "    use(nilable, trueish, returned2)\n  end\n  return endpoint1\nend\nandroid = index1\nuse(android, gotox, breaker, falsey)\n")


def kw_seed_case():
    import re
    pos = [(m.group(0), li, m.start()) for li, ln in enumerate(KW_SEED.split("\n")) for m in re.finditer(r"[A-Za-z_][A-Za-z0-9_]*", ln)]
    ws = [("a.lua", KW_SEED, c05.ident_positions(pos))]
    return c05.make_case([("a.lua", KW_SEED)], c05.prefix_steps(ws))


def gen_complete(rng, tier):
    out = []
    for _ in range(c05.n_programs(tier, quick=300)):
        ws = c05.gen_workspace(rng, unique=True)
        out.append(c05.make_case([(fn, text) for fn, text, _ in ws], c05.prefix_steps(ws)))
    return [kw_seed_case()] + out + kw_cases(rng, tier, 30, True, KwProg)


def gen_corr(rng, tier):
    out = []
    for _ in range(c05.n_programs(tier, quick=150)):
        ws = c05.gen_workspace(rng)
        out.append(c05.make_case([(fn, text) for fn, text, _ in ws], c05.prefix_steps(ws)))
    return out + kw_cases(rng, tier, 15, False, KwProg)


def gen_complete_wide(rng, tier):
    out = []
    for _ in range(c05.n_programs(tier, quick=100)):
        ws = c05.gen_wide_workspace(rng, unique=True)
        out.append(c05.make_case([(fn, text) for fn, text, _ in ws], c05.prefix_steps(ws)))
    for ws in c05.chain_workspaces(rng, tier, 12, unique=True):     # call-chain STATEMENTS with callbacks (seeded C05-5)
        out.append(c05.make_case([(fn, text) for fn, text, _ in ws], c05.prefix_steps(ws)))
    return out + kw_cases(rng, tier, 12, True, KwWide)


def gen_corr_wide(rng, tier):
    out = []
    for _ in range(c05.n_programs(tier, quick=60)):
        ws = c05.gen_wide_workspace(rng)
        out.append(c05.make_case([(fn, text) for fn, text, _ in ws], c05.prefix_steps(ws)))
    for ws in c05.chain_workspaces(rng, tier, 6):
        out.append(c05.make_case([(fn, text) for fn, text, _ in ws], c05.prefix_steps(ws)))
    return out + kw_cases(rng, tier, 8, False, KwWide)


LEGS = [
    Leg("c14.complete", gen_complete, nontrivial=c05.nontrivial, describe=c05.describe, per_case_s=1.5,
        skip_model=c05.skip_model),
    Leg("c14.corr", gen_corr, nontrivial=c05.nontrivial, describe=c05.describe, per_case_s=1.5,
        skip_model=c05.skip_model),
    c05.wide_leg("c14.wide", "c14.complete", gen_complete_wide),
    c05.wide_leg("c14.widecorr", "c14.corr", gen_corr_wide),
]
# names starting with `then` (finding C14-then-prefix, fixed by 0a8e83e: `then` was missing from the completion keyword table, a typed
# prefix `then` answered nothing); deciding since the repair: a regression of the table shows here
THEN_LEG = Leg("c14.then", gen_then, nontrivial=c05.nontrivial, describe=c05.describe, per_case_s=1.5, skip_model=c05.skip_model)
THEN_LEG.run_as, THEN_LEG.impl_as = "c14.complete", "srv.script"
LEGS.append(THEN_LEG)


def main(tier, seed):
    return c05.run_family("C14", LEGS, tier, seed, assume_extra=[
        "every reserved word is a prefix of declared names of the deciding legs (incl. `then`, leg c14.then, since fix 0a8e83e)"])
