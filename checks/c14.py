# C14 - completion offers the names that are in scope at the cursor, and only those (DESIGN 5, binder family).
# Deciding leg: uniquely named declarations (a label then stands for one declaration), completion at every prefix end
# of every identifier.  c14.corr: ordinary programs (shadowing, re-declaration), correspondence only (no spec column).
import c05
from vlib import Leg


def gen_complete(rng, tier):
    out = []
    for _ in range(c05.n_programs(tier, quick=300)):
        ws = c05.gen_workspace(rng, unique=True)
        out.append(c05.make_case([(fn, text) for fn, text, _ in ws], c05.prefix_steps(ws)))
    return out


def gen_corr(rng, tier):
    out = []
    for _ in range(c05.n_programs(tier, quick=150)):
        ws = c05.gen_workspace(rng)
        out.append(c05.make_case([(fn, text) for fn, text, _ in ws], c05.prefix_steps(ws)))
    return out


def gen_complete_wide(rng, tier):
    out = []
    for _ in range(c05.n_programs(tier, quick=100)):
        ws = c05.gen_wide_workspace(rng, unique=True)
        out.append(c05.make_case([(fn, text) for fn, text, _ in ws], c05.prefix_steps(ws)))
    for ws in c05.chain_workspaces(rng, tier, 12, unique=True):     # call-chain STATEMENTS with callbacks (seeded C05-5)
        out.append(c05.make_case([(fn, text) for fn, text, _ in ws], c05.prefix_steps(ws)))
    return out


def gen_corr_wide(rng, tier):
    out = []
    for _ in range(c05.n_programs(tier, quick=60)):
        ws = c05.gen_wide_workspace(rng)
        out.append(c05.make_case([(fn, text) for fn, text, _ in ws], c05.prefix_steps(ws)))
    for ws in c05.chain_workspaces(rng, tier, 6):
        out.append(c05.make_case([(fn, text) for fn, text, _ in ws], c05.prefix_steps(ws)))
    return out


LEGS = [
    Leg("c14.complete", gen_complete, nontrivial=c05.nontrivial, describe=c05.describe, per_case_s=1.5,
        skip_model=c05.skip_model),
    Leg("c14.corr", gen_corr, nontrivial=c05.nontrivial, describe=c05.describe, per_case_s=1.5,
        skip_model=c05.skip_model),
    c05.wide_leg("c14.wide", "c14.complete", gen_complete_wide),
    c05.wide_leg("c14.widecorr", "c14.corr", gen_corr_wide),
]


def main(tier, seed):
    return c05.run_family("C14", LEGS, tier, seed)
