package main

// C18 legs: the real common.FileIndexInfo, common.GetBestMatchReferFile and results.FileResult.CheckReferFile,
// and (c18.project) a real check.AllProject analysing a real directory tree and receiving file events.

import (
	"fmt"
	"os"
	"path/filepath"
	"regexp"
	"sort"
	"strconv"
	"strings"
	"sync"

	"luahelper-lsp/langserver/check"
	"luahelper-lsp/langserver/check/common"
	"luahelper-lsp/langserver/check/compiler/lexer"
	"luahelper-lsp/langserver/check/results"
	"luahelper-lsp/langserver/stringutil"
)

func c18DumpMap(m map[string]string) string {
	es := make([]string, 0, len(m))
	for k, v := range m {
		es = append(es, hx([]byte(k))+">"+hx([]byte(v)))
	}
	sort.Strings(es)
	return strings.Join(es, "+")
}

func c18Opt(h string) string {
	if h == "-" {
		return ""
	}
	return string(unhex(h))
}

func c18Split(s string) []string {
	if s == "-" || s == "" {
		return nil
	}
	return strings.Split(s, ",")
}

var c18ConfOnce sync.Once

func c18InitConf() {
	c18ConfOnce.Do(func() {
		common.GlobalConfigDefautInit()
		common.GConfig.IntialGlobalVar()
		flags := make([]bool, 64)
		for i := range flags {
			flags[i] = true
		}
		// what Initialize does with the client's options when there is no luahelper.json: every check on
		common.GConfig.HandleChangeCheckList(flags, nil, nil)
	})
}

// relativise a path for printing
func c18Rel(root, p string) string {
	if strings.HasPrefix(p, root+"/") {
		return hx([]byte(p[len(root)+1:]))
	}
	return "!" + hx([]byte(p))
}

func c18Set(m map[string]bool) string {
	l := make([]string, 0, len(m))
	for k := range m {
		l = append(l, k)
	}
	sort.Strings(l)
	return "{" + strings.Join(l, "|") + "}"
}

type c18Tree struct {
	root    string
	indexed []string // absolute paths inserted into the index, in case order
	disk    []string
}

// files = comma-joined <L|D|X><hex rel>: L on disk + indexed, D disk only, X indexed only
func c18MakeTree(rootHex, files string) (*c18Tree, error) {
	root := string(unhex(rootHex))
	if !strings.HasPrefix(root, "/tmp/lhv18/") || strings.Contains(root, "..") || strings.Contains(root, ".") {
		return nil, fmt.Errorf("root outside /tmp/lhv18")
	}
	// /tmp/lhv18/<token>/ws is realised as /tmp/lhv18/<token>_<pid>/ws so that concurrent runs of the same case
	// (committed witnesses have fixed tokens) cannot share a directory; answers are printed relative to the root
	parts := strings.Split(root, "/")
	if len(parts) < 5 {
		return nil, fmt.Errorf("root too short")
	}
	parts[3] = parts[3] + "_" + strconv.Itoa(os.Getpid())
	root = strings.Join(parts, "/")
	os.RemoveAll(strings.Join(parts[:4], "/"))
	t := &c18Tree{root: root}
	if err := os.MkdirAll(root, 0o755); err != nil {
		return nil, err
	}
	for _, it := range c18Split(files) {
		kind, rel := it[0], string(unhex(it[1:]))
		abs := root + "/" + rel
		if kind == 'L' || kind == 'D' {
			if err := os.MkdirAll(filepath.Dir(abs), 0o755); err != nil {
				return nil, err
			}
			if err := os.WriteFile(abs, []byte("-- "+rel+"\n"), 0o644); err != nil {
				return nil, err
			}
			t.disk = append(t.disk, abs)
		}
		if kind == 'L' || kind == 'X' {
			t.indexed = append(t.indexed, abs)
		}
	}
	return t, nil
}

// the directory two levels above .../ws is the per-case scratch directory /tmp/lhv18/<token>
func (t *c18Tree) cleanup() {
	parts := strings.Split(t.root, "/")
	if len(parts) >= 4 {
		os.RemoveAll(strings.Join(parts[:4], "/"))
	}
}

func init() {
	// case: "<probes: hex,hex,...> <ops: i<hex>|r<hex>,...>"; observable: both index maps of every probe after every op
	indexLeg := func(line string) string {
		f := strings.Fields(line)
		probes := c18Split(f[0])
		idx := common.CreateFileIndexInfo()
		steps := []string{}
		for _, o := range c18Split(f[1]) {
			p := string(unhex(o[1:]))
			if o[0] == 'i' {
				idx.InsertOneFile(p)
			} else {
				idx.RemoveOneFile(p)
			}
			ps := []string{}
			for _, ph := range probes {
				n := string(unhex(ph))
				ps = append(ps, "N["+c18DumpMap(idx.GetFileNameMap(n))+"]P["+c18DumpMap(idx.GetPreFileNameMap(n))+"]")
			}
			steps = append(steps, strings.Join(ps, "|"))
		}
		return strings.Join(steps, ";")
	}
	register("c18.index", indexLeg)
	register("c18.index_any", indexLeg) // same leg, exploratory generator (relative paths)

	// case: "<root hex> <exact 0|1> <kind r|d|l|f|g> <cur rel hex> <refer hex> <files> <ignored refer strings hex,..|->"
	// observable: valid=V err6=E res={set of resolved files over repetitions}
	register("c18.resolve", func(line string) string {
		f := strings.Fields(line)
		c18InitConf()
		t, err := c18MakeTree(f[0], f[5])
		if err != nil {
			return "SETUP-ERROR " + err.Error()
		}
		defer t.cleanup()
		g := common.GConfig
		g.ReferMatchPathFlag = f[1] == "1"
		g.IgnoreReferFileMap = map[string]bool{}
		for _, h := range c18Split(f[6]) {
			g.IgnoreReferFileMap[string(unhex(h))] = true
		}
		dm := g.GetDirManager()
		dm.SetVSRootDir(t.root)
		dm.InitMainDir()
		typeStr, rtype := "require", common.ReferType(common.ReferTypeRequire)
		switch f[2] {
		case "d":
			typeStr, rtype = "dofile", common.ReferTypeDofile
		case "l":
			typeStr, rtype = "loadfile", common.ReferTypeLoadfile
		case "f":
			typeStr, rtype = "import", common.ReferTypeFrame
			common.VerifC18SetReferFrame("import", 1)
		case "g":
			typeStr, rtype = "import", common.ReferTypeFrame
			common.VerifC18SetReferFrame("import", 0)
		}
		cur := t.root + "/" + string(unhex(f[3]))
		refer := string(unhex(f[4]))
		res := map[string]bool{}
		flags := map[string]bool{}
		for rep := 0; rep < 6; rep++ {
			idx := common.CreateFileIndexInfo()
			all := map[string]string{}
			n := len(t.indexed)
			for k := 0; k < n; k++ {
				p := t.indexed[(k+rep)%n] // vary the insertion order (map layout)
				idx.InsertOneFile(p)
				all[p] = common.CompleteFilePathToPreStr(p)
			}
			g.ClearCacheFileMap()
			fr := results.CreateFileResult(cur, nil, results.CheckTermFirst, "")
			ri := &common.ReferInfo{ReferTypeStr: typeStr, ReferType: rtype, ReferStr: refer, Valid: true,
				Loc: lexer.Location{StartLine: 1, EndLine: 1, EndColumn: 1}}
			fr.CheckReferFile(ri, all, idx)
			e6 := false
			for _, e := range fr.CheckErrVec {
				if e.ErrType == common.CheckErrorNoFile {
					e6 = true
				}
			}
			flags["valid="+b2s(ri.Valid)+" err6="+b2s(e6)] = true
			if ri.ReferValidStr != "" {
				res[c18Rel(t.root, ri.ReferValidStr)] = true
			}
		}
		if len(flags) != 1 {
			return "NONDET-FLAGS " + c18Set(flags)
		}
		for k := range flags {
			return k + " res=" + c18Set(res)
		}
		return "?"
	})

	// oracle-free helper leg: the tail of stringutil.GetOpenFileStr on a synthesized line.
	// case: "<call: r|d|i> <text between the quotes, hex>"; observable: candidate list
	register("c18.openlist", func(line string) string {
		f := strings.Fields(line)
		c18InitConf()
		s := string(unhex(f[1]))
		pre := map[string]string{"r": "local m = require(\"", "d": "dofile(\"", "i": "import(\""}[f[0]]
		src := pre + s + "\")"
		out := stringutil.GetOpenFileStr([]byte(src), len(pre), len(pre), []string{"import"})
		hs := []string{}
		for _, o := range out {
			hs = append(hs, hx([]byte(o)))
		}
		return "[" + strings.Join(hs, ",") + "]"
	})

	// ---- the string under the cursor: the whole stringutil.GetOpenFileStr on a synthesized document ----
	// case: "<pre hex|-> <line hex> <post hex|-> <col> <ch> <refer names hex,..|->" (+ the oracle's two tokens, ignored here)
	// document = pre + line + post (pre ends with a line break or is empty, post starts with one or is empty);
	// cursor = byte column col of the line, pos.Character = ch. Observable: the candidate list.
	register("c18.cursor", func(line string) string {
		f := strings.Fields(line)
		pre, ln, post := c18Opt(f[0]), string(unhex(f[1])), c18Opt(f[2])
		col, _ := strconv.Atoi(f[3])
		ch, _ := strconv.Atoi(f[4])
		refers := []string{}
		for _, h := range c18Split(f[5]) {
			refers = append(refers, string(unhex(h)))
		}
		out := stringutil.GetOpenFileStr([]byte(pre+ln+post), len(pre)+col, ch, refers)
		hs := []string{}
		for _, o := range out {
			hs = append(hs, hx([]byte(o)))
		}
		return "[" + strings.Join(hs, ",") + "]"
	})

	// oracle of c18.cursor: Go's regular-expression engine on the line, for the expressions of GetOpenFileStr as they
	// are since fixes/C18-string-cursor.diff ("new:") and as they were before it ("old:": the dofile expression took
	// double quotes only). Per pattern, in the order the code tries them (D dofile, R require, then L / I = import
	// with / without a ?lua text per configured name): the matches as start.stop.qs.qe (qs, qe: the first quoted
	// literal inside the matched text, 0.0 if none).
	register("c18.cursor_rx", func(line string) string {
		f := strings.Fields(line)
		ln := string(unhex(f[1]))
		refers := []string{}
		for _, h := range c18Split(f[5]) {
			refers = append(refers, string(unhex(h)))
		}
		regFen := regexp.MustCompile("[\\\"|\\'][0-9a-zA-Z_/\\.\\-]+[\\\"|\\']")
		group := func(tag string, re *regexp.Regexp) string {
			os := []string{}
			for _, loc := range re.FindAllStringIndex(ln, -1) {
				qs, qe := 0, 0
				if q := regFen.FindStringIndex(ln[loc[0]:loc[1]]); q != nil {
					qs, qe = q[0], q[1]
				}
				os = append(os, fmt.Sprintf("%d.%d.%d.%d", loc[0], loc[1], qs, qe))
			}
			if len(os) == 0 {
				return tag + "=-"
			}
			return tag + "=" + strings.Join(os, "+")
		}
		set := func(dofile string) string {
			gs := []string{group("D", regexp.MustCompile(dofile)),
				group("R", regexp.MustCompile("require *?(\\()? *?[\\\"|\\'][0-9a-zA-Z_/\\-|.]+[\\\"|\\'] *?(\\))?"))}
			for _, r := range refers {
				gs = append(gs, group("L", regexp.MustCompile(regexp.QuoteMeta(r)+" *?(\\()? *?[\\\"|\\'][0-9a-zA-Z_/|.\\-]+.lua+[\\\"|\\'] *?(\\))?")))
				gs = append(gs, group("I", regexp.MustCompile(regexp.QuoteMeta(r)+" *?(\\()? *?[\\\"|\\'][0-9a-zA-Z_/|.\\-]+[\\\"|\\'] *?(\\))?")))
			}
			return strings.Join(gs, "|")
		}
		return "new:" + set("dofile *?\\( *?[\\\"|\\'][0-9a-zA-Z_/\\-]+.lua[\\\"|\\'] *?\\)") +
			" old:" + set("dofile *?\\( *?\\\"[0-9a-zA-Z_/\\-]+.lua\\\" *?\\)")
	})

	// case: "<root hex> <files L|D<relhex>,..> <cur rel hex> <refs r|q|d|D<hex>,..> <events c|d<relhex>,..|->"
	// a real AllProject over a real directory: first analysis, then one HandleFileEventChanges per event;
	// after each: per reference of cur  err6:valid:{loaded}:{definition files}:{hover candidates}
	// An event may be a BATCH `<ev>+<ev>+..` (leg c18.batch): the disk operations are performed in this order, then ONE
	// HandleFileEventChanges call gets all the events (what one workspace/didChangeWatchedFiles notification becomes);
	// the same path may occur several times in a batch. m<relhex> = the file is rewritten, Changed event.
	projectLeg := func(line string) string {
		f := strings.Fields(line)
		t, err := c18MakeTree(f[0], f[1])
		if err != nil {
			return "SETUP-ERROR " + err.Error()
		}
		defer t.cleanup()
		curRel := string(unhex(f[2]))
		cur := t.root + "/" + curRel
		type ref struct {
			kind byte
			s    string
			col  int
			off  int
		}
		refs := []ref{}
		src := ""
		for i, r := range c18Split(f[3]) {
			s := string(unhex(r[1:]))
			pre, post := fmt.Sprintf("local m%d = require(\"", i), "\")\n"
			switch r[0] {
			case 'q':
				pre, post = fmt.Sprintf("local m%d = require '", i), "'\n"
			case 'd':
				pre = "dofile(\""
			case 'D':
				pre, post = "dofile('", "')\n"
			}
			refs = append(refs, ref{r[0], s, len(pre), len(src) + len(pre)})
			src += pre + s + post
		}
		if err := os.MkdirAll(filepath.Dir(cur), 0o755); err != nil {
			return "SETUP-ERROR " + err.Error()
		}
		if err := os.WriteFile(cur, []byte(src), 0o644); err != nil {
			return "SETUP-ERROR " + err.Error()
		}
		common.GlobalConfigDefautInit()
		common.GConfig.IntialGlobalVar()
		flags := make([]bool, 64)
		for i := range flags {
			flags[i] = true
		}
		dm := common.GConfig.GetDirManager()
		dm.SetVSRootDir(t.root)
		if err := common.GConfig.ReadConfig(t.root, "luahelper.json", flags, nil, nil); err != nil {
			return "CONFIG-ERROR " + err.Error()
		}
		common.GConfig.InsertIngoreSystemModule()
		common.GConfig.InsertIngoreSystemAnnotateType()
		dm.InitMainDir()
		project := check.CreateAllProject(dm.GetMainDirFileList(), nil, nil)
		project.HandleCheck()

		observe := func() string {
			fs, _ := project.GetFirstFileStuct(cur)
			if fs == nil || fs.FileResult == nil {
				return "NO-RESULT"
			}
			fr := fs.FileResult
			if len(fr.ReferVec) != len(refs) {
				return fmt.Sprintf("REFS=%d", len(fr.ReferVec))
			}
			out := []string{}
			for i, r := range refs {
				e6 := false
				for _, e := range fr.CheckErrVec {
					if e.ErrType == common.CheckErrorNoFile && e.Loc.StartLine == i+1 {
						e6 = true
					}
				}
				ri := fr.ReferVec[i]
				loaded := map[string]bool{}
				if ri.Valid && ri.ReferValidStr != "" {
					loaded[c18Rel(t.root, ri.ReferValidStr)] = true
				} else {
					loaded["-"] = true
				}
				defs, hovs := map[string]bool{}, map[string]bool{}
				for rep := 0; rep < 6; rep++ {
					list := stringutil.GetOpenFileStr([]byte(src), r.off, r.col, common.GConfig.GetFrameReferFiles())
					found := false
					for _, item := range list {
						dv := project.FindOpenFileDefine(cur, item)
						if len(dv) > 0 {
							defs[c18Rel(t.root, dv[0].StrFile)] = true
							hovs[hx([]byte(item))] = true
							found = true
							break
						}
					}
					if !found {
						defs["-"] = true
						hovs["-"] = true
					}
				}
				// do definition and analysis agree? (same single file, or neither has one)
				agree := len(defs) == len(loaded)
				for k := range loaded {
					if !defs[k] {
						agree = false
					}
				}
				out = append(out, b2s(e6)+":"+b2s(ri.Valid)+":"+c18Set(loaded)+":"+c18Set(defs)+":"+c18Set(hovs)+":{"+b2s(agree)+"}")
			}
			return strings.Join(out, ",")
		}

		steps := []string{observe()}
		for _, group := range c18Split(f[4]) {
			batch := []check.FileEventStruct{}
			for _, ev := range strings.Split(group, "+") {
				abs := t.root + "/" + string(unhex(ev[1:]))
				typ := check.FileEventCreated
				switch ev[0] {
				case 'c', 'm':
					if err := os.MkdirAll(filepath.Dir(abs), 0o755); err != nil {
						return "SETUP-ERROR " + err.Error()
					}
					text := "return {}\n"
					if ev[0] == 'm' {
						text = "return {1}\n"
						typ = check.FileEventChanged
					}
					if err := os.WriteFile(abs, []byte(text), 0o644); err != nil {
						return "SETUP-ERROR " + err.Error()
					}
				case 'd':
					os.Remove(abs)
					typ = check.FileEventDeleted
				default:
					return "BAD-CASE"
				}
				batch = append(batch, check.FileEventStruct{StrFile: abs, Type: typ})
			}
			project.HandleFileEventChanges(batch)
			steps = append(steps, observe())
		}
		return strings.Join(steps, ";")
	}
	register("c18.project", projectLeg)
	register("c18.batch", projectLeg)

	// ---- the same histories through the REAL language server, with documents OPEN while their files change on disk ----
	// case: the c18.project grammar; further events  o<relhex> = textDocument/didOpen of that file with the text it has on
	// disk at that moment (an `o` of a file that is not on disk is skipped),  x<relhex> = textDocument/didClose;
	// c / m / d = the disk operation, then the watched-files event (1 / 2 / 3); a `+`-joined group = the disk operations
	// in order, then ONE workspace/didChangeWatchedFiles notification with all its events.
	// The case is translated into a script of harness/srv_script.go (fresh server process, cur = file 0, opened first);
	// after the start and after every group: the published diagnostics and textDocument/definition on every module string.
	// observable per step and reference: <type-6 diagnostic on its line 0|1>:{definition files}
	register("c18.open", func(line string) string {
		f := strings.Fields(line)
		if len(f) < 5 {
			return "BAD-CASE"
		}
		curRel := string(unhex(f[2]))
		src := ""
		type q struct{ line, col int }
		qs := []q{}
		for i, r := range c18Split(f[3]) {
			s := string(unhex(r[1:]))
			pre, post := fmt.Sprintf("local m%d = require(\"", i), "\")\n"
			switch r[0] {
			case 'q':
				pre, post = fmt.Sprintf("local m%d = require '", i), "'\n"
			case 'd':
				pre = "dofile(\""
			case 'D':
				pre, post = "dofile('", "')\n"
			}
			qs = append(qs, q{i, len(pre)})
			src += pre + s + post
		}
		hxs := func(s string) string { return hx([]byte(s)) }
		disk := map[string]string{curRel: src}
		items := []string{"F:" + hxs(curRel) + ":" + hxs(src)}
		for _, it := range c18Split(f[1]) {
			rel := string(unhex(it[1:]))
			if it[0] == 'L' || it[0] == 'D' {
				disk[rel] = "-- " + rel + "\n"
				items = append(items, "F:"+hxs(rel)+":"+hxs(disk[rel]))
			}
		}
		query := func() {
			items = append(items, "S:diags")
			for _, x := range qs {
				items = append(items, fmt.Sprintf("S:define:0:%d:%d", x.line, x.col))
			}
		}
		items = append(items, "S:open:0")
		query()
		nsteps := 1
		for _, group := range c18Split(f[4]) {
			watch := ""
			for _, ev := range strings.Split(group, "+") {
				rel := string(unhex(ev[1:]))
				switch ev[0] {
				case 'o':
					if text, ok := disk[rel]; ok {
						items = append(items, "S:popen:"+hxs(rel)+":"+hxs(text))
					}
				case 'x':
					items = append(items, "S:pclose:"+hxs(rel))
				case 'c':
					disk[rel] = "return {}\n"
					items = append(items, "S:fswrite:"+hxs(rel)+":"+hxs(disk[rel]))
					watch += ":1:" + hxs(rel)
				case 'm':
					disk[rel] = "return {1}\n"
					items = append(items, "S:fswrite:"+hxs(rel)+":"+hxs(disk[rel]))
					watch += ":2:" + hxs(rel)
				case 'd':
					delete(disk, rel)
					items = append(items, "S:fsrm:"+hxs(rel))
					watch += ":3:" + hxs(rel)
				default:
					return "BAD-CASE"
				}
			}
			if watch != "" {
				items = append(items, "S:watch"+watch)
			}
			query()
			nsteps++
		}
		ans := legs["srv.script"](strings.Join(items, " "))
		parts := strings.Split(ans, " | ")
		if len(parts) != nsteps*(1+len(qs)) {
			return "SERVER " + strings.ReplaceAll(ans, " ", "_")
		}
		steps := []string{}
		for k := 0; k < nsteps; k++ {
			blk := parts[k*(1+len(qs)) : (k+1)*(1+len(qs))]
			if !strings.HasPrefix(blk[0], "diags=[") {
				return "SERVER " + strings.ReplaceAll(ans, " ", "_")
			}
			// diags=[rel{6@l:c-l:c,...};rel{...}]: the type-6 diagnostics of cur by line
			e6 := map[int]bool{}
			for _, fd := range strings.Split(strings.TrimSuffix(strings.TrimPrefix(blk[0], "diags=["), "]"), ";") {
				if !strings.HasPrefix(fd, curRel+"{") {
					continue
				}
				for _, d := range strings.Split(strings.TrimSuffix(fd[len(curRel)+1:], "}"), ",") {
					if strings.HasPrefix(d, "6@") {
						l, _ := strconv.Atoi(strings.SplitN(d[2:], ":", 2)[0])
						e6[l] = true
					}
				}
			}
			out := []string{}
			for i, x := range qs {
				dv := blk[1+i]
				if !strings.HasPrefix(dv, "define=[") || !strings.HasSuffix(dv, "]") {
					return "SERVER " + strings.ReplaceAll(ans, " ", "_")
				}
				defs := map[string]bool{}
				for _, loc := range strings.Split(dv[8:len(dv)-1], ",") {
					if loc == "" {
						continue
					}
					if at := strings.LastIndex(loc, "@"); at >= 0 {
						loc = loc[:at]
					}
					defs[hxs(loc)] = true
				}
				if len(defs) == 0 {
					defs["-"] = true
				}
				out = append(out, b2s(e6[x.line])+":"+c18Set(defs))
			}
			steps = append(steps, strings.Join(out, ","))
		}
		return strings.Join(steps, ";")
	})
}
