package main

// C19 legs: the scripted real server (harness/srv_script.go) under the property's own leg names, a projection of
// its workspace/symbol answers for workspaces above the 200-symbol cut, and the fuzzy matcher as an oracle.

import (
	"fmt"
	"strings"

	"luahelper-lsp/langserver/check"
)

func init() {
	register("c19.docsym", func(l string) string { return legs["srv.script"](l) })
	register("c19.wssym", func(l string) string { return legs["srv.script"](l) })

	// answer per wssym step: "n=<number of symbols returned> hits=[entries whose name is the query]"
	register("c19.wsbig", func(l string) string {
		var queries []string
		for _, it := range strings.Fields(l) {
			if strings.HasPrefix(it, "S:wssym:") {
				queries = append(queries, it[len("S:wssym:"):])
			}
		}
		ans := legs["srv.script"](l)
		parts := strings.Split(ans, " | ")
		if len(parts) != len(queries) {
			return ans
		}
		var out []string
		for i, p := range parts {
			if !strings.HasPrefix(p, "wssym=[") || !strings.HasSuffix(p, "]") {
				return ans
			}
			body := p[len("wssym=[") : len(p)-1]
			n := 0
			var hits []string
			if body != "" {
				for _, e := range strings.Split(body, ",") {
					n++
					if strings.HasPrefix(e, queries[i]+"/") {
						hits = append(hits, e)
					}
				}
			}
			out = append(out, fmt.Sprintf("n=%d hits=[%s]", n, strings.Join(hits, ",")))
		}
		return strings.Join(out, " | ")
	})

	// case "<hex pattern> <hex candidate>": exact = Score(p,p) == 1 and Score(c,c) == 1 ("L" for a name longer than
	// maxPatternSize = 63 bytes: the pattern is cut there, outside the recorded assumption); range = both cross scores in [0,1]
	register("c19.score", func(l string) string {
		f := strings.Fields(l)
		p, c := string(unhex(f[0])), string(unhex(f[1]))
		sc := func(a, b string) float32 { return check.NewMatcher(a).Score(b) }
		in01 := func(x float32) bool { return x >= 0 && x <= 1 }
		ex := func(a string) string {
			if len(a) > 63 {
				return "L"
			}
			return b2s(sc(a, a) == 1)
		}
		return fmt.Sprintf("exact=%s,%s range=%s", ex(p), ex(c), b2s(in01(sc(p, c)) && in01(sc(c, p))))
	})
}
