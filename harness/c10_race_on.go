//go:build race
// +build race

package main

// c10RaceBuild: this binary carries the race detector (harness/bin/lhimpl_race)
const c10RaceBuild = true
