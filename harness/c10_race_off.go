//go:build !race
// +build !race

package main

const c10RaceBuild = false
