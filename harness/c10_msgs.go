package main

// C10 harness, part 2: building every LSP message of the handler table against the small workspace, and the
// overlapped-schedule runner executed in a CHILD process (one real server per process).

import (
	"crypto/sha1"
	"encoding/json"
	"fmt"
	"io/ioutil"
	"math/rand"
	"os"
	"path/filepath"
	"sort"
	"strconv"
	"strings"
	"time"
)

const c10Doc = "a.lua"

func (c *c10Client) tdpp(needle string, delta int) c10o {
	return c10o{"textDocument": c10o{"uri": c.uri(c10Doc)}, "position": c10Pos(c.docs[c10Doc], needle, 0, delta)}
}

// c10IsRequest: the LSP kind of every method of the handler table (requests carry an id).
var c10Requests = map[string]bool{
	"initialize": true, "textDocument/definition": true, "textDocument/hover": true, "textDocument/references": true,
	"textDocument/documentSymbol": true, "textDocument/rename": true, "textDocument/documentHighlight": true,
	"textDocument/signatureHelp": true, "textDocument/documentColor": true, "textDocument/codeLens": true,
	"textDocument/documentLink": true, "textDocument/completion": true, "completionItem/resolve": true,
	"workspace/symbol": true, "luahelper/getVarColor": true, "luahelper/getOnlineReq": true, "shutdown": true,
}

// prepare does the (fenced) set-up a message needs before it can be sent in round k, and returns its params.
func (c *c10Client) prepare(method string, k int) interface{} {
	doc := c.docs[c10Doc]
	switch method {
	case "textDocument/hover", "textDocument/definition", "textDocument/documentHighlight":
		return c.tdpp("= gfun(3)", 2)
	case "textDocument/references":
		p := c.tdpp("= gfun(3)", 2)
		p["context"] = c10o{"includeDeclaration": true}
		return p
	case "textDocument/rename":
		p := c.tdpp("= gfun(3)", 2)
		p["newName"] = "gfun2"
		return p
	case "textDocument/signatureHelp":
		return c.tdpp("M.add(1", 6)
	case "textDocument/completion":
		if k%2 == 1 { // global completion after the prefix "gf"
			p := c.tdpp("= gfun(3)", 4)
			p["context"] = c10o{"triggerKind": 1}
			return p
		}
		p := c.tdpp("M.add(1", 2)
		p["context"] = c10o{"triggerKind": 2, "triggerCharacter": "."}
		return p
	case "completionItem/resolve":
		return c10o{"label": "add", "kind": 3, "data": 0}
	case "textDocument/documentSymbol", "textDocument/documentColor", "textDocument/codeLens", "textDocument/documentLink":
		return c10o{"textDocument": c10o{"uri": c.uri(c10Doc)}}
	case "workspace/symbol":
		return c10o{"query": "fun"}
	case "luahelper/getVarColor":
		return c10o{"uri": c.uri(c10Doc)}
	case "luahelper/getOnlineReq":
		return c10o{"Req": 1}
	case "shutdown", "exit":
		return nil
	case "$/cancelRequest":
		return c10o{"id": 1}
	case "initialized":
		return c10o{}
	case "initialize":
		return c10o{"processId": 1, "rootPath": c.root, "rootUri": "file://" + c.root, "capabilities": c10o{},
			"initializationOptions": c10o{"client": "vsc", "LocalRun": true, "AllEnable": true, "CheckSyntax": true, "CheckNoDefine": true},
			"workspaceFolders":      []c10o{}}
	case "textDocument/didChange":
		// cycle: append a valid line, append a broken line, delete the broken line, delete the valid line
		c.vers++
		end := c10EndPos(doc)
		var change c10o
		switch k % 4 {
		case 0:
			txt := fmt.Sprintf("local zz%d = %d\n", k, k)
			change = c10o{"range": c10o{"start": end, "end": end}, "text": txt}
			c.docs[c10Doc] = doc + txt
		case 1:
			txt := "local = (\n"
			change = c10o{"range": c10o{"start": end, "end": end}, "text": txt}
			c.docs[c10Doc] = doc + txt
		default:
			// delete the last line
			cut := strings.LastIndex(doc[:len(doc)-1], "\n") + 1
			start := c10EndPos(doc[:cut])
			change = c10o{"range": c10o{"start": start, "end": end}, "text": ""}
			c.docs[c10Doc] = doc[:cut]
		}
		return c10o{"textDocument": c10o{"uri": c.uri(c10Doc), "version": c.vers}, "contentChanges": []c10o{change}}
	case "textDocument/didSave":
		txt := doc
		if k%2 == 1 {
			txt = doc + fmt.Sprintf("gsaved%d = %d\n", k, k)
			c.docs[c10Doc] = txt
			c.vers++
			c.notify("textDocument/didChange", c10o{"textDocument": c10o{"uri": c.uri(c10Doc), "version": c.vers},
				"contentChanges": []c10o{{"text": txt}}})
			c.fence()
		}
		ioutil.WriteFile(filepath.Join(c.root, c10Doc), []byte(txt), 0644)
		return c10o{"textDocument": c10o{"uri": c.uri(c10Doc)}, "text": txt}
	case "textDocument/didOpen":
		if _, open := c.docs["b.lua"]; open {
			c.notify("textDocument/didClose", c10o{"textDocument": c10o{"uri": c.uri("b.lua")}})
			delete(c.docs, "b.lua")
			c.fence()
		}
		c.docs["b.lua"] = c10B
		c.vers++
		return c10o{"textDocument": c10o{"uri": c.uri("b.lua"), "languageId": "lua", "version": c.vers, "text": c10B}}
	case "textDocument/didClose":
		if _, open := c.docs["b.lua"]; !open {
			c.didOpen("b.lua", c10B)
			c.fence()
		}
		delete(c.docs, "b.lua")
		return c10o{"textDocument": c10o{"uri": c.uri("b.lua")}}
	case "workspace/didChangeWatchedFiles":
		p := filepath.Join(c.root, "sub", "d.lua")
		switch k % 3 {
		case 0:
			ioutil.WriteFile(p, []byte(fmt.Sprintf("function dfun%d()\n  return gfun(%d)\nend\n", k, k)), 0644)
			return c10o{"changes": []c10o{{"uri": c.uri("sub/d.lua"), "type": 1}}}
		case 1:
			ioutil.WriteFile(p, []byte(fmt.Sprintf("function dfun%d()\n  return bfun(%d) +\nend\n", k, k)), 0644)
			return c10o{"changes": []c10o{{"uri": c.uri("sub/d.lua"), "type": 2}}}
		default:
			os.Remove(p)
			return c10o{"changes": []c10o{{"uri": c.uri("sub/d.lua"), "type": 3}}}
		}
	case "workspace/didChangeConfiguration":
		return c10o{"settings": c10o{"luahelper": c10o{
			"base": c10o{"ReferenceMaxNum": 100 + k%3, "ReferenceIncudeDefine": k%2 == 0, "PreviewFieldsNum": 30 + k%2, "Report": false},
			"Warn": c10o{"AllEnable": true, "CheckSyntax": true, "CheckNoDefine": k%2 == 0, "CheckAfterDefine": true, "CheckLocalNoUse": true}}}}
	case "workspace/didChangeWorkspaceFolders":
		other := filepath.Join(filepath.Dir(c.root), "other")
		ev := c10o{"added": []c10o{}, "removed": []c10o{}}
		if k%2 == 0 {
			ev["added"] = []c10o{{"uri": "file://" + other, "name": "other"}}
		} else {
			ev["removed"] = []c10o{{"uri": "file://" + other, "name": "other"}}
		}
		return c10o{"event": ev}
	}
	panic("c10: no builder for method " + method)
}

type c10Sched struct {
	first, second string
	reps          int
	seed          int64
	filler        int
	warm          bool // send one textDocument/completion first (fills the completion cache)
	live          int  // further open documents with an unsaved clean edit (live analysis results), see c10SetupLive
}

// c10Spin waits a few microseconds without a system call.
func c10Spin(us int) {
	if us <= 0 {
		return
	}
	t0 := time.Now()
	for time.Since(t0) < time.Duration(us)*time.Microsecond {
	}
}

// c10RunOverlap: for every round send `first` and, without waiting for its answer, `second`; then fence.
// Returns the answers of the two messages per round ("-" for a notification).
func c10RunOverlap(c *c10Client, s c10Sched) [][2]string {
	rng := rand.New(rand.NewSource(s.seed))
	var out [][2]string
	for k := 0; k < s.reps; k++ {
		if s.live > 0 {
			// keep typing in one of the other documents between the rounds (fenced): the recency order of the live
			// results differs from round to round, and a result that a broken edit displaced comes back
			c.liveEdit(1+rng.Intn(s.live), k+1)
			if k%4 == 3 {
				c.liveEdit(0, k+1)
			}
			c.fence()
		}
		p1 := c.prepare(s.first, k)
		p2 := c.prepare(s.second, k)
		gap := []int{0, 0, 0, 5, 20, 60, 150, 400}[rng.Intn(8)]
		var ch1, ch2 chan string
		if c10Requests[s.first] {
			ch1 = c.callAsync(s.first, p1)
		} else {
			c.notify(s.first, p1)
		}
		c10Spin(gap)
		if c10Requests[s.second] {
			ch2 = c.callAsync(s.second, p2)
		} else {
			c.notify(s.second, p2)
		}
		a := [2]string{"-", "-"}
		if ch1 != nil {
			a[0] = c10Wait(ch1, 60*time.Second)
		}
		if ch2 != nil {
			a[1] = c10Wait(ch2, 60*time.Second)
		}
		f := c.fence()
		if f == "TIMEOUT" || a[0] == "TIMEOUT" || a[1] == "TIMEOUT" {
			out = append(out, [2]string{"TIMEOUT", "TIMEOUT"})
			return out
		}
		out = append(out, a)
	}
	return out
}

func c10Setup(dir string, filler int, warm bool) *c10Client {
	root := filepath.Join(dir, "root")
	os.MkdirAll(filepath.Join(dir, "other"), 0755)
	ioutil.WriteFile(filepath.Join(dir, "other", "o.lua"), []byte("function ofun(a)\n  return a\nend\n"), 0644)
	files := c10WriteWorkspace(root, filler)
	c := c10Start(root)
	c.initialize()
	c.didOpen(c10Doc, files[c10Doc])
	c.fence()
	if warm {
		c.call("textDocument/completion", c.prepare("textDocument/completion", 0))
	}
	return c
}

// c10LiveRel: the i-th further document (i from 1); 0 = a.lua
func c10LiveRel(i int) string {
	if i == 0 {
		return c10Doc
	}
	return fmt.Sprintf("live/m%02d.lua", i)
}

// c10LiveText: document i of n. Every document uses the global `gfun` (a.lua) and calls the annotated functions of
// its two neighbours from inside a function body and assigns their globals (the constant-assignment check looks at the
// annotation of the DEFINING file on every assignment), so that the re-analysis after didSave / watched-file events looks
// up the annotations of OTHER live documents from its worker pool.
func c10LiveText(i, n int) string {
	prev, next := (i+n-2)%n+1, i%n+1
	return fmt.Sprintf("---@param k number\n---@return number\nfunction peek%d(k)\n  local v = gfun(k + %d)\n  return v\nend\n"+
		"function use%d()\n  local w = bfun(%d)\n  return peek%d(1) + peek%d(w) + gfun(w)\nend\ngcount%d = gfun(%d)\n"+
		"function reset%d()\n  gcount%d = 0\n  gcount%d = 1\n  gcount%d = 2\n  gtab = nil\nend\n",
		i, i, i, i, prev, next, i, i, i, i, prev, next)
}

// liveEdit types one more (valid) line at the end of document i: a clean didChange, so the server keeps a live
// analysis result for the document until it is saved or closed.
func (c *c10Client) liveEdit(i, round int) {
	rel := c10LiveRel(i)
	doc := c.docs[rel]
	txt := fmt.Sprintf("local pad%d_%d = %d\n", i, round, round)
	end := c10EndPos(doc)
	c.vers++
	c.docs[rel] = doc + txt
	c.notify("textDocument/didChange", c10o{"textDocument": c10o{"uri": c.uri(rel), "version": c.vers},
		"contentChanges": []c10o{{"range": c10o{"start": end, "end": end}, "text": txt}}})
}

// c10SetupLive: c10Setup plus `live` further documents (on disk before the server starts) that are opened and
// edited; a.lua gets a clean edit too. Afterwards live+1 documents hold a live analysis result and all of them use
// the global `gfun` the reference / rename queries ask about.
func c10SetupLive(dir string, filler int, warm bool, live int) *c10Client {
	if live <= 0 {
		return c10Setup(dir, filler, warm)
	}
	root := filepath.Join(dir, "root")
	c10InitExtra = c10o{"CheckFuncParamType": true, "CheckConstAssign": true}
	os.MkdirAll(filepath.Join(root, "live"), 0755)
	for i := 1; i <= live; i++ {
		ioutil.WriteFile(filepath.Join(root, c10LiveRel(i)), []byte(c10LiveText(i, live)), 0644)
	}
	c := c10Setup(dir, filler, warm)
	for i := 1; i <= live; i++ {
		c.didOpen(c10LiveRel(i), c10LiveText(i, live))
	}
	c.fence()
	for i := 0; i <= live; i++ {
		c.liveEdit(i, 0)
	}
	c.fence()
	return c
}

// ---------------------------------------------------------------------------------------------------------
// serialisability sample: the answer of a query that overlaps a mutation must be the answer of one of the two
// sequential orders (query before the mutation / query after the mutation), same request parameters.

// c10Canon: order-insensitive canonical form of a JSON answer (arrays sorted by their canonical elements)
func c10Canon(ans string) string {
	var v interface{}
	if json.Unmarshal([]byte(ans), &v) != nil {
		return ans
	}
	var norm func(x interface{}) interface{}
	norm = func(x interface{}) interface{} {
		switch t := x.(type) {
		case map[string]interface{}:
			if _, isItem := t["label"]; isItem {
				delete(t, "data") // completion item: index into the server's cache = position in a map iteration
			}
			for k, e := range t {
				t[k] = norm(e)
			}
			return t
		case []interface{}:
			keys := make([]string, len(t))
			for i, e := range t {
				t[i] = norm(e)
				b, _ := json.Marshal(t[i])
				keys[i] = string(b)
			}
			sort.Strings(keys)
			out := make([]interface{}, len(t))
			for i, k := range keys {
				out[i] = json.RawMessage(k)
			}
			return out
		}
		return x
	}
	b, _ := json.Marshal(norm(v))
	return string(b)
}

func c10Hash(s string) string { return fmt.Sprintf("%x", sha1.Sum([]byte(s)))[:12] }

type c10Mut struct {
	pre  func() // fenced set-up before the (possibly overlapped) mutation message
	do   func() // sends the mutation notification (not fenced)
	undo func() // restores the initial state (fenced by the caller)
}

func (c *c10Client) fullChange(txt string) {
	c.vers++
	c.docs[c10Doc] = txt
	c.notify("textDocument/didChange", c10o{"textDocument": c10o{"uri": c.uri(c10Doc), "version": c.vers},
		"contentChanges": []c10o{{"text": txt}}})
}

// c10Edit returns the edited text of variant v
func c10Edit(doc string, v int) string {
	switch v % 5 {
	case 0:
		return strings.Replace(doc, "function gfun(p)", "function gfun(p, extra)", 1)
	case 1:
		return "-- pad one\n-- pad two\n" + doc
	case 2:
		return strings.Replace(doc, "local r = gfun(3)", "local r = M.add(3, 4)", 1)
	case 3:
		return strings.Replace(doc, "function M.add(a, b)", "function M.add(a, b, third)", 1)
	default:
		return strings.Replace(doc, "return M\n", "function M.sub(a)\n  return a\nend\nfunction gfresh()\n  return 1\nend\nreturn M\n", 1)
	}
}

func (c *c10Client) mutation(method string, v int, base string) c10Mut {
	edited := c10Edit(base, v)
	switch method {
	case "textDocument/didChange":
		return c10Mut{pre: func() {}, do: func() { c.fullChange(edited) }, undo: func() { c.fullChange(base) }}
	case "textDocument/didSave":
		save := func(txt string) {
			ioutil.WriteFile(filepath.Join(c.root, c10Doc), []byte(txt), 0644)
			c.notify("textDocument/didSave", c10o{"textDocument": c10o{"uri": c.uri(c10Doc)}, "text": txt})
		}
		return c10Mut{pre: func() { c.fullChange(edited); c.fence() }, do: func() { save(edited) },
			undo: func() { c.fullChange(base); c.fence(); save(base) }}
	case "workspace/didChangeWatchedFiles":
		p := filepath.Join(c.root, "sub", "d.lua")
		return c10Mut{pre: func() {},
			do: func() {
				ioutil.WriteFile(p, []byte("function dfun()\n  return gfun(7)\nend\ngfunny = gfun(8)\n"), 0644)
				c.notify("workspace/didChangeWatchedFiles", c10o{"changes": []c10o{{"uri": c.uri("sub/d.lua"), "type": 1}}})
			},
			undo: func() {
				os.Remove(p)
				c.notify("workspace/didChangeWatchedFiles", c10o{"changes": []c10o{{"uri": c.uri("sub/d.lua"), "type": 3}}})
			}}
	}
	panic("c10: no mutation for " + method)
}

// c10Answers: case fields <query> <mutator> <variant> <reps> <seed>
// prints "IN <d|s>" (d: the two sequential answers differ) | "OUT k/n" | "TIMEOUT"
func c10Answers(dir string, f []string) string {
	query, mutator := f[0], f[1]
	variant, _ := strconv.Atoi(f[2])
	reps, _ := strconv.Atoi(f[3])
	seed, _ := strconv.ParseInt(f[4], 10, 64)
	rng := rand.New(rand.NewSource(seed))
	c := c10Setup(dir, 0, query == "completionItem/resolve")
	base := c.docs[c10Doc]
	qp := c.prepare(query, 0) // the SAME request parameters in every order
	mu := c.mutation(mutator, variant, base)
	ask := func() string { return c10Canon(c.call(query, qp)) }
	allowed := map[string]bool{}
	var before, after string
	for r := 0; r < 2; r++ { // the two sequential orders, twice (the second round also checks that undo restores the state)
		mu.pre()
		before = ask()
		mu.do()
		c.fence()
		after = ask()
		mu.undo()
		c.fence()
		allowed[before], allowed[after] = true, true
	}
	out := 0
	var suspects []string
	for k := 0; k < reps; k++ {
		mu.pre()
		gap := []int{0, 0, 5, 20, 60, 150, 400, 1000}[rng.Intn(8)]
		ch := c.callAsync(query, qp)
		c10Spin(gap)
		mu.do()
		a := c10Wait(ch, 60*time.Second)
		if a == "TIMEOUT" || c.fence() == "TIMEOUT" {
			return "TIMEOUT"
		}
		if !allowed[c10Canon(a)] {
			suspects = append(suspects, c10Canon(a))
		}
		mu.undo()
		c.fence()
	}
	if len(suspects) > 0 {
		// an answer outside the two sequential answers: rule out answers that vary from call to call even
		// sequentially (map iteration order inside the server) by sampling both orders some more times
		for r := 0; r < 8; r++ {
			mu.pre()
			allowed[ask()] = true
			mu.do()
			c.fence()
			allowed[ask()] = true
			mu.undo()
			c.fence()
		}
		for _, a := range suspects {
			if !allowed[a] {
				out++
				if os.Getenv("C10_DEBUG") != "" {
					fmt.Fprintf(os.Stderr, "OUT answer: %s\nallowed: %v\n", a, allowed)
				}
			}
		}
	}
	if out > 0 {
		return fmt.Sprintf("OUT %d/%d", out, reps)
	}
	if before != after {
		return "IN d"
	}
	return "IN s"
}
