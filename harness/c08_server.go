// C08 helper: drives the REAL LuaHelper server (langserver.CreateServer over channel.Direct()) with raw JSON,
// one reader goroutine, publishDiagnostics folded per URI in arrival order, request round trip as fence.
// (Never jrpc2.Client.OnNotify: it delivers every message in its own goroutine, so order is lost.)
package main

import (
	"encoding/json"
	"fmt"
	"os"
	"regexp"
	"strconv"
	"strings"
	"time"

	"github.com/yinfei8/jrpc2"
	"github.com/yinfei8/jrpc2/channel"
	"luahelper-lsp/langserver"
	"luahelper-lsp/langserver/check/common"
	"luahelper-lsp/langserver/log"
)

type c08Diag struct {
	Typ  int
	Line int
	// the rest of what the client is shown: start column, end line, end column, message text
	SC, EL, EC int
	Msg        string
}

// c08Tag: short stable hash (FNV-1a, 32 bit, printed in base 36) of "<start col>,<end line>,<end col>:<message>" with the
// given roots replaced by "$" in the message; C08_RAWTAG=1 prints that string itself (spaces as "_") for debugging.
func c08Tag(d c08Diag, roots []string) string {
	m := d.Msg
	for _, r := range roots {
		m = strings.Replace(m, r, "$", -1)
	}
	raw := fmt.Sprintf("%d,%d,%d:%s", d.SC, d.EL, d.EC, m)
	if os.Getenv("C08_RAWTAG") != "" {
		return strings.Replace(raw, " ", "_", -1)
	}
	h := uint32(2166136261)
	for i := 0; i < len(raw); i++ {
		h ^= uint32(raw[i])
		h *= 16777619
	}
	return strconv.FormatUint(uint64(h), 36)
}

type c08Srv struct {
	srv    *jrpc2.Server
	cli    channel.Channel
	msgs   chan []byte
	nextID int
	// folded client view: uri -> last published list (in the order sent)
	view map[string][]c08Diag
	// number of publishDiagnostics notifications received per uri (for debugging / stronger observables)
	pushes int
}

var c08TypeRe = regexp.MustCompile(`^\[Warn type:(\d+)\]`)

func c08Start() *c08Srv {
	log.InitLog(false)
	common.GlobalConfigDefautInit()
	common.GConfig.IntialGlobalVar()
	s := &c08Srv{view: map[string][]c08Diag{}, msgs: make(chan []byte, 64)}
	s.srv = langserver.CreateServer()
	cli, srv := channel.Direct()
	s.cli = cli
	s.srv.Start(srv)
	go func() {
		for {
			b, err := cli.Recv()
			if err != nil {
				close(s.msgs)
				return
			}
			cp := make([]byte, len(b))
			copy(cp, b)
			s.msgs <- cp
		}
	}()
	return s
}

type c08Msg struct {
	ID     *json.RawMessage `json:"id"`
	Method string           `json:"method"`
	Params json.RawMessage  `json:"params"`
	Result json.RawMessage  `json:"result"`
	Error  json.RawMessage  `json:"error"`
}

func (s *c08Srv) handleIncoming(b []byte) (respID string, isResp bool) {
	var m c08Msg
	if err := json.Unmarshal(b, &m); err != nil {
		// a batch? jrpc2 sends single objects for pushes and arrays only for batch replies
		var arr []c08Msg
		if err2 := json.Unmarshal(b, &arr); err2 == nil {
			for _, x := range arr {
				if x.Method == "" && x.ID != nil {
					return string(*x.ID), true
				}
			}
		}
		return "", false
	}
	if m.Method == "textDocument/publishDiagnostics" {
		var p struct {
			URI         string `json:"uri"`
			Diagnostics []struct {
				Range struct {
					Start struct {
						Line int `json:"line"`
						Char int `json:"character"`
					} `json:"start"`
					End struct {
						Line int `json:"line"`
						Char int `json:"character"`
					} `json:"end"`
				} `json:"range"`
				Message string `json:"message"`
			} `json:"diagnostics"`
		}
		if err := json.Unmarshal(m.Params, &p); err != nil {
			panic("bad publishDiagnostics: " + err.Error())
		}
		l := make([]c08Diag, 0, len(p.Diagnostics))
		for _, d := range p.Diagnostics {
			t := -1
			if mm := c08TypeRe.FindStringSubmatch(d.Message); mm != nil {
				fmt.Sscanf(mm[1], "%d", &t)
			}
			l = append(l, c08Diag{t, d.Range.Start.Line, d.Range.Start.Char, d.Range.End.Line, d.Range.End.Char, d.Message})
		}
		s.view[p.URI] = l
		s.pushes++
		return "", false
	}
	if m.Method == "" && m.ID != nil {
		return string(*m.ID), true
	}
	return "", false
}

func (s *c08Srv) notify(method string, params interface{}) {
	p, err := json.Marshal(params)
	if err != nil {
		panic(err)
	}
	msg := fmt.Sprintf(`{"jsonrpc":"2.0","method":%q,"params":%s}`, method, p)
	if err := s.cli.Send([]byte(msg)); err != nil {
		panic("send: " + err.Error())
	}
}

// call sends a request and consumes server messages (folding diagnostics) until its response arrives.
func (s *c08Srv) call(method string, params interface{}) {
	s.nextID++
	id := fmt.Sprint(s.nextID)
	p, err := json.Marshal(params)
	if err != nil {
		panic(err)
	}
	msg := fmt.Sprintf(`{"jsonrpc":"2.0","id":%s,"method":%q,"params":%s}`, id, method, p)
	if err := s.cli.Send([]byte(msg)); err != nil {
		panic("send: " + err.Error())
	}
	tmo := time.After(60 * time.Second)
	for {
		select {
		case b, ok := <-s.msgs:
			if !ok {
				panic("server closed the channel")
			}
			rid, isResp := s.handleIncoming(b)
			if isResp && rid == id {
				return
			}
		case <-tmo:
			panic("fence timeout")
		}
	}
}

// fence: the request is dispatched only after every earlier notification handler has returned (jrpc2 barrier),
// and pushes are written synchronously on the unbuffered Direct channel, so all of them were read before the reply.
func (s *c08Srv) fence() {
	s.call("luahelper/getOnlineReq", map[string]int{"Req": 0})
}

// pluginPath: the VS Code extension always passes its own directory; "" = the option is not sent (a client other than the
// VS Code extension). folders = further workspace folders besides the root (multi-root workspace).
func (s *c08Srv) initialize(root string, pluginPath string, folders ...string) {
	opts := map[string]interface{}{
		"client": "vsc", "LocalRun": true, "AllEnable": true,
		"CheckSyntax": true, "CheckNoDefine": true, "CheckAfterDefine": true, "CheckFuncParam": true, "CheckLocalNoUse": true, "CheckReferNoFile": true, "CheckAnnotateType": true,
	}
	if pluginPath != "" {
		opts["PluginPath"] = pluginPath
	}
	params := map[string]interface{}{
		"processId":             nil,
		"rootPath":              root,
		"rootUri":               "file://" + root,
		"initializationOptions": opts,
		"capabilities":          map[string]interface{}{},
	}
	if len(folders) > 0 {
		wf := []map[string]interface{}{{"uri": "file://" + root, "name": "w"}}
		for _, f := range folders {
			wf = append(wf, map[string]interface{}{"uri": "file://" + f, "name": "o"})
		}
		params["workspaceFolders"] = wf
	}
	s.call("initialize", params)
	s.notify("initialized", map[string]interface{}{})
	s.fence()
}

func c08URI(path string) string { return "file://" + path }

func (s *c08Srv) didOpen(path, text string) {
	s.notify("textDocument/didOpen", map[string]interface{}{"textDocument": map[string]interface{}{
		"uri": c08URI(path), "languageId": "lua", "version": 1, "text": text}})
	s.fence()
}

func (s *c08Srv) didChange(path, text string) {
	s.notify("textDocument/didChange", map[string]interface{}{
		"textDocument":   map[string]interface{}{"uri": c08URI(path), "version": 2},
		"contentChanges": []map[string]interface{}{{"text": text}}})
	s.fence()
}

func (s *c08Srv) didSave(path, text string) {
	s.notify("textDocument/didSave", map[string]interface{}{
		"textDocument": map[string]interface{}{"uri": c08URI(path)}, "text": text})
	s.fence()
}

func (s *c08Srv) didClose(path string) {
	s.notify("textDocument/didClose", map[string]interface{}{"textDocument": map[string]interface{}{"uri": c08URI(path)}})
	s.fence()
}

type c08Watched struct {
	Path string
	Kind int // 1 created 2 changed 3 deleted
}

func (s *c08Srv) watched(evs []c08Watched) {
	ch := []map[string]interface{}{}
	for _, e := range evs {
		ch = append(ch, map[string]interface{}{"uri": c08URI(e.Path), "type": e.Kind})
	}
	s.notify("workspace/didChangeWatchedFiles", map[string]interface{}{"changes": ch})
	s.fence()
}

// renderView prints the folded view canonically: files in the fixed order of `names` (path -> short name),
// unknown URIs last (sorted) with their path relativised; diagnostics in the order sent (but see c08SortDupRuns):
// "t@line#tag" (c08Tag).
func (s *c08Srv) renderView(order []string, short map[string]string, roots []string) string {
	var parts []string
	seen := map[string]bool{}
	one := func(name string, l []c08Diag) {
		if len(l) == 0 {
			return
		}
		l = c08SortDupRuns(l)
		ds := make([]string, len(l))
		for i, d := range l {
			ds[i] = fmt.Sprintf("%d@%d#%s", d.Typ, d.Line, c08Tag(d, roots))
		}
		parts = append(parts, name+":"+strings.Join(ds, ","))
	}
	for _, p := range order {
		u := c08URI(p)
		seen[u] = true
		one(short[p], s.view[u])
	}
	var rest []string
	for u := range s.view {
		if !seen[u] {
			rest = append(rest, u)
		}
	}
	sortStrings(rest)
	for _, u := range rest {
		n := strings.TrimPrefix(u, "file://")
		for _, r := range roots {
			n = strings.Replace(n, r, "$", 1)
		}
		one("?"+n, s.view[u])
	}
	if len(parts) == 0 {
		return "-"
	}
	return strings.Join(parts, ";")
}

// c08SortDupRuns: checkAllAnnotate appends the "duplicate annotate type" warnings (type 18) of a file while ranging over the
// Go map createTypeMap, so when a file declares two duplicated class names their mutual order is not determined (the property
// compares lists up to order). Every maximal run of such warnings is put in line order; everything else keeps the order sent.
func c08SortDupRuns(l []c08Diag) []c08Diag {
	isDup := func(d c08Diag) bool {
		return d.Typ == 18 && strings.Contains(d.Msg, "duplicate annotate type")
	}
	out := append([]c08Diag(nil), l...)
	for i := 0; i < len(out); {
		if !isDup(out[i]) {
			i++
			continue
		}
		j := i
		for j < len(out) && isDup(out[j]) {
			j++
		}
		for a := i + 1; a < j; a++ {
			for b := a; b > i && (out[b].Line < out[b-1].Line || (out[b].Line == out[b-1].Line && out[b].Msg < out[b-1].Msg)); b-- {
				out[b], out[b-1] = out[b-1], out[b]
			}
		}
		i = j
	}
	return out
}

func sortStrings(a []string) {
	for i := 1; i < len(a); i++ {
		for j := i; j > 0 && a[j] < a[j-1]; j-- {
			a[j], a[j-1] = a[j-1], a[j]
		}
	}
}
