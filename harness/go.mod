module verifharness

go 1.15

require (
	github.com/yinfei8/jrpc2 v0.13.1
	golang.org/x/text v0.3.5
	luahelper-lsp v0.0.0
)

replace luahelper-lsp => /repo/luahelper-lsp
