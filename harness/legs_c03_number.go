package main

import (
	"strings"

	"luahelper-lsp/langserver/check/compiler/parser"
)

func init() {
	// case = hex of the number token text; answer = "I <int64>" | "F" | "BAD"
	// (a Go panic inside the parse functions is turned into "PANIC ..." by runCase)
	register("c03.number", func(line string) string {
		return parser.VerifClassifyNumber(string(unhex(strings.Fields(line)[0])))
	})
	// case = hex of the text handed to parseHexFloat (what follows "0x"); answer = "<reHexFloat matches> <ok>"
	register("c03.hexfloat", func(line string) string {
		return parser.VerifParseHexFloat(string(unhex(strings.Fields(line)[0])))
	})
}
