package main

// C20 leg: the REAL language server (alias of srv.script, one fresh process per case) on one workspace file;
// the published diagnostics are filtered to the pattern checks of property C20
// (types 5 7 8 13 14 15 16 19 20 21) and printed as a sorted multiset  R[type@sl:sc-el:ec,...].

import (
	"regexp"
	"sort"
	"strings"
	"time"
)

var c20Types = map[string]bool{"5": true, "7": true, "8": true, "13": true, "14": true, "15": true, "16": true,
	"19": true, "20": true, "21": true}

var c20DiagsRe = regexp.MustCompile(`diags=\[([^\]]*)\]`)
var c20FileRe = regexp.MustCompile(`\{([^}]*)\}`)

func c20Filter(ans string) string {
	m := c20DiagsRe.FindStringSubmatch(ans)
	if m == nil {
		return ans // CRASH ... / TIMEOUT / INIT-... pass through
	}
	out := []string{}
	for _, fm := range c20FileRe.FindAllStringSubmatch(m[1], -1) {
		for _, d := range strings.Split(fm[1], ",") {
			if i := strings.Index(d, "@"); i > 0 && c20Types[d[:i]] {
				out = append(out, d)
			}
		}
	}
	sort.Strings(out)
	return "R[" + strings.Join(out, ",") + "]"
}

// A server process that dies WITHOUT a Go fatal error / panic on stderr ("CRASH exit(signal: terminated)": killed from
// outside, e.g. by a clean-up of another job on the same machine) says nothing about the code: run the case again.
// Genuine crashes are reported by srv.script as "CRASH stack-overflow", "CRASH panic ...", "CRASH fatal", "TIMEOUT".
func c20Run(l string) string {
	ans := ""
	for try := 0; try < 4; try++ {
		ans = legs["srv.script"](l)
		if !strings.HasPrefix(ans, "CRASH exit(signal") {
			break
		}
		time.Sleep(time.Duration(50*(try+1)) * time.Millisecond)
	}
	return ans
}

func init() {
	register("c20.diags", func(l string) string { return c20Filter(c20Run(l)) })
}
