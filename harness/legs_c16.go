package main

// C16 legs: the real annotation front end (annotateparser.ParseCommentFragment, annotateast.TypeConvertStr)
// on raw comment-line bytes; observable = canonical serialisation of the parsed AST + per-line errors.
//
// Serialisation (must stay byte-identical to ocaml/c16_run.ml):
//   hex(s)  = lower-case hex of the bytes, "-" for the empty string
//   type    = N:<hex name>:<showcolor 0|1> | M[t|t|...] | A(t) | T0 | T(k,v)
//           | F(<hex pname>:<opt 0|1>:t;...)->(t;...) | C:<hex name>:<quotes 0|1>:<hex comment> | nil
//   stat    = type{<const 0|1><enum 0|1>t;...}@<hex comment>          (lists zipped; a length mismatch prints "!len")
//           | alias:<hex name>=t@<hex> | class:<hex name>:<hex parent>,...@<hex> | overload:t@<hex>
//           | field:<scope 0-2>:<colon 0-2>:<hex name>=t@<hex> | param:<const><opt>:<hex name>=t@<hex>
//           | return{<opt>t;...}@<hex> | generic{<hex name>:<hex parent>;...}@<hex> | vararg:t@<hex> | enum:<0-2>@<hex>
//           | notvalid
//   result  = stats=[stat;;stat...] lines=[n,n] errs=[<line>:<errtype>:<needkind>:<hex errstr>:<startcol>:<endcol>;...]
import (
	"fmt"
	"io/ioutil"
	"os"
	"path/filepath"
	"strconv"
	"strings"

	"luahelper-lsp/langserver/check/annotation/annotateast"
	"luahelper-lsp/langserver/check/annotation/annotatelexer"
	"luahelper-lsp/langserver/check/annotation/annotateparser"
	"luahelper-lsp/langserver/check/compiler/lexer"
	"luahelper-lsp/langserver/check/compiler/parser"
	"sort"
)

func c16b(b bool) string {
	if b {
		return "1"
	}
	return "0"
}

func c16h(s string) string { return hx([]byte(s)) }

func c16Type(t annotateast.Type) string {
	switch x := t.(type) {
	case nil:
		return "nil"
	case *annotateast.NormalType:
		return "N:" + c16h(x.StrName) + ":" + c16b(x.ShowColor)
	case *annotateast.MultiType:
		parts := []string{}
		for _, s := range x.TypeList {
			parts = append(parts, c16Type(s))
		}
		return "M[" + strings.Join(parts, "|") + "]"
	case *annotateast.ArrayType:
		return "A(" + c16Type(x.ItemType) + ")"
	case *annotateast.TableType:
		if x.EmptyFlag {
			return "T0"
		}
		return "T(" + c16Type(x.KeyType) + "," + c16Type(x.ValueType) + ")"
	case *annotateast.FuncType:
		if x == nil {
			return "nil"
		}
		if len(x.ParamNameList) != len(x.ParamTypeList) || len(x.ParamNameList) != len(x.ParamOptionList) {
			return "F!len"
		}
		ps := []string{}
		for i := range x.ParamNameList {
			ps = append(ps, c16h(x.ParamNameList[i])+":"+c16b(x.ParamOptionList[i])+":"+c16Type(x.ParamTypeList[i]))
		}
		rs := []string{}
		for _, r := range x.ReturnTypeList {
			rs = append(rs, c16Type(r))
		}
		return "F(" + strings.Join(ps, ";") + ")->(" + strings.Join(rs, ";") + ")"
	case *annotateast.ConstType:
		return "C:" + c16h(x.Name) + ":" + c16b(x.QuotesFlag) + ":" + c16h(x.Comment)
	}
	return fmt.Sprintf("?%T", t)
}

func c16Stat(s annotateast.AnnotateState) string {
	switch x := s.(type) {
	case *annotateast.AnnotateTypeState:
		if len(x.ListType) != len(x.ListConst) || len(x.ListType) != len(x.ListEnum) {
			return "type!len"
		}
		ps := []string{}
		for i := range x.ListType {
			ps = append(ps, c16b(x.ListConst[i])+c16b(x.ListEnum[i])+c16Type(x.ListType[i]))
		}
		return "type{" + strings.Join(ps, ";") + "}@" + c16h(x.Comment)
	case *annotateast.AnnotateAliasState:
		return "alias:" + c16h(x.Name) + "=" + c16Type(x.AliasType) + "@" + c16h(x.Comment)
	case *annotateast.AnnotateClassState:
		if len(x.ParentNameList) != len(x.ParentLocList) {
			return "class!len"
		}
		ps := []string{}
		for _, p := range x.ParentNameList {
			ps = append(ps, c16h(p))
		}
		return "class:" + c16h(x.Name) + ":" + strings.Join(ps, ",") + "@" + c16h(x.Comment)
	case *annotateast.AnnotateOverloadState:
		var t annotateast.Type
		if x.OverFunType != nil {
			t = x.OverFunType
		}
		return "overload:" + c16Type(t) + "@" + c16h(x.Comment)
	case *annotateast.AnnotateFieldState:
		return "field:" + strconv.Itoa(int(x.FieldScopeType)) + ":" + strconv.Itoa(int(x.FieldColonType)) + ":" +
			c16h(x.Name) + "=" + c16Type(x.FiledType) + "@" + c16h(x.Comment)
	case *annotateast.AnnotateParamState:
		return "param:" + c16b(x.IsConst) + c16b(x.IsOptional) + ":" + c16h(x.Name) + "=" + c16Type(x.ParamType) + "@" + c16h(x.Comment)
	case *annotateast.AnnotateReturnState:
		if len(x.ReturnTypeList) != len(x.ReturnOptionList) {
			return "return!len"
		}
		ps := []string{}
		for i := range x.ReturnTypeList {
			ps = append(ps, c16b(x.ReturnOptionList[i])+c16Type(x.ReturnTypeList[i]))
		}
		return "return{" + strings.Join(ps, ";") + "}@" + c16h(x.Comment)
	case *annotateast.AnnotateGenericState:
		if len(x.NameList) != len(x.ParentNameList) {
			return "generic!len"
		}
		ps := []string{}
		for i := range x.NameList {
			ps = append(ps, c16h(x.NameList[i])+":"+c16h(x.ParentNameList[i]))
		}
		return "generic{" + strings.Join(ps, ";") + "}@" + c16h(x.Comment)
	case *annotateast.AnnotateVarargState:
		return "vararg:" + c16Type(x.VarargType) + "@" + c16h(x.Comment)
	case *annotateast.AnnotateEnumState:
		return "enum:" + strconv.Itoa(int(x.EnumType)) + "@" + c16h(x.Comment)
	case *annotateast.AnnotateNotValidState:
		return "notvalid"
	}
	return fmt.Sprintf("?%T", s)
}

// c16Norm: the documented type the tree denotes (Spec/AnnGrammar.v: abs t): singleton MultiTypes, colouring and
// constant comments forgotten, a parameter typed by the uncoloured default "any" has no type; serialised as
//   n:<hex> | c:<hex>:<q> | a(t) | t0 | t(k,v) | f(<hex>:<opt>:<t or _>;...)->(t;...) | u[t|t...]
// (a union directly inside a union stays nested)
func c16Norm(t annotateast.Type) string {
	switch x := t.(type) {
	case nil:
		return "nil"
	case *annotateast.NormalType:
		return "n:" + c16h(x.StrName)
	case *annotateast.ConstType:
		return "c:" + c16h(x.Name) + ":" + c16b(x.QuotesFlag)
	case *annotateast.ArrayType:
		return "a(" + c16Norm(x.ItemType) + ")"
	case *annotateast.TableType:
		if x.EmptyFlag {
			return "t0"
		}
		return "t(" + c16Norm(x.KeyType) + "," + c16Norm(x.ValueType) + ")"
	case *annotateast.FuncType:
		ps := []string{}
		for i := range x.ParamNameList {
			ty := "_"
			nt, isN := x.ParamTypeList[i].(*annotateast.NormalType)
			if !(isN && !nt.ShowColor && nt.StrName == "any") {
				ty = c16Norm(x.ParamTypeList[i])
			}
			ps = append(ps, c16h(x.ParamNameList[i])+":"+c16b(x.ParamOptionList[i])+":"+ty)
		}
		rs := []string{}
		for _, r := range x.ReturnTypeList {
			rs = append(rs, c16Norm(r))
		}
		return "f(" + strings.Join(ps, ";") + ")->(" + strings.Join(rs, ";") + ")"
	case *annotateast.MultiType:
		if len(x.TypeList) == 1 {
			return c16Norm(x.TypeList[0])
		}
		ms := []string{}
		for _, c := range x.TypeList {
			ms = append(ms, c16Norm(c))
		}
		return "u[" + strings.Join(ms, "|") + "]"
	}
	return fmt.Sprintf("?%T", t)
}

// case: comma separated hex lines (the CommentLine.Str values, i.e. the comment text after the leading "--");
// line numbers 1..n, column 0.
func c16Fragment(field string) (annotateast.AnnotateFragment, []annotatelexer.ParseAnnotateErr) {
	ci := &lexer.CommentInfo{HeadFlag: true, ShortFlag: true}
	for i, h := range strings.Split(field, ",") {
		ci.LineVec = append(ci.LineVec, lexer.CommentLine{Str: string(unhex(h)), Line: i + 1, Col: 0})
	}
	return annotateparser.ParseCommentFragment(ci)
}

func c16Result(frag annotateast.AnnotateFragment, errs []annotatelexer.ParseAnnotateErr) string {
	ss := []string{}
	for _, s := range frag.Stats {
		ss = append(ss, c16Stat(s))
	}
	ls := []string{}
	for _, l := range frag.Lines {
		ls = append(ls, strconv.Itoa(l))
	}
	es := []string{}
	for _, e := range errs {
		es = append(es, fmt.Sprintf("%d:%d:%d:%s:%d:%d", e.ErrLoc.StartLine, int(e.ErrType), int(e.NeedKind), c16h(e.ErrStr),
			e.ErrLoc.StartColumn, e.ErrLoc.EndColumn))
	}
	return "stats=[" + strings.Join(ss, ";;") + "] lines=[" + strings.Join(ls, ",") + "] errs=[" + strings.Join(es, ";") + "]"
}

// c16.file: the lines are embedded in a Lua file ("--" + line, then a statement); the file goes through the real
// Lua parser, every head comment block through ParseCommentFragment.  Error columns are printed relative to the
// column the Lua lexer recorded for the comment line, so the answer is comparable with c16.fragment.
func c16File(field string) string {
	var src strings.Builder
	for _, h := range strings.Split(field, ",") {
		src.WriteString("--")
		src.Write(unhex(h))
		src.WriteString("\n")
	}
	src.WriteString("local x = 1\n")
	p := parser.CreateParser([]byte(src.String()), "c16.lua")
	_, cm, _ := p.BeginAnalyze()
	keys := []int{}
	for k := range cm {
		keys = append(keys, k)
	}
	sort.Ints(keys)
	ss, ls, es := []string{}, []string{}, []string{}
	for _, k := range keys {
		ci := cm[k]
		if !ci.HeadFlag {
			continue
		}
		col := map[int]int{}
		for _, cl := range ci.LineVec {
			col[cl.Line] = cl.Col
		}
		fr, errs := annotateparser.ParseCommentFragment(ci)
		for _, s := range fr.Stats {
			ss = append(ss, c16Stat(s))
		}
		for _, l := range fr.Lines {
			ls = append(ls, strconv.Itoa(l))
		}
		for _, e := range errs {
			c0 := col[e.ErrLoc.StartLine]
			es = append(es, fmt.Sprintf("%d:%d:%d:%s:%d:%d", e.ErrLoc.StartLine, int(e.ErrType), int(e.NeedKind), c16h(e.ErrStr),
				e.ErrLoc.StartColumn-c0, e.ErrLoc.EndColumn-c0))
		}
	}
	return "stats=[" + strings.Join(ss, ";;") + "] lines=[" + strings.Join(ls, ",") + "] errs=[" + strings.Join(es, ";") + "]"
}

func init() {
	register("c16.file", func(line string) string { return c16File(strings.Fields(line)[0]) })
	// the example lines of docs/manual/annotate.md: accepted = one statement, no annotation warning
	register("c16.doc", func(line string) string {
		fr, errs := c16Fragment(strings.Fields(line)[0])
		if len(errs) == 0 && len(fr.Stats) == 1 && len(fr.Lines) == 1 {
			return "accepted"
		}
		return fmt.Sprintf("rejected stats=%d errs=%d", len(fr.Stats), len(errs))
	})
	// one or several comment lines through ParseCommentFragment, full observable
	frag := func(line string) string {
		f := strings.Fields(line)
		fr, errs := c16Fragment(f[0])
		return c16Result(fr, errs)
	}
	register("c16.line", frag)
	register("c16.fragment", frag)
	// robustness: arbitrary bytes; the only observable is "no panic" + the counts
	register("c16.total", func(line string) string {
		f := strings.Fields(line)
		fr, errs := c16Fragment(f[0])
		for _, s := range fr.Stats { // the printer and serialiser must survive every accepted AST too
			_ = c16Stat(s)
			if ts, ok := s.(*annotateast.AnnotateTypeState); ok {
				for _, t := range ts.ListType {
					_ = annotateast.TypeConvertStr(t)
				}
			}
		}
		return fmt.Sprintf("ok %d %d %d", len(fr.Stats), len(fr.Lines), len(errs))
	})
	// printer: case = hex of a type text T. "-@type T" is parsed, the first type printed by TypeConvertStr,
	// the printed text parsed again as "-@type <printed>".
	// answer: <hex printed> <type re-read from the printed text, or ERR/NONE> <hex comment of the re-read line>
	register("c16.print", func(line string) string {
		f := strings.Fields(line)
		src := "-@type " + string(unhex(f[0]))
		fr, errs := c16Fragment(hx([]byte(src)))
		if len(errs) > 0 || len(fr.Stats) != 1 {
			return "SRC-ERR"
		}
		ts, ok := fr.Stats[0].(*annotateast.AnnotateTypeState)
		if !ok || len(ts.ListType) < 1 {
			return "SRC-ERR"
		}
		printed := annotateast.TypeConvertStr(ts.ListType[0])
		fr2, errs2 := c16Fragment(hx([]byte("-@type " + printed)))
		if len(errs2) > 0 {
			return c16h(printed) + " ERR -"
		}
		if len(fr2.Stats) != 1 {
			return c16h(printed) + " NONE -"
		}
		ts2, ok := fr2.Stats[0].(*annotateast.AnnotateTypeState)
		if !ok || len(ts2.ListType) != 1 {
			return c16h(printed) + " NONE -"
		}
		return c16h(printed) + " " + c16Norm(ts2.ListType[0]) + " " + c16h(ts2.Comment)
	})
}

// ---------------------------------------------------------------- c16.server
// "a malformed line never disturbs the neighbouring annotations" at the level of the REAL server, under settings
// that show / do not show the annotation warnings (type 18).
// case: <setting> <kind> <hex line>,<hex line>,...     lines = the comment block (text after the leading "--")
//   setting  on (CheckAnnotateType=true, AllEnable=true) | off (CheckAnnotateType=false) | alloff (AllEnable=false)
//            | none (no initializationOptions) | json18 (luahelper.json IgnoreErrorTypes [18]) | jsonwarn0 (ShowWarnFlag 0)
//   kind     T  block above `local v = nil`            (hover v, completion after `v.`)
//            P  block above `local function fn(a)`     (completion after `a.` in the body and after `r.`, r = fn(); hover fn)
//            C  block, blank, `---@type Node`, `local w = nil`   (completion after `w.`, hover w)
// Run A = the block as given; run B = every line that is malformed ON ITS OWN (ParseCommentFragment of the single line
// reports an error) replaced by the remark `-- remark`.  Answer "=" when all probes answer the same in A and B (and
// "= <answers>" is never printed: the answers are in the DIFF line only), otherwise "DIFF A[...] B[...]".
var c16SrvCur *c15Child

func c16ServerRun(setting, kind string, lines []string) (string, error) {
	pre := []string{"---@class Leaf", "---@field alpha number", "---@field beta string", ""}
	text := append([]string{}, pre...)
	for _, l := range lines {
		text = append(text, "--"+l)
	}
	type probe struct {
		hover    bool
		line, ch int
	}
	probes := []probe{}
	at := func(hover bool, t, marker string) {
		text = append(text, t)
		probes = append(probes, probe{hover, len(text) - 1, strings.Index(t, marker) + len(marker)})
	}
	switch kind {
	case "T":
		at(true, "local v = nil", "local ")
		at(false, "print(v.zq0)", "v.")
	case "P":
		at(true, "local function fn(a)", "function ")
		at(false, "  print(a.zq0)", "a.")
		text = append(text, "  return a", "end", "local r = fn()")
		at(false, "print(r.zq1)", "r.")
	case "C":
		text = append(text, "", "---@type Node")
		at(true, "local w = nil", "local ")
		at(false, "print(w.zq0)", "w.")
	default:
		return "", fmt.Errorf("kind")
	}
	src := strings.Join(text, "\n") + "\n"

	root, err := ioutil.TempDir("", "c16w-")
	if err != nil {
		return "", err
	}
	defer os.RemoveAll(root)
	root, _ = filepath.EvalSymlinks(root)
	if err := ioutil.WriteFile(filepath.Join(root, "m.lua"), []byte(src), 0644); err != nil {
		return "", err
	}
	opts := map[string]interface{}{"client": "vsc", "LocalRun": true, "AllEnable": true, "CheckSyntax": true,
		"CheckAnnotateType": true}
	switch setting {
	case "on":
	case "off":
		opts["CheckAnnotateType"] = false
	case "alloff":
		opts["AllEnable"] = false
	case "none":
		opts = nil
	case "json18", "jsonwarn0":
		opts["LocalRun"] = false
		js := `{"ShowWarnFlag":1,"IgnoreErrorTypes":[18]}`
		if setting == "jsonwarn0" {
			js = `{"ShowWarnFlag":0}`
		}
		if err := ioutil.WriteFile(filepath.Join(root, "luahelper.json"), []byte(js), 0644); err != nil {
			return "", err
		}
	default:
		return "", fmt.Errorf("setting")
	}
	srv, err := c15StartOpts(root, opts)
	if err != nil {
		return "", err
	}
	defer srv.stop()
	uri := "file://" + filepath.Join(root, "m.lua")
	srv.didOpen(uri, src)
	out := []string{}
	for _, p := range probes {
		if p.hover {
			h, err := srv.hover(uri, p.line, p.ch)
			if err != nil {
				return "", err
			}
			// the first fenced block only (the declaration with its type); the rest repeats the comment text
			h = strings.SplitN(h, "\n```", 2)[0]
			out = append(out, "H:"+strings.NewReplacer("\n", "\\n", "\r", "\\r", " ", "_", "\t", "_").Replace(h))
		} else {
			ls, err := srv.complete(uri, p.line, p.ch)
			if err != nil {
				return "", err
			}
			out = append(out, "C:"+c15Labels(ls))
		}
	}
	return strings.Join(out, ";"), nil
}

func c16ServerCase(line string) string {
	f := strings.Fields(line)
	if len(f) != 3 {
		return "BAD-CASE fields"
	}
	a, b := []string{}, []string{}
	bad := 0
	for _, h := range strings.Split(f[2], ",") {
		l := string(unhex(h))
		if strings.ContainsAny(l, "\n\r") || strings.HasPrefix(l, "[") {
			return "BAD-CASE line"
		}
		a = append(a, l)
		if _, errs := c16Fragment(h); len(errs) > 0 {
			bad++
			b = append(b, " remark")
		} else {
			b = append(b, l)
		}
	}
	if bad == 0 {
		return "= nomalformed"
	}
	ra, err := c16ServerRun(f[0], f[1], a)
	if err != nil {
		return "ERR " + err.Error()
	}
	rb, err := c16ServerRun(f[0], f[1], b)
	if err != nil {
		return "ERR " + err.Error()
	}
	if ra == rb {
		return "="
	}
	return "DIFF A[" + ra + "] B[" + rb + "]"
}

func init() {
	register("c16.server", func(line string) string { return c15ParentOf(&c16SrvCur, "c16.srvchild", line) })
	register("c16.srvchild", c16ServerCase)
}
