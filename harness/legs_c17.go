// C17 legs. Case line format: see /verif/ocaml/c17_run.ml.
//
//	c17.filter   implementation: REAL server in a fresh child process per case (common.GConfig is a process global),
//	             configuration delivered by initializationOptions / workspace/didChangeConfiguration / luahelper.json
//	c17.sites    implementation: REAL server (fresh child per case), configuration delivered like c17.filter; answer
//	             S=<mask> A=<mask>: per file of the workspace, scanned by the directory walk (the client holds
//	             diagnostics of it) / accepted by the per-file predicate IsNeedHandle (didOpen+didChange probe)
//	c17.live     implementation: REAL server (fresh child per case), a history of unsaved edits (didOpen + didChange to a
//	             text with syntax errors / to a clean text) and settings changes; answer = the client's view after
//	             initialize and after every step ("=" where it did not change), joined by "|"
//	c17.syn      oracle: the syntax errors (line:col) the everything-enabled live analysis reports for probe text k
//	c17.raw      oracle: the everything-enabled run (luahelper.json: nothing ignored, types 22..29 opened) over the
//	             files that are analysed ("<ws> <mask>"); the other files are excluded by their literal names
//	c17.re       oracle: Go regexp called directly on every (pattern, subject) pair of the case (subjects: absolute
//	             names, relative names, "/"+relative names, relative folders)
//	c17.wsinfo   file list of the built-in workspaces
package main

import (
	"bytes"
	"encoding/json"
	"fmt"
	"io/ioutil"
	"os"
	"os/exec"
	"path/filepath"
	"regexp"
	"runtime"
	"sort"
	"strconv"
	"strings"
	"syscall"
	"time"
)

// the client switches by their documented names (package.nls.json / config.md); position k = "[Warn Type:k]"
var c17FlagTags = []string{"AllEnable", "CheckSyntax", "CheckNoDefine", "CheckAfterDefine", "CheckLocalNoUse",
	"CheckTableDuplicateKey", "CheckReferNoFile", "CheckAssignParamNum", "CheckLocalDefineParamNum", "CheckGotoLable",
	"CheckFuncParam", "CheckImportModuleVar", "CheckIfNotVar", "CheckFunctionDuplicateParam",
	"CheckBinaryExpressionDuplicate", "CheckErrorOrAlwaysTrue", "CheckErrorAndAlwaysFalse", "CheckNoUseAssign",
	"CheckAnnotateType", "CheckDuplicateIf", "CheckSelfAssign", "CheckFloatEq", "CheckClassField", "CheckConstAssign",
	"CheckFuncParamType", "CheckFuncReturnType"}

const c17TmpRoot = "/tmp/lhc17/"

type c17Client struct {
	flags  string
	ih, ie []string
	local  bool // LocalRun (initializationOptions only)
}

type c17FileTypes struct {
	name  string
	types []int
}

type c17JSON struct {
	show      int
	ign, open []int
	ih, ie    []string
	ft        []c17FileTypes
	entry     bool
}

type c17Case struct {
	ws      string
	root    string
	files   []string
	js      *c17JSON
	c0      c17Client
	changes []c17Client
	rest    []string
}

func c17Names(s string) []string {
	if s == "_" {
		return []string{}
	}
	out := []string{}
	for _, e := range strings.Split(s, ",") {
		out = append(out, string(unhex(e)))
	}
	return out
}

func c17Ints(s string) []int {
	out := []int{}
	if s == "_" {
		return out
	}
	for _, e := range strings.Split(s, ".") {
		n, err := strconv.Atoi(e)
		if err != nil {
			panic("bad int " + e)
		}
		out = append(out, n)
	}
	return out
}

func c17ParseClient(s string) c17Client {
	p := strings.Split(s, ";")
	local := len(p) == 4 && p[3] == "L"
	if !(len(p) == 3 || local) || len(p[0]) != len(c17FlagTags) {
		panic("bad client cfg " + s)
	}
	return c17Client{p[0], c17Names(p[1]), c17Names(p[2]), local}
}

func c17ParseCase(line string) *c17Case {
	f := strings.Fields(line)
	if len(f) < 6 {
		panic("bad case")
	}
	c := &c17Case{ws: f[0], root: string(unhex(f[1])), files: c17Names(f[2]), rest: f[6:]}
	if f[3] != "-" {
		p := strings.Split(f[3], ";")
		if len(p) != 7 {
			panic("bad json cfg")
		}
		show, err := strconv.Atoi(p[0])
		if err != nil {
			panic("bad show")
		}
		j := &c17JSON{show: show, ign: c17Ints(p[1]), open: c17Ints(p[2]), ih: c17Names(p[3]), ie: c17Names(p[4]), entry: p[6] == "1"}
		if p[5] != "_" {
			for _, e := range strings.Split(p[5], ",") {
				kv := strings.Split(e, "=")
				if len(kv) != 2 {
					panic("bad file-type rule")
				}
				j.ft = append(j.ft, c17FileTypes{string(unhex(kv[0])), c17Ints(kv[1])})
			}
		}
		c.js = j
	}
	c.c0 = c17ParseClient(f[4])
	if f[5] != "-" {
		for _, e := range strings.Split(f[5], "|") {
			c.changes = append(c.changes, c17ParseClient(e))
		}
	}
	return c
}

func (c c17Client) initOptions() map[string]interface{} {
	m := map[string]interface{}{"client": "vsc", "LocalRun": c.local, "IgnoreFileOrDir": c.ih, "IgnoreFileOrDirError": c.ie}
	for k, tag := range c17FlagTags {
		m[tag] = c.flags[k] == '1'
	}
	return m
}

func (c c17Client) settings() map[string]interface{} {
	warn := map[string]interface{}{}
	for k, tag := range c17FlagTags {
		warn[tag] = c.flags[k] == '1'
	}
	return map[string]interface{}{"luahelper": map[string]interface{}{
		"base": map[string]interface{}{"IgnoreFileOrDir": c.ih, "IgnoreFileOrDirError": c.ie},
		"Warn": warn}}
}

func (j *c17JSON) content() []byte {
	fts := []map[string]interface{}{}
	for _, e := range j.ft {
		fts = append(fts, map[string]interface{}{"File": e.name, "Types": e.types})
	}
	m := map[string]interface{}{"ShowWarnFlag": j.show, "IgnoreErrorTypes": j.ign, "OpenErrorTypes": j.open,
		"IgnoreFileOrFloder": j.ih, "IgnoreFileErr": j.ie, "IgnoreFileErrTypes": fts}
	b, _ := json.Marshal(m)
	return b
}

func c17CheckWs(c *c17Case) map[string]string {
	ws, ok := c17Workspaces[c.ws]
	if !ok {
		panic("unknown workspace " + c.ws)
	}
	names := []string{}
	for k := range ws {
		names = append(names, k)
	}
	sort.Strings(names)
	if strings.Join(names, ",") != strings.Join(c.files, ",") {
		panic("file list of the case differs from workspace " + c.ws)
	}
	return ws
}

// c17LockRoot serialises the users of one workspace directory (fixed roots of corpus / known-finding cases may be
// used by two checks running at the same time); the lock is released when the process exits
var c17RandomRoot = regexp.MustCompile(`^/tmp/lhc17/(r|server/meta)[0-9a-f]{12}$`)

func c17LockRoot(root string) *os.File {
	if c17RandomRoot.MatchString(root) {
		return nil // generated once per case from 48 random bits: nobody else uses it
	}
	dir := c17TmpRoot + "locks"
	os.MkdirAll(dir, 0755)
	f, err := os.OpenFile(filepath.Join(dir, hx([]byte(root))), os.O_CREATE|os.O_RDWR, 0644)
	if err != nil {
		return nil
	}
	syscall.Flock(int(f.Fd()), syscall.LOCK_EX)
	return f
}

// c17Dying: is some goroutine of this process inside a panic / fatal error?  jrpc2 runs its handlers with
// `defer wg.Done()` / `defer s.nbar.Done()`, so a handler that panics still lets the dispatcher answer (with a null
// result) while the runtime is on its way to exit(2); the main goroutine could then print an answer and leave with
// status 0 first.  A panicking goroutine never leaves runtime.gopanic again, and the answers that let the main
// goroutine get here are only sent after it entered it, so this test is not a race.
func c17Dying() bool {
	buf := make([]byte, 4<<20)
	n := runtime.Stack(buf, true)
	st := string(buf[:n])
	for _, mark := range []string{"\npanic(", "runtime.gopanic", "runtime.fatalpanic", "runtime.throw", "runtime.fatalthrow"} {
		if strings.Contains(st, mark) {
			return true
		}
	}
	return false
}

// c17Answer hands the answer of a child to main() unless the process is dying: then it waits for its death, which the
// parent reports as CRASH <reason>
func c17Answer(a string) string {
	if c17Dying() {
		if os.Getenv("C17_DEBUG") != "" {
			fmt.Fprintln(os.Stderr, "c17: answer withheld, a goroutine is panicking")
		}
		select {}
	}
	return a
}

// runs in the child process
func c17Child(line string) string {
	return c17Answer(c17ChildRun(line))
}

func c17ChildRun(line string) string {
	c := c17ParseCase(line)
	ws := c17CheckWs(c)
	if !strings.HasPrefix(c.root, c17TmpRoot) || strings.Contains(c.root, "..") {
		return "BAD-CASE root"
	}
	lock := c17LockRoot(c.root)
	defer func() {
		os.RemoveAll(c.root)
		if lock != nil {
			lock.Close()
		}
	}()
	if c.js != nil && c.js.entry {
		return "BAD-CASE entry files are outside the modelled fragment"
	}
	if err := c17WriteWorkspace(c.root, ws, nil); err != nil {
		return "BAD-CASE " + err.Error()
	}
	if c.js != nil {
		if err := ioutil.WriteFile(filepath.Join(c.root, "luahelper.json"), c.js.content(), 0644); err != nil {
			return "BAD-CASE " + err.Error()
		}
	}
	s := c17Start(c.root)
	if r := s.initialize(c.c0.initOptions()); r != "OK" {
		if strings.HasPrefix(r, "ERR") {
			return "INIT-ERROR"
		}
		return "INIT-" + r
	}
	for _, ch := range c.changes {
		if r := s.changeConfiguration(ch.settings()); r != "OK" {
			return "CHANGE-" + r
		}
	}
	return c17DiagString(s.snapshot())
}

// c17.sites: the two places where the ignore-for-analysis rules decide, observed through the protocol only.
//
//	S = per file: did the start-up walk (or the re-walk after a settings change) scan it?  (the client holds
//	    diagnostics of the file; the generator keeps every switch on and uses no silencing rule, and every file of the
//	    test workspaces has a diagnostic of its own)
//	A = per file: does the per-file predicate (IsNeedHandle) accept it?  didOpen + didChange to a text whose only
//	    statement is a syntax error on line c17ProbeLine: a refused file gets no diagnostic there
const c17ProbeLine = 300

func c17SitesChild(line string) string {
	return c17Answer(c17SitesChildRun(line))
}

func c17SitesChildRun(line string) string {
	c := c17ParseCase(line)
	ws := c17CheckWs(c)
	if !strings.HasPrefix(c.root, c17TmpRoot) || strings.Contains(c.root, "..") {
		return "BAD-CASE root"
	}
	lock := c17LockRoot(c.root)
	defer func() {
		os.RemoveAll(c.root)
		if lock != nil {
			lock.Close()
		}
	}()
	if err := c17WriteWorkspace(c.root, ws, nil); err != nil {
		return "BAD-CASE " + err.Error()
	}
	if c.js != nil {
		if c.js.entry {
			return "BAD-CASE entry files are outside the modelled fragment"
		}
		if err := ioutil.WriteFile(filepath.Join(c.root, "luahelper.json"), c.js.content(), 0644); err != nil {
			return "BAD-CASE " + err.Error()
		}
	}
	s := c17Start(c.root)
	if r := s.initialize(c.c0.initOptions()); r != "OK" {
		if strings.HasPrefix(r, "ERR") {
			return "INIT-ERROR"
		}
		return "INIT-" + r
	}
	for _, ch := range c.changes {
		if r := s.changeConfiguration(ch.settings()); r != "OK" {
			return "CHANGE-" + r
		}
	}
	scanned := make([]byte, len(c.files))
	for i, f := range c.files {
		scanned[i] = '0'
		if s.hasDiags(f) {
			scanned[i] = '1'
		}
	}
	accepted := make([]byte, len(c.files))
	probe := strings.Repeat("\n", c17ProbeLine) + "x = = 1\n"
	for i, f := range c.files {
		s.didOpen(f, ws[f])
		s.didChangeFull(f, probe)
		if r := s.fence(); r != "OK" {
			return "PROBE-" + r
		}
		accepted[i] = '0'
		if s.hasDiagAtLine(f, c17ProbeLine) {
			accepted[i] = '1'
		}
	}
	return "S=" + string(scanned) + " A=" + string(accepted)
}

// ---- c17.live: unsaved buffers and settings changes ----

// the texts an unsaved buffer is changed to (index k of the script steps b<i>.<k> / B<i>.<k>); every one has at least
// one syntax error
var c17LiveTexts = []string{
	"local function h(\n",
	"x = = 1\n",
	"local a = 1\nif a\nend\n",
	"return return\n",
	"\n\nfor i = 1 do\n",
	"local t = {\n",
}

// a text without any syntax error
const c17LiveClean = "local zz = 1\nreturn zz\n"

func c17LiveChild(line string) string {
	return c17Answer(c17LiveChildRun(line))
}

// script (7th field): steps separated by ","
//
//	b<i>.<k>  didOpen of file i (its text on disk) followed by didChange to probe text k
//	B<i>.<k>  didChange only (the file was opened by an earlier step)
//	g<i>      didOpen + didChange to the clean text;  G<i>  didChange only
//	c<j>      workspace/didChangeConfiguration number j of the case's list
func c17LiveChildRun(line string) string {
	c := c17ParseCase(line)
	ws := c17CheckWs(c)
	if len(c.rest) < 1 {
		return "BAD-CASE script"
	}
	if !strings.HasPrefix(c.root, c17TmpRoot) || strings.Contains(c.root, "..") {
		return "BAD-CASE root"
	}
	lock := c17LockRoot(c.root)
	defer func() {
		os.RemoveAll(c.root)
		if lock != nil {
			lock.Close()
		}
	}()
	if err := c17WriteWorkspace(c.root, ws, nil); err != nil {
		return "BAD-CASE " + err.Error()
	}
	if c.js != nil {
		if c.js.entry {
			return "BAD-CASE entry files are outside the modelled fragment"
		}
		if err := ioutil.WriteFile(filepath.Join(c.root, "luahelper.json"), c.js.content(), 0644); err != nil {
			return "BAD-CASE " + err.Error()
		}
	}
	s := c17Start(c.root)
	if r := s.initialize(c.c0.initOptions()); r != "OK" {
		if strings.HasPrefix(r, "ERR") {
			return "INIT-ERROR"
		}
		return "INIT-" + r
	}
	views := []string{c17DiagString(s.snapshot())}
	last := views[0]
	if c.rest[0] != "-" {
		for _, st := range strings.Split(c.rest[0], ",") {
			if len(st) < 2 {
				return "BAD-CASE step " + st
			}
			arg := strings.Split(st[1:], ".")
			n, err := strconv.Atoi(arg[0])
			if err != nil || n < 0 {
				return "BAD-CASE step " + st
			}
			switch st[0] {
			case 'b', 'B', 'g', 'G':
				if n >= len(c.files) {
					return "BAD-CASE step " + st
				}
				text := c17LiveClean
				if st[0] == 'b' || st[0] == 'B' {
					if len(arg) != 2 {
						return "BAD-CASE step " + st
					}
					k, err := strconv.Atoi(arg[1])
					if err != nil || k < 0 || k >= len(c17LiveTexts) {
						return "BAD-CASE step " + st
					}
					text = c17LiveTexts[k]
				}
				f := c.files[n]
				if st[0] == 'b' || st[0] == 'g' {
					s.didOpen(f, ws[f])
				}
				s.didChangeFull(f, text)
				if r := s.fence(); r != "OK" {
					return "STEP-" + r
				}
			case 'c':
				if n >= len(c.changes) {
					return "BAD-CASE step " + st
				}
				if r := s.changeConfiguration(c.changes[n].settings()); r != "OK" {
					return "CHANGE-" + r
				}
			default:
				return "BAD-CASE step " + st
			}
			v := c17DiagString(s.snapshot())
			if v == last {
				views = append(views, "=")
			} else {
				views = append(views, v)
				last = v
			}
		}
	}
	return strings.Join(views, "|")
}

// c17.syn: "<k>" -> the syntax errors of probe text k as the live analysis of an unsaved buffer reports them with every
// check enabled: "<line>:<col>" separated by "." (one clean file, didOpen + didChange)
func c17SynChildRun(line string) string {
	k, err := strconv.Atoi(strings.TrimSpace(line))
	if err != nil || k < 0 || k >= len(c17LiveTexts) {
		return "BAD-CASE"
	}
	root := fmt.Sprintf("%ssyn/%d", c17TmpRoot, os.Getpid())
	defer os.RemoveAll(root)
	if err := c17WriteWorkspace(root, map[string]string{"p.lua": c17LiveClean}, nil); err != nil {
		return "BAD-CASE " + err.Error()
	}
	j := &c17JSON{show: 1, ign: []int{}, open: []int{22, 23, 24, 25, 26, 27, 28, 29}, ih: []string{}, ie: []string{}}
	if err := ioutil.WriteFile(filepath.Join(root, "luahelper.json"), j.content(), 0644); err != nil {
		return "BAD-CASE " + err.Error()
	}
	s := c17Start(root)
	if r := s.initialize(map[string]interface{}{"LocalRun": false}); r != "OK" {
		return "SYN-INIT-" + r
	}
	s.didOpen("p.lua", c17LiveClean)
	s.didChangeFull("p.lua", c17LiveTexts[k])
	if r := s.fence(); r != "OK" {
		return "SYN-" + r
	}
	parts := []string{}
	for _, d := range s.snapshot() {
		if d.File != "p.lua" || d.Type != 1 {
			return "SYN-UNEXPECTED " + c17DiagString(s.snapshot())
		}
		parts = append(parts, fmt.Sprintf("%d:%d", d.Line, d.Col))
	}
	if len(parts) == 0 {
		return "SYN-NONE"
	}
	return strings.Join(parts, ".")
}

func c17RawChild(line string) string {
	return c17Answer(c17RawChildRun(line))
}

func c17RawChildRun(line string) string {
	f := strings.Fields(line)
	if len(f) != 2 {
		return "BAD-CASE"
	}
	ws, ok := c17Workspaces[f[0]]
	if !ok {
		return "BAD-CASE ws"
	}
	names := []string{}
	for k := range ws {
		names = append(names, k)
	}
	sort.Strings(names)
	if len(f[1]) != len(names) {
		return "BAD-CASE mask"
	}
	ignore := []string{}
	for i, n := range names {
		if f[1][i] == '0' {
			ignore = append(ignore, n)
		}
	}
	root := fmt.Sprintf("%sraw/%d", c17TmpRoot, os.Getpid())
	defer os.RemoveAll(root)
	if err := c17WriteWorkspace(root, ws, nil); err != nil {
		return "BAD-CASE " + err.Error()
	}
	j := &c17JSON{show: 1, ign: []int{}, open: []int{22, 23, 24, 25, 26, 27, 28, 29}, ih: ignore, ie: []string{}}
	if err := ioutil.WriteFile(filepath.Join(root, "luahelper.json"), j.content(), 0644); err != nil {
		return "BAD-CASE " + err.Error()
	}
	s := c17Start(root)
	if r := s.initialize(map[string]interface{}{"LocalRun": false}); r != "OK" {
		return "RAW-INIT-" + r
	}
	ds := s.snapshot()
	if len(ds) == 0 {
		return "_"
	}
	parts := []string{}
	for _, d := range ds {
		e := fmt.Sprintf("%s:%d:%d:%d", hx([]byte(d.File)), d.Type, d.Line, d.Col)
		if ref, ok := c17Refs[fmt.Sprintf("%s/%s:%d", f[0], d.File, d.Line)]; ok && d.Type == 11 {
			e += ":" + hx([]byte(ref))
		}
		parts = append(parts, e)
	}
	return strings.Join(parts, ",")
}

// c17Spawn re-executes the harness binary with the given leg for exactly one case
func c17Spawn(leg, line string, cleanup string) string {
	cmd := exec.Command(os.Args[0], leg)
	cmd.Stdin = strings.NewReader(line + "\n")
	var out, errb bytes.Buffer
	cmd.Stdout = &out
	cmd.Stderr = &errb
	if err := cmd.Start(); err != nil {
		return "SPAWN-ERROR " + err.Error()
	}
	done := make(chan error, 1)
	go func() { done <- cmd.Wait() }()
	res := ""
	select {
	case werr := <-done:
		o := strings.TrimRight(out.String(), "\n")
		// the exit status decides: while the Go runtime is still printing the panic of a server goroutine, the other
		// goroutines of the dying child keep running and may even print an answer line
		if werr == nil && o != "" && !strings.Contains(o, "\n") {
			res = o
		} else {
			e := errb.String()
			switch {
			case strings.Contains(e, "regexp: Compile("):
				res = "CRASH regexp"
			case strings.Contains(e, "assignment to entry in nil map"):
				res = "CRASH nil-map"
			case strings.Contains(e, "stack overflow") || strings.Contains(e, "goroutine stack exceeds"):
				res = "CRASH stack-overflow"
			case strings.Contains(e, "concurrent map"):
				res = "CRASH concurrent-map"
			default:
				msg := "exit"
				for _, l := range strings.Split(e, "\n") {
					if strings.HasPrefix(l, "panic:") || strings.HasPrefix(l, "fatal error:") {
						msg = l
						break
					}
				}
				if len(msg) > 100 {
					msg = msg[:100]
				}
				res = "CRASH " + msg
			}
		}
	case <-time.After(90 * time.Second):
		cmd.Process.Kill()
		res = "TIMEOUT"
	}
	if cleanup != "" && strings.HasPrefix(cleanup, c17TmpRoot) && (strings.HasPrefix(res, "CRASH") || res == "TIMEOUT") {
		// the child could not clean up itself
		lock := c17LockRoot(cleanup)
		os.RemoveAll(cleanup)
		if lock != nil {
			lock.Close()
		}
	}
	return res
}

func c17Ancestors(rel string) []string {
	out := []string{}
	for i := 0; i < len(rel); i++ {
		if rel[i] == '/' {
			out = append(out, rel[:i+1])
		}
	}
	return out
}

func init() {
	register("c17.child", c17Child)
	register("c17.rawchild", c17RawChild)
	register("c17.filter", func(line string) string {
		c := c17ParseCase(line)
		return c17Spawn("c17.child", line, c.root)
	})
	register("c17.siteschild", c17SitesChild)
	register("c17.sites", func(line string) string {
		c := c17ParseCase(line)
		return c17Spawn("c17.siteschild", line, c.root)
	})
	register("c17.livechild", c17LiveChild)
	register("c17.live", func(line string) string {
		c := c17ParseCase(line)
		return c17Spawn("c17.livechild", line, c.root)
	})
	register("c17.synchild", func(line string) string { return c17Answer(c17SynChildRun(line)) })
	register("c17.syn", func(line string) string {
		return c17Spawn("c17.synchild", line, "")
	})
	register("c17.raw", func(line string) string {
		return c17Spawn("c17.rawchild", line, "")
	})
	register("c17.wsinfo", func(line string) string {
		ws, ok := c17Workspaces[strings.TrimSpace(line)]
		if !ok {
			return "UNKNOWN"
		}
		names := []string{}
		for k := range ws {
			names = append(names, k)
		}
		sort.Strings(names)
		return strings.Join(names, ",")
	})
	// oracle: the regexp engine itself, not LuaHelper code
	register("c17.re", func(line string) string {
		c := c17ParseCase(line)
		pats := []string{}
		seen := map[string]bool{}
		add := func(l []string) {
			for _, p := range l {
				if !seen[p] {
					seen[p] = true
					pats = append(pats, p)
				}
			}
		}
		if c.js != nil {
			add(c.js.ih)
			add(c.js.ie)
			for _, e := range c.js.ft {
				add([]string{e.name})
			}
		}
		add(c.c0.ih)
		add(c.c0.ie)
		for _, ch := range c.changes {
			add(ch.ih)
			add(ch.ie)
		}
		add([]string{"server/meta"})
		subs := []string{}
		for _, f := range c.files {
			subs = append(subs, c.root+"/"+f)
		}
		subs = append(subs, c.files...)
		for _, f := range c.files { // the name as IsIgnoreCompleteFile sees it: main dir trimmed off, separator kept
			subs = append(subs, "/"+f)
		}
		seenD := map[string]bool{}
		for _, f := range c.files {
			for _, d := range c17Ancestors(f) {
				if !seenD[d] {
					seenD[d] = true
					subs = append(subs, d)
				}
			}
		}
		rows := []string{}
		for _, p := range pats {
			re, err := regexp.Compile(p)
			if err != nil {
				rows = append(rows, hx([]byte(p))+"=E")
				continue
			}
			bits := make([]byte, len(subs))
			for i, s := range subs {
				bits[i] = '0'
				if re.MatchString(s) {
					bits[i] = '1'
				}
			}
			rows = append(rows, hx([]byte(p))+"="+string(bits))
		}
		return strings.Join(rows, ",")
	})
}
