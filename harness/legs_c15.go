package main

// C15 correspondence leg `c15.members`: a class graph (serialised in the case line, see ocaml/c15_run.ml for the
// format) is rendered to annotation comments in the Lua files of a temporary workspace; the REAL server answers
// completion after `v.` / `v[1].` / `v.zqk.` / `d.<member>.` / loop variables and go-to-definition on `d.<member>`.
// The server runs in a child process (re-exec of this binary, leg `c15.child`): a fatal stack overflow cannot be
// recovered, and every server leaks a telemetry socket, so a child is retired after a number of cases.

import (
	"bufio"
	"bytes"
	"fmt"
	"io"
	"io/ioutil"
	"os"
	"os/exec"
	"path/filepath"
	"regexp"
	"runtime/debug"
	"sort"
	"strconv"
	"strings"
	"time"
)

func init() {
	register("c15.members", c15Parent)
	register("c15.child", c15Case)
}

// ---------------------------------------------------------------- parent: child management

type c15Child struct {
	cmd    *exec.Cmd
	in     io.WriteCloser
	out    *bufio.Reader
	errBuf *bytes.Buffer
	served int
}

var c15Cur *c15Child

func c15Spawn() *c15Child { return c15SpawnLeg("c15.child") }

func c15SpawnLeg(childLeg string) *c15Child {
	cmd := exec.Command(os.Args[0], childLeg)
	in, _ := cmd.StdinPipe()
	outp, _ := cmd.StdoutPipe()
	eb := &bytes.Buffer{}
	cmd.Stderr = &c15Capped{buf: eb, max: 1 << 16}
	if err := cmd.Start(); err != nil {
		panic(err)
	}
	return &c15Child{cmd: cmd, in: in, out: bufio.NewReaderSize(outp, 1<<20), errBuf: eb}
}

// keeps only the first bytes of stderr (a Go stack-overflow dump is long)
type c15Capped struct {
	buf *bytes.Buffer
	max int
}

func (c *c15Capped) Write(p []byte) (int, error) {
	if c.buf.Len() < c.max {
		n := c.max - c.buf.Len()
		if n > len(p) {
			n = len(p)
		}
		c.buf.Write(p[:n])
	}
	return len(p), nil
}

func (c *c15Child) kill() {
	c.in.Close()
	if c.cmd.Process != nil {
		c.cmd.Process.Kill()
	}
	c.cmd.Wait()
}

func c15Parent(line string) string { return c15ParentOf(&c15Cur, "c15.child", line) }

// c15ParentOf: the same child management for another child leg (used by c16.server)
func c15ParentOf(cur **c15Child, childLeg string, line string) string {
	if (*cur) != nil && (*cur).served >= 150 {
		(*cur).kill()
		(*cur) = nil
	}
	if (*cur) == nil {
		*cur = c15SpawnLeg(childLeg)
	}
	c := (*cur)
	c.served++
	if _, err := io.WriteString(c.in, line+"\n"); err != nil {
		c.kill()
		(*cur) = nil
		return "CRASH write " + err.Error()
	}
	type ans struct {
		s   string
		err error
	}
	ch := make(chan ans, 1)
	go func() {
		s, err := c.out.ReadString('\n')
		ch <- ans{s, err}
	}()
	select {
	case a := <-ch:
		if a.err == nil {
			return strings.TrimRight(a.s, "\r\n")
		}
		// child died: classify like lib/vlib.py does for a dead worker
		c.cmd.Wait()
		(*cur) = nil
		e := c.errBuf.String()
		switch {
		case strings.Contains(e, "stack overflow") || strings.Contains(e, "goroutine stack exceeds"):
			return "CRASH stack-overflow"
		case strings.Contains(e, "concurrent map"):
			return "CRASH concurrent-map"
		case strings.Contains(e, "fatal error"):
			return "CRASH fatal"
		case strings.Contains(e, "panic:"):
			m := regexp.MustCompile(`panic: (.*)`).FindStringSubmatch(e)
			msg := ""
			if m != nil {
				msg = m[1]
				if len(msg) > 80 {
					msg = msg[:80]
				}
			}
			return "CRASH panic " + msg
		default:
			return fmt.Sprintf("CRASH exit=%v", c.cmd.ProcessState)
		}
	case <-time.After(30 * time.Second):
		c.kill()
		(*cur) = nil
		return "TIMEOUT"
	}
}

// ---------------------------------------------------------------- the case

type c15Field struct {
	name, line int
	ty         string
}
type c15Def struct {
	file, hdr, last int
	class           bool
	name            int
	parents         []int
	fields          []c15Field
	ty              string
}

func c15Atoi(s string) int {
	n, err := strconv.Atoi(s)
	if err != nil {
		panic("bad number " + s)
	}
	return n
}

func c15Split(s, sep string) []string {
	if s == "-" || s == "" {
		return nil
	}
	return strings.Split(s, sep)
}

func c15TypeName(k int) string {
	switch k {
	case 0:
		return "any"
	case 1:
		return "table"
	case 2:
		return "function"
	case 3:
		return "number"
	}
	return "T" + strconv.Itoa(k)
}

// c15RenderType turns the compact type syntax into annotation text
func c15RenderType(s string) string {
	var b strings.Builder
	i := 0
	for i < len(s) {
		c := s[i]
		switch {
		case c == 'n':
			j := i + 1
			for j < len(s) && s[j] >= '0' && s[j] <= '9' {
				j++
			}
			b.WriteString(c15TypeName(c15Atoi(s[i+1 : j])))
			i = j
		case c == 't' && i+1 < len(s) && s[i+1] == 'e':
			b.WriteString("table")
			i += 2
		case c == 't' && i+1 < len(s) && s[i+1] == '<':
			b.WriteString("table<")
			i += 2
		case c == 'f' && i+1 < len(s) && s[i+1] == 'n':
			b.WriteString("(fun():number)")
			i += 2
		case c == 'c' && i+1 < len(s) && s[i+1] == 's':
			b.WriteString(`'"k"'`)
			i += 2
		case c == ',':
			b.WriteString(", ")
			i++
		case c == '|':
			b.WriteString(" | ")
			i++
		default: // ( ) [ ] >
			b.WriteByte(c)
			i++
		}
	}
	return b.String()
}

func c15ParseDef(s string) c15Def {
	p := strings.Split(s, ":")
	if len(p) < 5 {
		panic("bad def " + s)
	}
	d := c15Def{file: c15Atoi(p[0]), hdr: c15Atoi(p[1]), last: c15Atoi(p[2]), name: c15Atoi(p[3][1:])}
	switch p[3][0] {
	case 'c':
		if len(p) != 6 {
			panic("bad class def " + s)
		}
		d.class = true
		for _, x := range c15Split(p[4], ",") {
			d.parents = append(d.parents, c15Atoi(x))
		}
		for _, x := range c15Split(p[5], "+") {
			a := strings.Index(x, "@")
			t := strings.Index(x, "~")
			d.fields = append(d.fields, c15Field{c15Atoi(x[:a]), c15Atoi(x[a+1 : t]), x[t+1:]})
		}
	case 'a':
		d.ty = p[4]
	default:
		panic("bad def kind " + s)
	}
	return d
}

// c15Remark: a comment line that is not a (valid) annotation, chosen by the line number
func c15Remark(ln int) string {
	switch ln % 4 {
	case 0:
		return "-- current leaf"
	case 1:
		return "-- luacheck: ignore"
	case 2:
		return "---@zznote kept for later"
	}
	return "--- see the manual"
}

const c15Prefix = "zq" // placeholder member names written into the probe lines; never a field name

func c15Labels(ls []string) string {
	m := map[string]bool{}
	out := []string{}
	for _, l := range ls {
		if strings.HasPrefix(l, c15Prefix) || m[l] {
			continue
		}
		m[l] = true
		out = append(out, l)
	}
	if len(out) == 0 {
		return "-"
	}
	sort.Strings(out)
	return strings.Join(out, ",")
}

var c15StackOnce bool

func c15Case(line string) string {
	if !c15StackOnce {
		// an unbounded recursion is detected at 64 MB instead of 1 GB of stack (same fatal error, much faster)
		debug.SetMaxStack(64 << 20)
		c15StackOnce = true
	}
	f := strings.Fields(line)
	if len(f) != 6 {
		return "BAD-CASE fields"
	}
	q, f0, l0, ty := f[0], c15Atoi(f[1]), c15Atoi(f[2]), f[3]
	univ := []int{}
	for _, x := range c15Split(f[4], ",") {
		univ = append(univ, c15Atoi(x))
	}
	defs := []c15Def{}
	for _, x := range c15Split(f[5], ";") {
		defs = append(defs, c15ParseDef(x))
	}

	// ---- layout: 1-based line arrays per file
	nfiles := f0 + 1
	for _, d := range defs {
		if d.file+1 > nfiles {
			nfiles = d.file + 1
		}
	}
	files := make([]map[int]string, nfiles)
	for i := range files {
		files[i] = map[int]string{}
	}
	put := func(fi, ln int, s string) bool {
		if ln < 1 || files[fi][ln] != "" {
			return false
		}
		files[fi][ln] = s
		return true
	}
	type fieldKey struct{ file, line int }
	fieldAt := map[fieldKey]int{}
	declCount := map[int]int{}
	for _, d := range defs {
		var hdr string
		if d.class {
			hdr = "---@class " + c15TypeName(d.name)
			for i, p := range d.parents {
				if i == 0 {
					hdr += " : "
				} else {
					hdr += ", "
				}
				hdr += c15TypeName(p)
			}
		} else {
			hdr = "---@alias " + c15TypeName(d.name) + " " + c15RenderType(d.ty)
		}
		if !put(d.file, d.hdr, hdr) {
			return "BAD-CASE layout hdr"
		}
		for _, fl := range d.fields {
			if !put(d.file, fl.line, "---@field f"+strconv.Itoa(fl.name)+" "+c15RenderType(fl.ty)) {
				return "BAD-CASE layout field"
			}
			fieldAt[fieldKey{d.file, fl.line}] = fl.name
			declCount[fl.name]++
		}
	}
	// remark lines (not annotations) inside the comment blocks of the definitions: every line between a header and
	// the block's last line that the case leaves unassigned
	for _, d := range defs {
		for ln := d.hdr + 1; ln <= d.last; ln++ {
			if files[d.file][ln] == "" {
				put(d.file, ln, c15Remark(ln))
			}
		}
	}
	tyText := c15RenderType(ty)
	// query letter R: a remark line between the ---@type line of v and `local v`; S: the same for d.  The five lines
	// l0..l0+4 are kept (the model's sites are l0 and l0+3, no definition lies in between)
	switch {
	case strings.Contains(q, "R"):
		if !put(f0, l0, "---@type "+tyText) || !put(f0, l0+1, c15Remark(l0)) || !put(f0, l0+2, "local v") ||
			!put(f0, l0+3, "---@type "+tyText) || !put(f0, l0+4, "local d") {
			return "BAD-CASE layout var"
		}
	case strings.Contains(q, "S"):
		if !put(f0, l0, "---@type "+tyText) || !put(f0, l0+1, "local v") ||
			!put(f0, l0+2, "---@type "+tyText) || !put(f0, l0+3, c15Remark(l0)) || !put(f0, l0+4, "local d") {
			return "BAD-CASE layout var"
		}
	default:
		if !put(f0, l0, "---@type "+tyText) || !put(f0, l0+1, "local v") ||
			!put(f0, l0+3, "---@type "+tyText) || !put(f0, l0+4, "local d") {
			return "BAD-CASE layout var"
		}
	}
	// every definition's LastLine must be the end of the comment block that contains its header
	for _, d := range defs {
		e := d.hdr
		for strings.HasPrefix(files[d.file][e+1], "--") {
			e++
		}
		if e != d.last {
			return fmt.Sprintf("BAD-CASE layout last %d != %d", e, d.last)
		}
	}
	if files[f0][l0-1] != "" || (files[f0][l0+2] != "" && !strings.ContainsAny(q, "RS")) || files[f0][l0+5] != "" {
		return "BAD-CASE layout var not isolated"
	}

	// ---- probe lines at the end of the query file
	maxLine := 0
	for ln := range files[f0] {
		if ln > maxLine {
			maxLine = ln
		}
	}
	type probe struct {
		kind string
		line int // 0-based
		ch   int
		key  int
	}
	probes := []probe{}
	next := maxLine + 2
	addProbe := func(kind, text, marker string, key int) {
		files[f0][next] = text
		probes = append(probes, probe{kind, next - 1, strings.Index(text, marker) + len(marker), key})
	}
	if strings.Contains(q, "M") {
		addProbe("M", "print(v.zq0)", "v.", 0)
		next++
	}
	if strings.Contains(q, "I") {
		addProbe("I", "print(v[1].zq1)", "v[1].", 0)
		next++
	}
	if strings.Contains(q, "K") {
		addProbe("K", "print(v.zqk.zq2)", "v.zqk.", 0)
		next++
	}
	if strings.Contains(q, "D") {
		for _, k := range univ {
			addProbe("D", "print(d.f"+strconv.Itoa(k)+")", "d.f", k)
			next++
		}
	}
	if strings.Contains(q, "P") {
		t1 := "for zqa, zqb in pairs(v) do print(zqa.zq3, zqb.zq4) end"
		addProbe("PK", t1, "zqa.", 0)
		addProbe("PV", t1, "zqb.", 0)
		next++
		addProbe("IV", "for zqc, zqd in ipairs(v) do print(zqd.zq5) end", "zqd.", 0)
		next++
	}
	if strings.Contains(q, "F") {
		// a two-step prefix through a member: completion after `d.f<k>.` for every k of the universe
		for _, k := range univ {
			addProbe("F", "print(d.f"+strconv.Itoa(k)+".zq6)", "d.f"+strconv.Itoa(k)+".", k)
			next++
		}
	}

	// ---- write the workspace
	root, err := ioutil.TempDir("", "c15w-")
	if err != nil {
		return "BAD-CASE tmpdir"
	}
	defer os.RemoveAll(root)
	root, _ = filepath.EvalSymlinks(root)
	var qtext string
	for i, m := range files {
		last := 0
		for ln := range m {
			if ln > last {
				last = ln
			}
		}
		var b strings.Builder
		for ln := 1; ln <= last; ln++ {
			b.WriteString(m[ln])
			b.WriteByte('\n')
		}
		if i == f0 {
			qtext = b.String()
		}
		if err := ioutil.WriteFile(filepath.Join(root, fmt.Sprintf("m%d.lua", i)), []byte(b.String()), 0644); err != nil {
			return "BAD-CASE write"
		}
	}

	// ---- the real server
	srv, err := c15Start(root)
	if err != nil {
		return "ERR initialize " + err.Error()
	}
	defer srv.stop()
	uri := "file://" + filepath.Join(root, fmt.Sprintf("m%d.lua", f0))
	srv.didOpen(uri, qtext)

	parts := []string{}
	dparts := []string{}
	fparts := []string{}
	for _, p := range probes {
		if p.kind == "F" {
			ls, err := srv.complete(uri, p.line, p.ch)
			if err != nil {
				return "ERR completion " + err.Error()
			}
			name := "f" + strconv.Itoa(p.key)
			if declCount[p.key] >= 2 {
				// several ---@field lines of that name: which one the step selects is not specified
				fparts = append(fparts, name+":*")
			} else {
				fparts = append(fparts, name+":"+c15Labels(ls))
			}
			continue
		}
		if p.kind == "D" {
			locs, err := srv.define(uri, p.line, p.ch)
			if err != nil {
				return "ERR definition " + err.Error()
			}
			name := "f" + strconv.Itoa(p.key)
			res := name + "@-"
			if len(locs) > 0 {
				base := filepath.Base(locs[0].URI)
				if strings.HasPrefix(base, "m") && strings.HasSuffix(base, ".lua") {
					fi, e := strconv.Atoi(base[1 : len(base)-4])
					if e == nil {
						if k, ok := fieldAt[fieldKey{fi, locs[0].Line + 1}]; ok && k == p.key {
							if declCount[p.key] >= 2 {
								res = name + "@*"
							} else {
								res = fmt.Sprintf("%s@%d:%d", name, fi, locs[0].Line+1)
							}
						}
					}
				}
			}
			dparts = append(dparts, res)
			continue
		}
		ls, err := srv.complete(uri, p.line, p.ch)
		if err != nil {
			return "ERR completion " + err.Error()
		}
		parts = append(parts, p.kind+"="+c15Labels(ls))
	}
	if strings.Contains(q, "D") {
		ds := "-"
		if len(dparts) > 0 {
			ds = strings.Join(dparts, ",")
		}
		// keep the order of the model's line: M I K D PK PV IV
		idx := 0
		for idx < len(parts) && !strings.HasPrefix(parts[idx], "P") && !strings.HasPrefix(parts[idx], "IV=") {
			idx++
		}
		parts = append(parts[:idx], append([]string{"D=" + ds}, parts[idx:]...)...)
	}
	if strings.Contains(q, "F") {
		fs := "-"
		if len(fparts) > 0 {
			fs = strings.Join(fparts, ";")
		}
		parts = append(parts, "F="+fs)
	}
	return strings.Join(parts, " ")
}
