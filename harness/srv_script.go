package main

// Generic scripted driver of the REAL language server (langserver.CreateServer over channel.Direct, raw JSON-RPC,
// one reader). One case = one fresh subprocess (common.GConfig is a process global; a fatal error must not kill the
// worker): leg "srv.script" re-executes this binary with the hidden leg "srv.one".
//
// Case line: space separated items
//   F:<hex relpath>:<hex content>        a workspace file (written to a temp directory before the server starts)
//   O:<name>=<value>                     initialization option (bool options: 1/0; AllEnable defaults to 1)
//   S:<op>:<args...>                     a step; files are referred to by their index in the F list
//      open:i  change:i:<hex>  save:i  close:i  hover:i:l:c  define:i:l:c  refs:i:l:c  rename:i:l:c:<hex name>
//      highlight:i:l:c  complete:i:l:c  sighelp:i:l:c  docsym:i  wssym:<hex query>  color:i  diags
//   X:link:<hex relpath>:<hex target>    a symbolic link created before the server starts (target taken literally: a
//                                        missing target gives a dangling link, e.g. the Emacs lock file `.#main.lua`)
//   X:dir:<hex relpath>                  a directory created before the server starts (e.g. one NAMED `x.lua`)
//   (items with any other letter are ignored: legs carry data for their model side in them, e.g. G: D: of c13.hover)
//   steps that name a path (relative to the workspace root, hex) instead of an F index - the path need not exist:
//      watch:<t>:<hex rel>[:<t>:<hex rel>...]   ONE workspace/didChangeWatchedFiles notification (t: 1 created, 2 changed,
//                                               3 deleted); the disk is NOT touched (use the fs* steps before it)
//      fswrite:<hex rel>:<hex content>  fsrm:<hex rel>  fsmkdir:<hex rel>  fslink:<hex rel>:<hex target>   disk only, no message
//      popen:<hex rel>:<hex text>  pchange:<hex rel>:<hex text>  psave:<hex rel>[:<hex text>]  pclose:<hex rel>
//                                               didOpen / didChange (full text) / didSave (with or without text) / didClose
//      phover:<hex rel>:l:c  pdocsym:<hex rel>  requests on such a path (pdocsyms:<hex rel> prints the outline entries)
//      alive                                    a fence round trip: `alive=ok` when the server answered it
//      config:<hex JSON settings>               ONE workspace/didChangeConfiguration notification, params {"settings": <that JSON>}
//                                               (e.g. {"luahelper":{"base":{"ReferenceIncudeDefine":false}}}); no answer item
//   K:<k>:<hex JSON settings>            the same notification as an ITEM: sent right before step number k (0 = before the first
//                                        step; k >= number of steps: never). For legs whose model side parses the S:
//                                        steps with ocaml/srv_case.inc.ml (unknown steps are rejected there, other items ignored)
//      rchange:i:sl:sc:el:ec:<hex text>[:<rangeLength>]   incremental didChange (one content change WITH a range; the harness's
//                                               copy of the file text is NOT updated: use it last or follow with change:)
//      nchange:i:<rangeLength>:<hex text>       didChange whose content change has NO range but carries `rangeLength`
//                                               (optional and deprecated in LSP: still a full-text change)
//      resolve:i:l:c:<hex label>                textDocument/completion at the position, then completionItem/resolve of every
//                                               returned item with that label (`-` = every item, at most 60): the
//                                               answer is `resolve=[<hex label>=<hex documentation>,...]` sorted
// Answer: the canonical results of the query steps, joined by " | ".

import (
	"bytes"
	"encoding/json"
	"fmt"
	"io/ioutil"
	"os"
	"os/exec"
	"path/filepath"
	"regexp"
	"sort"
	"strconv"
	"strings"
	"sync"
	"time"

	"github.com/yinfei8/jrpc2"
	"github.com/yinfei8/jrpc2/channel"
	"luahelper-lsp/langserver"
	"luahelper-lsp/langserver/check/common"
	"luahelper-lsp/langserver/log"
)

type scriptSrv struct {
	cch   channel.Channel
	srv   *jrpc2.Server
	id    int
	root  string
	diags map[string][]string // uri -> canonical diagnostics of the last publishDiagnostics
	mu    sync.Mutex
	resp  chan []byte
}

var warnTypeRe = regexp.MustCompile(`^\[Warn type:(\d+)\]`)

func (s *scriptSrv) absorb(m []byte) {
	var msg struct {
		Method string          `json:"method"`
		Params json.RawMessage `json:"params"`
	}
	if json.Unmarshal(m, &msg) != nil || msg.Method != "textDocument/publishDiagnostics" {
		return
	}
	var p struct {
		URI         string `json:"uri"`
		Diagnostics []struct {
			Range   rangeJ `json:"range"`
			Message string `json:"message"`
		} `json:"diagnostics"`
	}
	if json.Unmarshal(msg.Params, &p) != nil {
		return
	}
	out := []string{}
	for _, d := range p.Diagnostics {
		ty := "?"
		if mm := warnTypeRe.FindStringSubmatch(d.Message); mm != nil {
			ty = mm[1]
		}
		out = append(out, fmt.Sprintf("%s@%s", ty, d.Range.String()))
	}
	sort.Strings(out)
	s.diags[p.URI] = out
}

type posJ struct {
	Line      int `json:"line"`
	Character int `json:"character"`
}
type rangeJ struct {
	Start posJ `json:"start"`
	End   posJ `json:"end"`
}

func (r rangeJ) String() string {
	return fmt.Sprintf("%d:%d-%d:%d", r.Start.Line, r.Start.Character, r.End.Line, r.End.Character)
}

// reader is the single goroutine that receives from the server: the Direct channel is unbuffered and the jrpc2
// server pushes notifications while holding its own lock, so the client must never stop reading (a real editor
// reads its pipe concurrently, too). Responses go to s.resp, notifications are folded into s.diags.
func (s *scriptSrv) reader() {
	for {
		m, err := s.cch.Recv()
		if err != nil {
			close(s.resp)
			return
		}
		var msg struct {
			ID     *int   `json:"id"`
			Method string `json:"method"`
		}
		if json.Unmarshal(m, &msg) != nil {
			continue
		}
		if msg.Method != "" {
			s.mu.Lock()
			s.absorb(m)
			s.mu.Unlock()
			continue
		}
		if msg.ID != nil {
			s.resp <- m
		}
	}
}

func (s *scriptSrv) call(method string, params interface{}) (json.RawMessage, string) {
	s.id++
	b, _ := json.Marshal(map[string]interface{}{"jsonrpc": "2.0", "id": s.id, "method": method, "params": params})
	if err := s.cch.Send(b); err != nil {
		return nil, "SENDERR"
	}
	for m := range s.resp {
		var msg struct {
			ID     *int            `json:"id"`
			Result json.RawMessage `json:"result"`
			Error  *struct {
				Code    int    `json:"code"`
				Message string `json:"message"`
			} `json:"error"`
		}
		if json.Unmarshal(m, &msg) != nil {
			continue
		}
		if msg.ID != nil && *msg.ID == s.id {
			if msg.Error != nil {
				return nil, fmt.Sprintf("RPCERR(%d)", msg.Error.Code)
			}
			return msg.Result, ""
		}
	}
	return nil, "RECVERR"
}

func (s *scriptSrv) notify(method string, params interface{}) {
	b, _ := json.Marshal(map[string]interface{}{"jsonrpc": "2.0", "method": method, "params": params})
	s.cch.Send(b)
}

func (s *scriptSrv) rel(uri string) string {
	p := strings.TrimPrefix(uri, "file://")
	if r, err := filepath.Rel(s.root, p); err == nil && !strings.HasPrefix(r, "..") {
		return r
	}
	return "EXT:" + filepath.Base(p)
}

func locsS(s *scriptSrv, raw json.RawMessage) string {
	var locs []struct {
		URI   string `json:"uri"`
		Range rangeJ `json:"range"`
	}
	if string(raw) == "null" || len(raw) == 0 {
		return "[]"
	}
	if json.Unmarshal(raw, &locs) != nil {
		var one struct {
			URI   string `json:"uri"`
			Range rangeJ `json:"range"`
		}
		if json.Unmarshal(raw, &one) != nil {
			return "UNPARSED"
		}
		return "[" + s.rel(one.URI) + "@" + one.Range.String() + "]"
	}
	out := []string{}
	for _, l := range locs {
		out = append(out, s.rel(l.URI)+"@"+l.Range.String())
	}
	sort.Strings(out)
	return "[" + strings.Join(out, ",") + "]"
}

type docSym struct {
	Name           string   `json:"name"`
	Kind           int      `json:"kind"`
	Range          rangeJ   `json:"range"`
	SelectionRange rangeJ   `json:"selectionRange"`
	Children       []docSym `json:"children"`
}

func docSymS(b *strings.Builder, syms []docSym) {
	sort.SliceStable(syms, func(i, j int) bool {
		if syms[i].Name != syms[j].Name {
			return syms[i].Name < syms[j].Name
		}
		return syms[i].Range.String() < syms[j].Range.String()
	})
	b.WriteString("[")
	for i, sy := range syms {
		if i > 0 {
			b.WriteString(",")
		}
		b.WriteString(fmt.Sprintf("%s/%d@%s/%s", hs(sy.Name), sy.Kind, sy.Range.String(), sy.SelectionRange.String()))
		if len(sy.Children) > 0 {
			docSymS(b, sy.Children)
		}
	}
	b.WriteString("]")
}

func runScript(line string) string {
	log.InitLog(false)
	type fileT struct{ rel, abs, content string }
	var files []fileT
	opts := map[string]interface{}{"client": "vsc", "LocalRun": true, "AllEnable": true}
	for _, n := range []string{"CheckSyntax", "CheckNoDefine", "CheckAfterDefine", "CheckLocalNoUse", "CheckTableDuplicateKey",
		"CheckReferNoFile", "CheckAssignParamNum", "CheckLocalDefineParamNum", "CheckGotoLable", "CheckFuncParam",
		"CheckImportModuleVar", "CheckIfNotVar", "CheckFunctionDuplicateParam", "CheckBinaryExpressionDuplicate",
		"CheckErrorOrAlwaysTrue", "CheckErrorAndAlwaysFalse", "CheckNoUseAssign", "CheckAnnotateType", "CheckDuplicateIf",
		"CheckSelfAssign", "CheckFloatEq", "CheckClassField", "CheckConstAssign", "CheckFuncParamType", "CheckFuncReturnType"} {
		opts[n] = true
	}
	var steps []string
	cfgAt := map[int][]json.RawMessage{} // K items: settings notifications by the step they precede
	var links [][2]string
	var dirs []string
	root, err := ioutil.TempDir("", "lhsrv")
	if err != nil {
		return "TMPERR"
	}
	root, _ = filepath.EvalSymlinks(root)
	defer os.RemoveAll(root)
	for _, it := range strings.Fields(line) {
		switch {
		case strings.HasPrefix(it, "F:"):
			p := strings.SplitN(it[2:], ":", 2)
			rel := string(unhex(p[0]))
			files = append(files, fileT{rel, filepath.Join(root, rel), string(unhex(p[1]))})
		case strings.HasPrefix(it, "O:"):
			kv := strings.SplitN(it[2:], "=", 2)
			switch kv[1] {
			case "1":
				opts[kv[0]] = true
			case "0":
				opts[kv[0]] = false
			default:
				opts[kv[0]] = string(unhex(kv[1]))
			}
		case strings.HasPrefix(it, "S:"):
			steps = append(steps, it[2:])
		case strings.HasPrefix(it, "X:link:"):
			p := strings.SplitN(it[7:], ":", 2)
			if len(p) == 2 {
				links = append(links, [2]string{filepath.Join(root, string(unhex(p[0]))), string(unhex(p[1]))})
			}
		case strings.HasPrefix(it, "X:dir:"):
			dirs = append(dirs, filepath.Join(root, string(unhex(it[6:]))))
		case strings.HasPrefix(it, "K:"):
			p := strings.SplitN(it[2:], ":", 2)
			if k, err := strconv.Atoi(p[0]); err == nil && len(p) == 2 {
				cfgAt[k] = append(cfgAt[k], json.RawMessage(unhex(p[1])))
			}
		}
		// every other item (G: D: U: ... = data some leg carries for its MODEL side) is ignored here
	}
	for _, f := range files {
		os.MkdirAll(filepath.Dir(f.abs), 0755)
		ioutil.WriteFile(f.abs, []byte(f.content), 0644)
	}
	for _, d := range dirs {
		os.MkdirAll(d, 0755)
	}
	for _, l := range links {
		os.MkdirAll(filepath.Dir(l[0]), 0755)
		os.Symlink(l[1], l[0])
	}
	common.GlobalConfigDefautInit()
	common.GConfig.IntialGlobalVar()
	srv := langserver.CreateServer()
	cch, sch := channel.Direct()
	srv.Start(sch)
	s := &scriptSrv{cch: cch, srv: srv, root: root, diags: map[string][]string{}, resp: make(chan []byte, 16)}
	go s.reader()
	if _, e := s.call("initialize", map[string]interface{}{"processId": nil, "rootPath": root, "rootUri": "file://" + root,
		"capabilities": map[string]interface{}{}, "initializationOptions": opts}); e != "" {
		return "INIT-" + e
	}
	s.notify("initialized", map[string]interface{}{})
	uri := func(i int) string { return "file://" + files[i].abs }
	td := func(i int) map[string]interface{} { return map[string]interface{}{"uri": uri(i)} }
	tdp := func(i, l, c int) map[string]interface{} {
		return map[string]interface{}{"textDocument": td(i), "position": map[string]interface{}{"line": l, "character": c}}
	}
	version := 1
	var out []string
	atoi := func(x string) int { v, _ := strconv.Atoi(x); return v }
	pabs := func(h string) string { return filepath.Join(root, string(unhex(h))) }
	puri := func(h string) string { return "file://" + root + "/" + string(unhex(h)) }
	sendCfg := func(raw json.RawMessage) {
		if !json.Valid(raw) {
			raw = json.RawMessage("{}")
		}
		s.notify("workspace/didChangeConfiguration", map[string]interface{}{"settings": raw})
	}
	for si, st := range steps {
		for _, raw := range cfgAt[si] {
			sendCfg(raw)
		}
		a := strings.Split(st, ":")
		op := a[0]
		switch op {
		case "config":
			sendCfg(json.RawMessage(unhex(a[1])))
		case "open":
			i := atoi(a[1])
			s.notify("textDocument/didOpen", map[string]interface{}{"textDocument": map[string]interface{}{
				"uri": uri(i), "languageId": "lua", "version": version, "text": files[i].content}})
		case "change":
			i := atoi(a[1])
			files[i].content = string(unhex(a[2]))
			version++
			s.notify("textDocument/didChange", map[string]interface{}{
				"textDocument":   map[string]interface{}{"uri": uri(i), "version": version},
				"contentChanges": []map[string]interface{}{{"text": files[i].content}}})
		case "save":
			i := atoi(a[1])
			ioutil.WriteFile(files[i].abs, []byte(files[i].content), 0644)
			s.notify("textDocument/didSave", map[string]interface{}{"textDocument": td(i), "text": files[i].content})
		case "close":
			s.notify("textDocument/didClose", map[string]interface{}{"textDocument": td(atoi(a[1]))})
		case "hover":
			raw, e := s.call("textDocument/hover", tdp(atoi(a[1]), atoi(a[2]), atoi(a[3])))
			if e != "" {
				out = append(out, "hover="+e)
				break
			}
			var h struct {
				Contents struct {
					Value string `json:"value"`
				} `json:"contents"`
			}
			json.Unmarshal(raw, &h)
			v := strings.ReplaceAll(h.Contents.Value, root, "$ROOT")
			out = append(out, "hover="+hs(v))
		case "define":
			raw, e := s.call("textDocument/definition", tdp(atoi(a[1]), atoi(a[2]), atoi(a[3])))
			if e != "" {
				out = append(out, "define="+e)
			} else {
				out = append(out, "define="+locsS(s, raw))
			}
		case "refs":
			p := tdp(atoi(a[1]), atoi(a[2]), atoi(a[3]))
			p["context"] = map[string]interface{}{"includeDeclaration": true}
			raw, e := s.call("textDocument/references", p)
			if e != "" {
				out = append(out, "refs="+e)
			} else {
				out = append(out, "refs="+locsS(s, raw))
			}
		case "highlight":
			raw, e := s.call("textDocument/documentHighlight", tdp(atoi(a[1]), atoi(a[2]), atoi(a[3])))
			if e != "" {
				out = append(out, "highlight="+e)
				break
			}
			var hl []struct {
				Range rangeJ `json:"range"`
			}
			json.Unmarshal(raw, &hl)
			rs := []string{}
			for _, h := range hl {
				rs = append(rs, h.Range.String())
			}
			sort.Strings(rs)
			out = append(out, "highlight=["+strings.Join(rs, ",")+"]")
		case "rename":
			p := tdp(atoi(a[1]), atoi(a[2]), atoi(a[3]))
			p["newName"] = string(unhex(a[4]))
			raw, e := s.call("textDocument/rename", p)
			if e != "" {
				out = append(out, "rename="+e)
				break
			}
			var we struct {
				Changes map[string][]struct {
					Range   rangeJ `json:"range"`
					NewText string `json:"newText"`
				} `json:"changes"`
			}
			json.Unmarshal(raw, &we)
			rs := []string{}
			for u, eds := range we.Changes {
				for _, e := range eds {
					rs = append(rs, s.rel(u)+"@"+e.Range.String()+"=>"+hs(e.NewText))
				}
			}
			sort.Strings(rs)
			out = append(out, "rename=["+strings.Join(rs, ",")+"]")
		case "complete":
			p := tdp(atoi(a[1]), atoi(a[2]), atoi(a[3]))
			raw, e := s.call("textDocument/completion", p)
			if e != "" {
				out = append(out, "complete="+e)
				break
			}
			var cl struct {
				Items []struct {
					Label string `json:"label"`
					Kind  int    `json:"kind"`
				} `json:"items"`
			}
			json.Unmarshal(raw, &cl)
			rs := []string{}
			for _, it := range cl.Items {
				rs = append(rs, fmt.Sprintf("%s/%d", it.Label, it.Kind))
			}
			sort.Strings(rs)
			out = append(out, "complete=["+strings.Join(rs, ",")+"]")
		case "sighelp":
			_, e := s.call("textDocument/signatureHelp", tdp(atoi(a[1]), atoi(a[2]), atoi(a[3])))
			out = append(out, "sighelp="+map[bool]string{true: "ok", false: e}[e == ""])
		case "docsym":
			raw, e := s.call("textDocument/documentSymbol", map[string]interface{}{"textDocument": td(atoi(a[1]))})
			if e != "" {
				out = append(out, "docsym="+e)
				break
			}
			var syms []docSym
			json.Unmarshal(raw, &syms)
			var b strings.Builder
			docSymS(&b, syms)
			out = append(out, "docsym="+b.String())
		case "wssym":
			raw, e := s.call("workspace/symbol", map[string]interface{}{"query": string(unhex(a[1]))})
			if e != "" {
				out = append(out, "wssym="+e)
				break
			}
			var syms []struct {
				Name     string `json:"name"`
				Kind     int    `json:"kind"`
				Location struct {
					URI   string `json:"uri"`
					Range rangeJ `json:"range"`
				} `json:"location"`
			}
			json.Unmarshal(raw, &syms)
			rs := []string{}
			for _, sy := range syms {
				rs = append(rs, fmt.Sprintf("%s/%d@%s@%s", hs(sy.Name), sy.Kind, s.rel(sy.Location.URI), sy.Location.Range.String()))
			}
			sort.Strings(rs)
			out = append(out, "wssym=["+strings.Join(rs, ",")+"]")
		case "color":
			_, e := s.call("textDocument/documentColor", map[string]interface{}{"textDocument": td(atoi(a[1]))})
			out = append(out, "color="+map[bool]string{true: "ok", false: e}[e == ""])
		case "diags":
			// fence: a request round trip after all earlier notifications have been handled
			s.call("textDocument/documentSymbol", map[string]interface{}{"textDocument": map[string]interface{}{"uri": "file://" + root + "/__fence__.lua"}})
			s.mu.Lock()
			us := []string{}
			for u := range s.diags {
				us = append(us, u)
			}
			sort.Strings(us)
			ds := []string{}
			for _, u := range us {
				if len(s.diags[u]) > 0 {
					ds = append(ds, s.rel(u)+"{"+strings.Join(s.diags[u], ",")+"}")
				}
			}
			s.mu.Unlock()
			out = append(out, "diags=["+strings.Join(ds, ";")+"]")
		case "watch":
			evs := []map[string]interface{}{}
			for k := 1; k+1 < len(a); k += 2 {
				evs = append(evs, map[string]interface{}{"uri": puri(a[k+1]), "type": atoi(a[k])})
			}
			s.notify("workspace/didChangeWatchedFiles", map[string]interface{}{"changes": evs})
		case "fswrite":
			p := pabs(a[1])
			os.MkdirAll(filepath.Dir(p), 0755)
			ioutil.WriteFile(p, unhex(a[2]), 0644)
		case "fsrm":
			os.RemoveAll(pabs(a[1]))
		case "fsmkdir":
			os.MkdirAll(pabs(a[1]), 0755)
		case "fslink":
			p := pabs(a[1])
			os.MkdirAll(filepath.Dir(p), 0755)
			os.Remove(p)
			os.Symlink(string(unhex(a[2])), p)
		case "popen":
			s.notify("textDocument/didOpen", map[string]interface{}{"textDocument": map[string]interface{}{
				"uri": puri(a[1]), "languageId": "lua", "version": version, "text": string(unhex(a[2]))}})
		case "pchange":
			version++
			s.notify("textDocument/didChange", map[string]interface{}{
				"textDocument":   map[string]interface{}{"uri": puri(a[1]), "version": version},
				"contentChanges": []map[string]interface{}{{"text": string(unhex(a[2]))}}})
		case "psave":
			p := map[string]interface{}{"textDocument": map[string]interface{}{"uri": puri(a[1])}}
			if len(a) > 2 {
				p["text"] = string(unhex(a[2]))
			}
			s.notify("textDocument/didSave", p)
		case "pclose":
			s.notify("textDocument/didClose", map[string]interface{}{"textDocument": map[string]interface{}{"uri": puri(a[1])}})
		case "phover":
			_, e := s.call("textDocument/hover", map[string]interface{}{"textDocument": map[string]interface{}{"uri": puri(a[1])},
				"position": map[string]interface{}{"line": atoi(a[2]), "character": atoi(a[3])}})
			out = append(out, "phover="+map[bool]string{true: "ok", false: e}[e == ""])
		case "pdocsym":
			_, e := s.call("textDocument/documentSymbol", map[string]interface{}{"textDocument": map[string]interface{}{"uri": puri(a[1])}})
			out = append(out, "pdocsym="+map[bool]string{true: "ok", false: e}[e == ""])
		case "pdocsyms":
			// the outline of a path-addressed file WITH its entries (pdocsym only says whether the request was answered)
			raw, e := s.call("textDocument/documentSymbol", map[string]interface{}{"textDocument": map[string]interface{}{"uri": puri(a[1])}})
			if e != "" {
				out = append(out, "pdocsyms="+e)
				break
			}
			var syms []docSym
			json.Unmarshal(raw, &syms)
			var b strings.Builder
			docSymS(&b, syms)
			out = append(out, "pdocsyms="+b.String())
		case "rchange":
			version++
			ch := map[string]interface{}{"text": string(unhex(a[6])), "range": map[string]interface{}{
				"start": map[string]interface{}{"line": atoi(a[2]), "character": atoi(a[3])},
				"end":   map[string]interface{}{"line": atoi(a[4]), "character": atoi(a[5])}}}
			if len(a) > 7 {
				ch["rangeLength"] = atoi(a[7])
			}
			s.notify("textDocument/didChange", map[string]interface{}{
				"textDocument":   map[string]interface{}{"uri": uri(atoi(a[1])), "version": version},
				"contentChanges": []map[string]interface{}{ch}})
		case "nchange":
			i := atoi(a[1])
			files[i].content = string(unhex(a[3]))
			version++
			s.notify("textDocument/didChange", map[string]interface{}{
				"textDocument":   map[string]interface{}{"uri": uri(i), "version": version},
				"contentChanges": []map[string]interface{}{{"text": files[i].content, "rangeLength": atoi(a[2])}}})
		case "resolve":
			raw, e := s.call("textDocument/completion", tdp(atoi(a[1]), atoi(a[2]), atoi(a[3])))
			if e != "" {
				out = append(out, "resolve="+e)
				break
			}
			var cl struct {
				Items []json.RawMessage `json:"items"`
			}
			json.Unmarshal(raw, &cl)
			want := string(unhex(a[4]))
			rs := []string{}
			for _, it := range cl.Items {
				var lab struct {
					Label string `json:"label"`
				}
				json.Unmarshal(it, &lab)
				if (want != "" && lab.Label != want) || len(rs) >= 60 {
					continue
				}
				var item interface{}
				json.Unmarshal(it, &item)
				r2, e2 := s.call("completionItem/resolve", item)
				if e2 != "" {
					rs = append(rs, hs(lab.Label)+"="+e2)
					continue
				}
				var res struct {
					Detail        string `json:"detail"`
					Documentation struct {
						Value string `json:"value"`
					} `json:"documentation"`
				}
				json.Unmarshal(r2, &res)
				rs = append(rs, hs(lab.Label)+"="+hs(strings.ReplaceAll(res.Detail+res.Documentation.Value, root, "$ROOT")))
			}
			sort.Strings(rs)
			out = append(out, "resolve=["+strings.Join(rs, ",")+"]")
		case "alive":
			_, e := s.call("textDocument/documentSymbol", map[string]interface{}{"textDocument": map[string]interface{}{"uri": "file://" + root + "/__fence__.lua"}})
			out = append(out, "alive="+map[bool]string{true: "ok", false: e}[e == ""])
		default:
			out = append(out, "BADSTEP:"+op)
		}
	}
	return strings.Join(out, " | ")
}

func init() {
	register("srv.one", func(line string) string { return runScript(line) })
	// one fresh process per case, with a watchdog
	register("srv.script", func(line string) string {
		tmo := 20 * time.Second
		cmd := exec.Command(os.Args[0], "srv.one")
		// the child's scratch workspace lives under a directory the PARENT removes, so a crashed or killed child
		// leaves nothing behind
		if td, err := ioutil.TempDir("", "lhsrvp"); err == nil {
			defer os.RemoveAll(td)
			cmd.Env = append(os.Environ(), "TMPDIR="+td)
		}
		cmd.Stdin = strings.NewReader(line + "\n")
		var so, se bytes.Buffer
		cmd.Stdout = &so
		cmd.Stderr = &se
		if err := cmd.Start(); err != nil {
			return "SPAWNERR"
		}
		done := make(chan error, 1)
		go func() { done <- cmd.Wait() }()
		select {
		case <-time.After(tmo):
			cmd.Process.Kill()
			<-done
			return "TIMEOUT"
		case err := <-done:
			outS := strings.TrimRight(so.String(), "\n")
			if err != nil || outS == "" {
				e := se.String()
				switch {
				case strings.Contains(e, "stack overflow") || strings.Contains(e, "goroutine stack exceeds"):
					return "CRASH stack-overflow"
				case strings.Contains(e, "concurrent map"):
					return "CRASH concurrent-map"
				case strings.Contains(e, "panic:"):
					m := regexp.MustCompile(`panic: ([^\n]*)`).FindStringSubmatch(e)
					return "CRASH panic " + strings.ReplaceAll(m[1], " ", "_")
				case strings.Contains(e, "fatal error"):
					return "CRASH fatal"
				}
				return fmt.Sprintf("CRASH exit(%v)", err)
			}
			return outS
		}
	})
}
