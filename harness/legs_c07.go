package main

import (
	"strings"
	"sync"

	"luahelper-lsp/langserver/check/common"
)

var c07Once sync.Once

func init() {
	// c07.diags: the real language server (all checks on), publishDiagnostics after start-up; see srv_script.go
	register("c07.diags", func(l string) string { return legs["srv.script"](l) })

	// c07.conf: tie of the configured name sets used by the model (ocaml/c07_run.ml) to the running server:
	// the server is initialised once in this process exactly as srv.script does, then common.GConfig is queried.
	// case = hex name; answer = four bits IsIgnoreNameVar / LuaInMap / IsInSysNotUseMap / IsIgnoreLocNotUseVar
	register("c07.conf", func(l string) string {
		c07Once.Do(func() { runScript("S:diags") })
		name := string(unhex(strings.Fields(l)[0]))
		_, in := common.GConfig.LuaInMap[name]
		return b2s(common.GConfig.IsIgnoreNameVar(name)) + b2s(in) + b2s(common.GConfig.IsInSysNotUseMap(name)) +
			b2s(common.GConfig.IsIgnoreLocNotUseVar(name))
	})
}
