package main

func init() {
	register("c01.server", func(line string) string { return legs["srv.script"](line) })
}
