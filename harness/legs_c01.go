package main

// C01 legs.
//   c01.server  alias of srv.script (robustness stream of checks/c01.py)
//   c01.deep    deep-nesting witnesses: case = `<construct> <depth> <route>`; the text is generated HERE (a depth of a
//               million would be megabytes of hex on the case line), the route runs in a fresh child process under an
//               address-space cap (ulimit -v) and a watchdog. Answer: `ALIVE` (the process lived and answered every
//               request), `CRASH stack-overflow` (Go fatal error, not recoverable), `CRASH oom`, `CRASH ...`, `TIMEOUT`.
//   routes      parse   parser.CreateParser(text).BeginAnalyze() only
//               ann     annotateparser.ParseCommentFragment(text) only (text = one `---@...` comment)
//               scan    real server, file on disk at start-up (workspace scan + all checks), then a fence request
//               open    real server, the file is created after start-up, then didOpen with the deep text (didOpen of a
//                       file the server knows only replaces the cached text; of a file that is not on disk does nothing)
//               change  real server, benign file on disk and in didOpen, didChange with the deep text
//               hover / define / refs / complete / docsym / highlight
//                       real server, deep text on disk and opened, then that request at `deepPos` (inside the deep
//                       expression) - only useful below the depth that already kills the scan
//               a route may carry its own watchdog: `scan@20` = 20 s instead of 150 s
//   c01.deeptext  prints the generated text (hex) of `<construct> <depth>` (used by the check to feed the MODEL parser),
//               `-` when it is longer than 3000 bytes

import (
	"bytes"
	"fmt"
	"io/ioutil"
	"os"
	"os/exec"
	"path/filepath"
	"strconv"
	"strings"
	"time"

	"github.com/yinfei8/jrpc2/channel"
	"luahelper-lsp/langserver"
	"luahelper-lsp/langserver/check/annotation/annotateparser"
	"luahelper-lsp/langserver/check/common"
	"luahelper-lsp/langserver/check/compiler/lexer"
	"luahelper-lsp/langserver/check/compiler/parser"
	"luahelper-lsp/langserver/log"
)

// deepText builds the witness text of a nesting construct; line/col = a cursor position inside the deep expression
func deepText(construct string, n int) (text string, line, col int, ok bool) {
	rep := strings.Repeat
	ok = true
	switch construct {
	// ---- recursion of the PARSER (and of everything that walks the AST afterwards)
	case "paren": // a = ((((1))))          parseParensExp -> parseExp -> parseSubExp -> parseExp0 -> parsePrefixExp
		text = "a = " + rep("(", n) + "1" + rep(")", n)
	case "paren-open": // a = ((((          the reported witness: no closing half
		text = "a = " + rep("(", n)
	case "paren-name": // a = ((((b))))     parentheses that stay in the AST (ParensExp)
		text = "a = " + rep("(", n) + "b" + rep(")", n)
	case "table": // a = {{{{}}}}
		text = "a = " + rep("{", n) + rep("}", n)
	case "table-open":
		text = "a = " + rep("{", n)
	case "func": // a = function() return function() return ... end end
		text = "a = " + rep("function() return ", n) + "1" + rep(" end", n)
	case "funcstat": // function f() function f() ... end end
		text = rep("function f() ", n) + rep("end ", n)
	case "do":
		text = rep("do ", n) + rep("end ", n)
	case "do-open":
		text = rep("do ", n)
	case "while":
		text = rep("while a do ", n) + rep("end ", n)
	case "if":
		text = rep("if a then ", n) + rep("end ", n)
	case "else": // if a then else if a then else ...
		text = rep("if a then else ", n) + rep("end ", n)
	case "for":
		text = rep("for i = 1, 2 do ", n) + rep("end ", n)
	case "forin":
		text = rep("for k in a do ", n) + rep("end ", n)
	case "repeat":
		text = rep("repeat ", n) + rep("until a ", n)
	case "unm": // a = - - - - 1
		text = "a = " + rep("- ", n) + "1"
	case "not":
		text = "a = " + rep("not ", n) + "b"
	case "len":
		text = "a = " + rep("#", n) + "b"
	case "concat": // right associative: recursion
		text = "a = " + rep("b .. ", n) + "b"
	case "pow":
		text = "a = " + rep("b ^ ", n) + "b"
	case "index-nest": // a = b[b[b[1]]]
		text = "a = " + rep("b[", n) + "1" + rep("]", n)
	case "call-nest": // a = f(f(f()))
		text = "a = " + rep("f(", n) + rep(")", n)
	case "callstat-nest": // f(f(f()))
		text = rep("f(", n) + rep(")", n)
	case "field-nest": // a = {b={b={}}}
		text = "a = " + rep("{b=", n) + "1" + rep("}", n)
	// ---- loops of the parser that build a LEFT-DEEP AST (no parser recursion; the later passes recurse)
	case "add": // a = 1 + 1 + 1 ...
		text = "a = 1" + rep(" + 1", n)
	case "and":
		text = "a = b" + rep(" and b", n)
	case "dot": // a = b.c.c.c
		text = "a = b" + rep(".c", n)
	case "dot-assign": // b.c.c.c = 1
		text = "b" + rep(".c", n) + " = 1"
	case "index": // a = b[1][1][1]
		text = "a = b" + rep("[1]", n)
	case "call": // f()()()
		text = "f" + rep("()", n)
	case "call-exp":
		text = "a = f" + rep("()", n)
	case "method": // a = b:c():c():c()
		text = "a = b" + rep(":c()", n)
	case "strcall": // f"" "" ""
		text = "f" + rep(" ''", n)
	case "funcname": // function a.b.b.b() end
		text = "function a" + rep(".b", n) + "() end"
	// ---- annotation types (annotate_parser_type.go)
	case "ann-paren": // ---@type ((((a))))
		text = "---@type " + rep("(", n) + "a" + rep(")", n) + "\nlocal v = nil"
	case "ann-fun": // ---@type fun(a:fun(a:fun()))
		text = "---@type " + rep("fun(a:", n) + "b" + rep(")", n) + "\nlocal v = nil"
	case "ann-funret": // ---@type fun():fun():fun()
		text = "---@type " + rep("fun():", n) + "b" + "\nlocal v = nil"
	case "ann-table": // ---@type table<a, table<a, b>>
		text = "---@type " + rep("table<a, ", n) + "b" + rep(">", n) + "\nlocal v = nil"
	case "ann-array": // ---@type a[][][]     loop in the parser, deep ArrayType
		text = "---@type a" + rep("[]", n) + "\nlocal v = nil"
	case "ann-or": // ---@type a|a|a|a        loop, flat
		text = "---@type a" + rep("|a", n) + "\nlocal v = nil"
	default:
		ok = false
		if strings.HasPrefix(construct, "mix-") {
			// pseudo-random mixture of the expression-level nesting constructs, determined by the number after mix-
			k, err := strconv.Atoi(construct[4:])
			if err != nil {
				break
			}
			ok = true
			pairs := [][2]string{{"(", ")"}, {"{", "}"}, {"f(", ")"}, {"b[", "]"}, {"{b=", "}"}, {"- ", ""}, {"not ", ""},
				{"b .. ", ""}, {"b + ", ""}, {"function() return ", " end"}, {"{[", "]=1}"}, {"f{", "}"}, {"b.c(", ")"},
				{"b:c(1, ", ")"}, {"{1, ", "}"}, {"b and ", ""}, {"2 ^ ", ""}, {"#", ""}}
			x := uint32(k)*2654435761 + 12345
			var open, closeR []string
			for i := 0; i < n; i++ {
				x = x*1664525 + 1013904223
				p := pairs[int(x>>16)%len(pairs)]
				open = append(open, p[0])
				closeR = append(closeR, p[1])
			}
			var b strings.Builder
			b.WriteString("a = ")
			for _, o := range open {
				b.WriteString(o)
			}
			b.WriteString("b")
			for i := len(closeR) - 1; i >= 0; i-- {
				b.WriteString(closeR[i])
			}
			text = b.String()
		}
	}
	line, col = 0, len(text)/2
	if strings.HasPrefix(construct, "ann-") {
		line, col = 1, 6 // on `v`
	}
	if len(text) > 0 && col > 0 {
		// move to an identifier-ish byte near the middle when there is one close by
		for d := 0; d < 16 && col+d < len(text); d++ {
			c := text[col+d]
			if c >= 'a' && c <= 'z' {
				col += d
				break
			}
		}
	}
	return
}

var deepChecks = []string{"CheckSyntax", "CheckNoDefine", "CheckAfterDefine", "CheckLocalNoUse", "CheckTableDuplicateKey",
	"CheckReferNoFile", "CheckAssignParamNum", "CheckLocalDefineParamNum", "CheckGotoLable", "CheckFuncParam",
	"CheckImportModuleVar", "CheckIfNotVar", "CheckFunctionDuplicateParam", "CheckBinaryExpressionDuplicate",
	"CheckErrorOrAlwaysTrue", "CheckErrorAndAlwaysFalse", "CheckNoUseAssign", "CheckAnnotateType", "CheckDuplicateIf",
	"CheckSelfAssign", "CheckFloatEq", "CheckClassField", "CheckConstAssign", "CheckFuncParamType", "CheckFuncReturnType"}

// deepServer drives the real server (same set-up as srv_script.go) along one route
func deepServer(route, text string, line, col int) string {
	log.InitLog(false)
	root, err := ioutil.TempDir("", "lhdeep")
	if err != nil {
		return "TMPERR"
	}
	root, _ = filepath.EvalSymlinks(root)
	defer os.RemoveAll(root)
	file := filepath.Join(root, "a.lua")
	disk := text
	if route == "open" || route == "change" {
		disk = "x = 1\n"
	}
	if route == "open" {
		// a file the server has not seen at start-up (didOpen of a known file only replaces the cached text)
		ioutil.WriteFile(filepath.Join(root, "b.lua"), []byte(disk), 0644)
	} else {
		ioutil.WriteFile(file, []byte(disk), 0644)
	}
	opts := map[string]interface{}{"client": "vsc", "LocalRun": true, "AllEnable": true}
	for _, n := range deepChecks {
		opts[n] = true
	}
	common.GlobalConfigDefautInit()
	common.GConfig.IntialGlobalVar()
	srv := langserver.CreateServer()
	cch, sch := channel.Direct()
	srv.Start(sch)
	s := &scriptSrv{cch: cch, srv: srv, root: root, diags: map[string][]string{}, resp: make(chan []byte, 16)}
	go s.reader()
	if _, e := s.call("initialize", map[string]interface{}{"processId": nil, "rootPath": root, "rootUri": "file://" + root,
		"capabilities": map[string]interface{}{}, "initializationOptions": opts}); e != "" {
		return "INIT-" + e
	}
	s.notify("initialized", map[string]interface{}{})
	uri := "file://" + file
	td := map[string]interface{}{"uri": uri}
	tdp := map[string]interface{}{"textDocument": td, "position": map[string]interface{}{"line": line, "character": col}}
	fence := func() string {
		_, e := s.call("textDocument/documentSymbol", map[string]interface{}{"textDocument": map[string]interface{}{"uri": "file://" + root + "/__fence__.lua"}})
		return e
	}
	open := func(t string) {
		s.notify("textDocument/didOpen", map[string]interface{}{"textDocument": map[string]interface{}{
			"uri": uri, "languageId": "lua", "version": 1, "text": t}})
	}
	var e string
	switch route {
	case "scan":
	case "open":
		ioutil.WriteFile(file, []byte(text), 0644)
		open(text)
	case "change":
		open(disk)
		s.notify("textDocument/didChange", map[string]interface{}{
			"textDocument":   map[string]interface{}{"uri": uri, "version": 2},
			"contentChanges": []map[string]interface{}{{"text": text}}})
	default:
		open(text)
		if e = fence(); e != "" {
			return "FENCE-" + e
		}
		switch route {
		case "hover":
			_, e = s.call("textDocument/hover", tdp)
		case "define":
			_, e = s.call("textDocument/definition", tdp)
		case "refs":
			tdp["context"] = map[string]interface{}{"includeDeclaration": true}
			_, e = s.call("textDocument/references", tdp)
		case "highlight":
			_, e = s.call("textDocument/documentHighlight", tdp)
		case "complete":
			_, e = s.call("textDocument/completion", tdp)
		case "sighelp":
			_, e = s.call("textDocument/signatureHelp", tdp)
		case "docsym":
			_, e = s.call("textDocument/documentSymbol", map[string]interface{}{"textDocument": td})
		case "color":
			_, e = s.call("textDocument/documentColor", map[string]interface{}{"textDocument": td})
		default:
			return "BADROUTE"
		}
		if e != "" && !strings.HasPrefix(e, "RPCERR") {
			return "REQ-" + e
		}
	}
	if e = fence(); e != "" {
		return "FENCE-" + e
	}
	return "ALIVE"
}

func deepOne(line string) string {
	f := strings.Fields(line)
	if len(f) < 3 {
		return "BADCASE"
	}
	if i := strings.Index(f[2], "@"); i >= 0 {
		f[2] = f[2][:i]
	}
	n, err := strconv.Atoi(f[1])
	if err != nil || n < 0 || n > 50000000 {
		return "BADCASE"
	}
	text, l, c, ok := deepText(f[0], n)
	if !ok {
		return "BADCONSTRUCT"
	}
	switch f[2] {
	case "parse":
		p := parser.CreateParser([]byte(text), "a.lua")
		p.BeginAnalyze()
		return "ALIVE"
	case "ann":
		if i := strings.Index(text, "\n"); i >= 0 {
			text = text[:i]
		}
		ci := &lexer.CommentInfo{HeadFlag: true, ShortFlag: true}
		ci.LineVec = append(ci.LineVec, lexer.CommentLine{Str: strings.TrimPrefix(text, "--"), Line: 1, Col: 0})
		annotateparser.ParseCommentFragment(ci)
		return "ALIVE"
	}
	return deepServer(f[2], text, l, c)
}

// address-space cap of the child in KiB (the Go stack limit is 1e9 bytes; AST + copies of a multi-megabyte text fit)
const deepCapKB = 6 * 1024 * 1024

func init() {
	register("c01.server", func(line string) string { return legs["srv.script"](line) })
	register("c01.deep1", deepOne)
	register("c01.deeptext", func(line string) string {
		f := strings.Fields(line)
		if len(f) < 2 {
			return "BADCASE"
		}
		n, _ := strconv.Atoi(f[1])
		text, _, _, ok := deepText(f[0], n)
		if !ok {
			return "BADCONSTRUCT"
		}
		if len(text) > 3000 {
			return "-" // too long for the case line: the model side then relies on its totality theorem
		}
		return hs(text)
	})
	register("c01.deep", func(line string) string {
		// watchdog: 150 s, or `<route>@<seconds>` (witnesses of the polynomial-time finding: hours of work are cut short)
		tmo := 150 * time.Second
		if f := strings.Fields(line); len(f) >= 3 {
			if i := strings.Index(f[2], "@"); i >= 0 {
				if sec, err := strconv.Atoi(f[2][i+1:]); err == nil && sec > 0 && sec <= 600 {
					tmo = time.Duration(sec) * time.Second
				}
			}
		}
		cmd := exec.Command("sh", "-c", fmt.Sprintf("ulimit -v %d; exec \"$0\" c01.deep1", deepCapKB), os.Args[0])
		if td, err := ioutil.TempDir("", "lhdeepp"); err == nil {
			defer os.RemoveAll(td)
			cmd.Env = append(os.Environ(), "TMPDIR="+td)
		}
		cmd.Stdin = strings.NewReader(line + "\n")
		var so, se bytes.Buffer
		cmd.Stdout = &so
		cmd.Stderr = &se
		if err := cmd.Start(); err != nil {
			return "SPAWNERR"
		}
		done := make(chan error, 1)
		go func() { done <- cmd.Wait() }()
		select {
		case <-time.After(tmo):
			cmd.Process.Kill()
			<-done
			return "TIMEOUT"
		case err := <-done:
			outS := strings.TrimRight(so.String(), "\n")
			if err != nil || outS == "" {
				e := se.String()
				switch {
				case strings.Contains(e, "stack overflow") || strings.Contains(e, "goroutine stack exceeds"):
					return "CRASH stack-overflow"
				case strings.Contains(e, "out of memory") || strings.Contains(e, "cannot allocate"):
					return "CRASH oom"
				case strings.Contains(e, "concurrent map"):
					return "CRASH concurrent-map"
				case strings.Contains(e, "panic:"):
					i := strings.Index(e, "panic:")
					m := e[i+6:]
					if j := strings.Index(m, "\n"); j >= 0 {
						m = m[:j]
					}
					return "CRASH panic " + strings.ReplaceAll(strings.TrimSpace(m), " ", "_")
				case strings.Contains(e, "fatal error"):
					return "CRASH fatal"
				}
				return fmt.Sprintf("CRASH exit(%v)", err)
			}
			return outS
		}
	})
}
