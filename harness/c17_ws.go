// C17: fixed workspaces of the correspondence leg c17.filter (generated once from scratch files; edit by hand).
// w1 triggers diagnostic types 1-23, 26, 28, 29; w2 is shaped after the examples of docs/manual/config.md.
// No global is defined in two files (C09 order dependence) and no file name is a substring / regexp match of
// another one (the raw oracle ignores files by their literal names). w2 has the folders c+v (a valid regexp that does not
// match its own text) and c++ (not a regexp at all), so that the literal strings.Contains half of every rule matters.
package main

var c17Workspaces = map[string]map[string]string{
	"w1": {
		"deep/er/x.lua": `local xm = {}
local xunused = 1
xm.v = xundef
function xm.f(q, q) return q end
xm.w = xm.v or true
goto xlabel
return xm
`,
		"imp.lua": `local lib = import("lib.lua")
lib.libfunc()
lib.nofunc()
local iss = lib.libfunc()
if not iss then
    lib.libfunc(iss.name)
end
local impunused = 2
`,
		"lib/lib.lua": `libfunc = function() end
local libunused = 1
local lt = { a = 1, a = 2 }
libfunc(lt, libundef)
`,
		"main.lua": `local b = undefinedvar + 3
useBefore()
function useBefore() end
local unused = 1
local t = { k = 1, k = 2 }
local r = require("nofile")
local c
c = 1, 2
local d = 1, 2
function two(x, y) return x, y end
two(1, 2, 3)
local ss = two()
if not ss then
    two(ss.name)
end
function dup(p, p) return p end
local e = b and b
e = e or true
e = e and false
local nu = 1
nu = 2
if b == 1 then
    two(1)
elseif b == 1 then
    two(2)
end
b = b
if b == 1.5 then two(3) end
two(t, r, c, d, e)
do
    goto nolabel
end
local okmod = require("deep.er.x")
two(okmod)
`,
		"sub/ann.lua": `---@class Foo
---@field x number
local Foo = {}
Foo.x = 1
---@type const number
local KK = 1
KK = 2
---@param n number
---@return number
local function typed(n)
    return n
end
typed(1, 2)
---@type Unknowntype
local uu = 1
---@class Foo
local Foo2 = {}
---@type number
local nn = 1
nn = "x"
local function notcalled() end
typed(uu, Foo2, KK, nn)
local annunused = 1
goto annlabel
`,
		"sub/ann2.lua": `---@class Bar
---@field x number
local Bar = {}
---@type Bar
local bar = {}
local w1 = bar.nope
Bar.other = 2
---@param n number
function gtyped(n) return n end
gtyped(w1, 1)
---@type Bar
local bar2 = { x = 1, bad = 2 }
gtyped(bar2)
---@enum start
EA = 1
EB = 1
---@enum end
local u2 = ann2undef
`,
		"syn.lua": `local a = 1
if a
end
`,
	},
	"w2": {
		"c++/lib2.lua": `local cp = 1
cpfn = function(a) return a end
cpfn(1, cpundef)
`,
		"c+v/inc.lua": `local cv = { k = 1, k = 2 }
local cvu = 1
goto cvlabel
`,
		"common/test.lua": `local cq = 1.5
if cq == 1.5 then cq = cq end
local cr = require("port.missing")
cfn = function() return cq, cr end
cfn(1)
`,
		"one.lua": `local o1 = 1
local o2 = { z = 1, z = 2 }
onefn = function(a) return a end
onefn(1, 2)
onefn(o2, oneundef)
`,
		"port/off.lua": `local po = 1
po = 2
local function pf(k, k) return k end
pf(1, 2, 3)
pf(poundef)
`,
		"port/on_a.lua": `local pa = 1
pa2 = paundef
local pt = require("tests.t1")
pa2(pt)
`,
		"port/on_b.lua": `local pb = 1, 2
local pc
pc = 1, 2
if pc == pc then pa3 = pc end
goto pblabel
`,
		"tests/t1.lua": `local tm = {}
local tunused = 1
tm.x = tundef
tm.y = tm.x and false
return tm
`,
	},
}

// for type-11 diagnostics ("module has no such member"): the imported file whose type-2 rules the check also consults
// key = <ws>/<file>:<0-based line>
var c17Refs = map[string]string{
	"w1/imp.lua:2": "lib/lib.lua",
}
