// C17: fixed workspaces of the correspondence leg c17.filter (generated once from scratch files; edit by hand).
// w1 triggers diagnostic types 1-23, 26, 28, 29; w2 is shaped after the examples of docs/manual/config.md; w3 adds type 24;
// w4 (leg c17.live only) has a file without any diagnostic; w5 (leg c17.filter only) has annotation types defined in several files.
// No global is defined in two files (C09 order dependence) and no file name is a substring / regexp match of
// another one (the raw oracle ignores files by their literal names). w2 has the folders c+v (a valid regexp that does not
// match its own text) and c++ (not a regexp at all), so that the literal strings.Contains half of every rule matters.
package main

var c17Workspaces = map[string]map[string]string{
	"w1": {
		"deep/er/x.lua": `local xm = {}
local xunused = 1
xm.v = xundef
function xm.f(q, q) return q end
xm.w = xm.v or true
goto xlabel
return xm
`,
		"imp.lua": `local lib = import("lib.lua")
lib.libfunc()
lib.nofunc()
local iss = lib.libfunc()
if not iss then
    lib.libfunc(iss.name)
end
local impunused = 2
`,
		"lib/lib.lua": `libfunc = function() end
local libunused = 1
local lt = { a = 1, a = 2 }
libfunc(lt, libundef)
`,
		"main.lua": `local b = undefinedvar + 3
useBefore()
function useBefore() end
local unused = 1
local t = { k = 1, k = 2 }
local r = require("nofile")
local c
c = 1, 2
local d = 1, 2
function two(x, y) return x, y end
two(1, 2, 3)
local ss = two()
if not ss then
    two(ss.name)
end
function dup(p, p) return p end
local e = b and b
e = e or true
e = e and false
local nu = 1
nu = 2
if b == 1 then
    two(1)
elseif b == 1 then
    two(2)
end
b = b
if b == 1.5 then two(3) end
two(t, r, c, d, e)
do
    goto nolabel
end
local okmod = require("deep.er.x")
two(okmod)
`,
		"sub/ann.lua": `---@class Foo
---@field x number
local Foo = {}
Foo.x = 1
---@type const number
local KK = 1
KK = 2
---@param n number
---@return number
local function typed(n)
    return n
end
typed(1, 2)
---@type Unknowntype
local uu = 1
---@class Foo
local Foo2 = {}
---@type number
local nn = 1
nn = "x"
local function notcalled() end
typed(uu, Foo2, KK, nn)
local annunused = 1
goto annlabel
`,
		"sub/ann2.lua": `---@class Bar
---@field x number
local Bar = {}
---@type Bar
local bar = {}
local w1 = bar.nope
Bar.other = 2
---@param n number
function gtyped(n) return n end
gtyped(w1, 1)
---@type Bar
local bar2 = { x = 1, bad = 2 }
gtyped(bar2)
---@enum start
EA = 1
EB = 1
---@enum end
local u2 = ann2undef
`,
		"syn.lua": `local a = 1
if a
end
`,
	},
	"w2": {
		"c++/lib2.lua": `local cp = 1
cpfn = function(a) return a end
cpfn(1, cpundef)
`,
		"c+v/inc.lua": `local cv = { k = 1, k = 2 }
local cvu = 1
goto cvlabel
`,
		"common/test.lua": `local cq = 1.5
if cq == 1.5 then cq = cq end
local cr = require("port.missing")
cfn = function() return cq, cr end
cfn(1)
`,
		"one.lua": `local o1 = 1
local o2 = { z = 1, z = 2 }
onefn = function(a) return a end
onefn(1, 2)
onefn(o2, oneundef)
`,
		"port/off.lua": `local po = 1
po = 2
local function pf(k, k) return k end
pf(1, 2, 3)
pf(poundef)
`,
		"port/on_a.lua": `local pa = 1
pa2 = paundef
local pt = require("tests.t1")
pa2(pt)
`,
		"port/on_b.lua": `local pb = 1, 2
local pc
pc = 1, 2
if pc == pc then pa3 = pc end
goto pblabel
`,
		"tests/t1.lua": `local tm = {}
local tunused = 1
tm.x = tundef
tm.y = tm.x and false
return tm
`,
	},
	// w3: for the settings-change route: call parameter COUNT (type 10) next to call parameter TYPE (type 24: the annotated
	// function is a global called from inside another function - that is where the cross-file passes compare the annotated
	// parameter types), plus 2, 4, 9, 15, 16. `miscounts` holds calls with a WRONG argument count (too many; too few against
	// an annotated callee) whose argument types ALSO mismatch the annotations: the count diagnostic (10) is all the
	// everything-enabled run reports there, so with 10 switched off nothing may appear on those lines. rets.lua is an attempt at types 25 / 27 (return type, operand types) that the
	// server does not report; it stays as an ordinary file.
	"w3": {
		"calls/ptype.lua": `---@param n number
function takesNumber(n)
	return n
end

function takesOne(a)
	return a
end

function caller()
	takesNumber("text")
	takesOne(1, 2)
end

local x3 = takesOne(1)
local p3 = x3 or true
local q3 = x3 and false
print(p3, q3)

---@param a number
---@param b string
function takesTwo(a, b)
	return a, b
end

function miscounts()
	takesNumber("text", 2)
	takesTwo("bad")
	takesTwo("bad", "x", 3)
	takesTwo(5, 6, 7, 8)
	takesTwo(1, "x")
	takesTwo("bad", "x")
end
`,
		"rets.lua": `---@return number
function retsNumber()
	return "text"
end

---@param k number
---@return number
function binopUser(k)
	local s3 = "a" + k
	---@type string
	local w3 = "b"
	local u3 = k + w3
	return s3, u3
end

function callsRets()
	local r3 = retsNumber()
	return binopUser(r3)
end
local unused3 = callsRets()
`,
		"top.lua": `local t3 = undefined3
goto nolabel3
`,
	},
	// w4: for the unsaved-buffer leg c17.live: clean.lua has NO diagnostic on disk (with every check enabled), dir/warn.lua
	// and top.lua have warnings only, dir/broken.lua has a syntax error on disk. Not used by c17.filter / c17.sites (the
	// latter needs a diagnostic in every file).
	"w4": {
		"clean.lua": `local function h()
	return 1
end
return h()
`,
		"dir/broken.lua": `local q4 = 1
if q4
end
`,
		"dir/warn.lua": `local w4unused = 1
w4g = w4undef
goto w4label
`,
		"top.lua": `local t4 = { k = 1, k = 2 }
local u4 = t4.k == 1.5
`,
	},
	// w5 (leg c17.filter only): one annotation type name defined in THREE files (the cross-file "duplicate annotate type"
	// warning, type 18, one per defining file; the walk goes through the definitions in file-name order) and a second one
	// defined in TWO files (mid/pair.lua, dupc.lua); every file has a diagnostic of another type as well. For per-file
	// silencing rules (IgnoreFileOrDirError / IgnoreFileErr / IgnoreFileErrTypes with 18) that name the first / middle /
	// last defining file: the rule takes the named file's diagnostics away and nobody else's.
	"w5": {
		"dupa.lua": `---@class Trio
---@field a number
local TrioA = {}
local dupaunused = 1
return TrioA
`,
		"dupb.lua": `local dupbunused = 1
---@class Trio
---@field b string
local TrioB = {}
dupbg = dupbundef
return TrioB
`,
		"dupc.lua": `---@class Trio
---@field c number
local TrioC = {}
---@class Pair
local PairC = {}
goto dupclabel
return TrioC, PairC
`,
		"mid/pair.lua": `---@class Pair
---@field p number
local PairM = {}
local pairt = { k = 1, k = 2 }
return PairM, pairt
`,
		"solo.lua": `---@type Trio
local st = {}
local solounused = 1
return st
`,
	},
}

// for type-11 diagnostics ("module has no such member"): the imported file whose type-2 rules the check also consults
// key = <ws>/<file>:<0-based line>
var c17Refs = map[string]string{
	"w1/imp.lua:2": "lib/lib.lua",
}
