// Correspondence harness: runs LuaHelper code (rebuilt from /repo's working tree,
// build tag `verif`) on one case per stdin line and prints one answer line per case.
package main

import (
	"bufio"
	"encoding/hex"
	"fmt"
	"os"
	"sort"
	"strings"
)

type legFn func(line string) string

var legs = map[string]legFn{}

func register(name string, f legFn) { legs[name] = f }

func unhex(s string) []byte {
	if s == "-" {
		return []byte{}
	}
	b, err := hex.DecodeString(s)
	if err != nil {
		panic("bad hex: " + s)
	}
	return b
}

func hx(b []byte) string {
	if len(b) == 0 {
		return "-"
	}
	return hex.EncodeToString(b)
}

func b2s(b bool) string {
	if b {
		return "1"
	}
	return "0"
}

// runCase converts a recoverable panic into the observable "PANIC <msg>"
func runCase(f legFn, line string) (out string) {
	defer func() {
		if r := recover(); r != nil {
			msg := strings.ReplaceAll(fmt.Sprint(r), "\n", " ")
			out = "PANIC " + msg
		}
	}()
	return f(line)
}

func main() {
	if len(os.Args) < 2 {
		names := []string{}
		for k := range legs {
			names = append(names, k)
		}
		sort.Strings(names)
		fmt.Println(strings.Join(names, "\n"))
		return
	}
	f, ok := legs[os.Args[1]]
	if !ok {
		fmt.Fprintln(os.Stderr, "unknown leg", os.Args[1])
		os.Exit(2)
	}
	in := bufio.NewReaderSize(os.Stdin, 1<<20)
	out := bufio.NewWriterSize(os.Stdout, 1<<16)
	for {
		line, err := in.ReadString('\n')
		if len(line) > 0 {
			line = strings.TrimRight(line, "\r\n")
			res := runCase(f, line)
			out.WriteString(strings.ReplaceAll(res, "\n", "\\n"))
			out.WriteByte('\n')
			out.Flush()
		}
		if err != nil {
			break
		}
	}
}
