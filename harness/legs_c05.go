package main

// Binder family (C05 C06 C11 C12 C14): the implementation side is the REAL language server driven by the generic
// scripted leg (srv_script.go): one fresh server process per case, all queries of a program in one case.
// The legs differ only in which query steps the generator puts into the case.
//
// Precondition of the model (checked here so that a generator slip shows up as a disagreement, not silently):
// no identifier of the workspace is a completion keyword / snippet / Lua library name or an ignored variable name
// (hover, completion and the fourth pass special-case those names).

import (
	"regexp"
	"strings"
	"sync"

	"luahelper-lsp/langserver/check/common"
)

var c05Once sync.Once
var c05IdentRe = regexp.MustCompile(`[A-Za-z_][A-Za-z0-9_]*`)
var c05LuaKw = map[string]bool{"and": true, "break": true, "do": true, "else": true, "elseif": true, "end": true,
	"false": true, "for": true, "function": true, "goto": true, "if": true, "in": true, "local": true, "nil": true,
	"not": true, "or": true, "repeat": true, "return": true, "then": true, "true": true, "until": true, "while": true}

func c05Builtin(name string) bool {
	c05Once.Do(func() {
		common.GlobalConfigDefautInit()
		common.GConfig.IntialGlobalVar()
	})
	g := common.GConfig
	if g.CompKeyMap[name] {
		return true
	}
	if _, ok := g.CompSnippetMap[name]; ok {
		return true
	}
	if _, ok := g.SystemTipsMap[name]; ok {
		return true
	}
	if _, ok := g.SystemModuleTipsMap[name]; ok {
		return true
	}
	return g.IsIgnoreNameVar(name)
}

func c05Leg(line string) string {
	for _, it := range strings.Fields(line) {
		if !strings.HasPrefix(it, "F:") {
			continue
		}
		p := strings.SplitN(it[2:], ":", 2)
		if len(p) != 2 {
			continue
		}
		for _, id := range c05IdentRe.FindAllString(string(unhex(p[1])), -1) {
			if !c05LuaKw[id] && id != "const" && id != "close" && c05Builtin(id) {
				return "PRECONDITION builtin-name " + id
			}
		}
	}
	return legs["srv.script"](line)
}

func init() {
	for _, n := range []string{"c05.define", "c06.refs", "c11.rename", "c12.consist", "c14.complete", "c14.corr", "c05.any"} {
		register(n, c05Leg)
	}
}
