package main

// C10 harness, part 1: a raw-JSON LSP client speaking to the REAL server (langserver.CreateServer()) over
// channel.Direct(). One reader goroutine; requests are matched by id; a later request is the fence for earlier
// notifications (jrpc2 dispatches a message only after all earlier notifications finished).

import (
	"encoding/json"
	"fmt"
	"io/ioutil"
	"os"
	"path/filepath"
	"strings"
	"sync"
	"sync/atomic"
	"time"

	"github.com/yinfei8/jrpc2"
	"github.com/yinfei8/jrpc2/channel"
	"luahelper-lsp/langserver"
	"luahelper-lsp/langserver/check/common"
	lhlog "luahelper-lsp/langserver/log"
)

type c10Client struct {
	cli     channel.Channel
	srv     *jrpc2.Server
	mu      sync.Mutex
	waiters map[string]chan string
	nextID  int64
	pushed  int64
	sendMu  sync.Mutex
	root    string
	docs    map[string]string // uri -> text as the client believes it
	vers    int
}

type c10Wire struct {
	ID     *json.RawMessage `json:"id,omitempty"`
	Method string           `json:"method,omitempty"`
	Result *json.RawMessage `json:"result,omitempty"`
	Error  *json.RawMessage `json:"error,omitempty"`
}

func c10Start(root string) *c10Client {
	lhlog.InitLog(false)
	common.GlobalConfigDefautInit()
	common.GConfig.IntialGlobalVar()
	cli, srv := channel.Direct()
	s := langserver.CreateServer()
	s.Start(srv)
	c := &c10Client{cli: cli, srv: s, waiters: map[string]chan string{}, root: root, docs: map[string]string{}}
	go c.reader()
	return c
}

func (c *c10Client) reader() {
	for {
		b, err := c.cli.Recv()
		if err != nil {
			return
		}
		var w c10Wire
		if json.Unmarshal(b, &w) != nil {
			continue
		}
		if w.Method != "" {
			atomic.AddInt64(&c.pushed, 1) // server -> client notification (publishDiagnostics, progress)
			continue
		}
		if w.ID == nil {
			continue
		}
		id := string(*w.ID)
		ans := "null"
		if w.Error != nil {
			ans = "ERR " + string(*w.Error)
		} else if w.Result != nil {
			ans = string(*w.Result)
		}
		c.mu.Lock()
		ch := c.waiters[id]
		delete(c.waiters, id)
		c.mu.Unlock()
		if ch != nil {
			ch <- ans
		}
	}
}

func (c *c10Client) raw(id int64, method string, params interface{}) []byte {
	p, err := json.Marshal(params)
	if err != nil {
		panic(err)
	}
	if id == 0 {
		return []byte(fmt.Sprintf(`{"jsonrpc":"2.0","method":%q,"params":%s}`, method, p))
	}
	return []byte(fmt.Sprintf(`{"jsonrpc":"2.0","id":%d,"method":%q,"params":%s}`, id, method, p))
}

// notify sends a notification (no id).
func (c *c10Client) notify(method string, params interface{}) {
	b := c.raw(0, method, params)
	c.sendMu.Lock()
	c.cli.Send(b)
	c.sendMu.Unlock()
}

// callAsync sends a request and returns the channel on which the answer will arrive.
func (c *c10Client) callAsync(method string, params interface{}) chan string {
	id := atomic.AddInt64(&c.nextID, 1)
	ch := make(chan string, 1)
	c.mu.Lock()
	c.waiters[fmt.Sprint(id)] = ch
	c.mu.Unlock()
	b := c.raw(id, method, params)
	c.sendMu.Lock()
	c.cli.Send(b)
	c.sendMu.Unlock()
	return ch
}

func c10Wait(ch chan string, d time.Duration) string {
	select {
	case s := <-ch:
		return s
	case <-time.After(d):
		return "TIMEOUT"
	}
}

func (c *c10Client) call(method string, params interface{}) string {
	return c10Wait(c.callAsync(method, params), 60*time.Second)
}

// fence: a request round trip; when it returns every earlier notification has been handled completely.
func (c *c10Client) fence() string {
	return c.call("luahelper/getOnlineReq", map[string]interface{}{"Req": 1})
}

type c10o = map[string]interface{}

func (c *c10Client) uri(rel string) string { return "file://" + filepath.Join(c.root, rel) }

func c10Pos(text, needle string, nth int, delta int) c10o {
	idx := -1
	from := 0
	for k := 0; k <= nth; k++ {
		i := strings.Index(text[from:], needle)
		if i < 0 {
			break
		}
		idx = from + i
		from = idx + 1
	}
	if idx < 0 {
		return c10o{"line": 0, "character": 0}
	}
	idx += delta
	line := strings.Count(text[:idx], "\n")
	col := idx - (strings.LastIndex(text[:idx], "\n") + 1)
	return c10o{"line": line, "character": col}
}

func c10EndPos(text string) c10o {
	line := strings.Count(text, "\n")
	col := len(text) - (strings.LastIndex(text, "\n") + 1)
	return c10o{"line": line, "character": col}
}

// ---- the small workspace

const c10A = `local M = {}
---@class Foo
---@field x number
local cfg = { red = 1, green = 2 }
--- adds two numbers
function M.add(a, b)
  local s = a + b
  return s
end
function gfun(p)
  local q = M.add(p, cfg.red)
  return q
end
local r = gfun(3)
print(r, M.add(1, 2))
gtab = { one = 1, two = { three = 3 } }
print(gtab.two.three, bfun(r))
return M
`

const c10B = `local a = require("a")
function bfun(x)
  return gfun(x) + a.add(x, 1)
end
bval = bfun(2)
`

const c10C = `local t = {}
function t.run()
  return bfun(bval) + gfun(1)
end
return t
`

func c10Filler(n int) string {
	var sb strings.Builder
	for i := 0; i < n; i++ {
		fmt.Fprintf(&sb, "local function fill%d(a, b)\n  local v = a + b + %d\n  return v, gfun(v)\nend\n", i, i)
	}
	return sb.String()
}

func c10WriteWorkspace(root string, filler int) map[string]string {
	files := map[string]string{
		"a.lua":       c10Filler(filler) + c10A,
		"b.lua":       c10B,
		"sub/c.lua":   c10C,
		"extra/e.lua": "function efun(k)\n  return k\nend\n",
	}
	for rel, txt := range files {
		p := filepath.Join(root, rel)
		os.MkdirAll(filepath.Dir(p), 0755)
		ioutil.WriteFile(p, []byte(txt), 0644)
	}
	return files
}

// c10InitExtra: further initialization options of a scenario (set before c10Setup by c10SetupLive)
var c10InitExtra = c10o{}

func (c *c10Client) initialize() string {
	opts := c10o{"client": "vsc", "LocalRun": true, "AllEnable": true, "CheckSyntax": true, "CheckNoDefine": true,
		"CheckAfterDefine": true, "CheckLocalNoUse": true, "CheckReferNoFile": true, "CheckFuncParam": true,
		"EnableReport": false}
	for k, v := range c10InitExtra {
		opts[k] = v
	}
	r := c.call("initialize", c10o{"processId": 1, "rootPath": c.root, "rootUri": "file://" + c.root,
		"capabilities": c10o{}, "initializationOptions": opts,
		"workspaceFolders": []c10o{}})
	c.notify("initialized", c10o{})
	c.fence()
	return r
}

func (c *c10Client) didOpen(rel, text string) {
	c.docs[rel] = text
	c.vers++
	c.notify("textDocument/didOpen", c10o{"textDocument": c10o{"uri": c.uri(rel), "languageId": "lua", "version": c.vers, "text": text}})
}
