package main

// Canonical serialisation of LuaHelper's tokens / AST, byte-for-byte the format of ocaml/lua_ser.inc.ml.

import (
	"fmt"
	"sort"
	"strings"

	"luahelper-lsp/langserver/check/compiler/ast"
	"luahelper-lsp/langserver/check/compiler/lexer"
)

func locS(wl bool, l lexer.Location) string {
	if !wl {
		return ""
	}
	return fmt.Sprintf("@%d.%d.%d.%d", l.StartLine, l.StartColumn, l.EndLine, l.EndColumn)
}

func hs(s string) string { return hx([]byte(s)) }

func expS(wl bool, b *strings.Builder, e ast.Exp) {
	a := b.WriteString
	switch x := e.(type) {
	case *ast.NilExp:
		a("(nil" + locS(wl, x.Loc) + ")")
	case *ast.BadExpr:
		a("(bad" + locS(wl, x.Loc) + ")")
	case *ast.TrueExp:
		a("(true" + locS(wl, x.Loc) + ")")
	case *ast.FalseExp:
		a("(false" + locS(wl, x.Loc) + ")")
	case *ast.VarargExp:
		a("(va" + locS(wl, x.Loc) + ")")
	case *ast.IntegerExp:
		a(fmt.Sprintf("(int %d%s)", x.Val, locS(wl, x.Loc)))
	case *ast.FloatExp:
		a("(flt" + locS(wl, x.Loc) + ")")
	case *ast.StringExp:
		a("(str " + hs(x.Str) + locS(wl, x.Loc) + ")")
	case *ast.UnopExp:
		a(fmt.Sprintf("(un %d ", int(x.Op)))
		expS(wl, b, x.Exp)
		a(locS(wl, x.Loc) + ")")
	case *ast.BinopExp:
		a(fmt.Sprintf("(bin %d ", int(x.Op)))
		expS(wl, b, x.Exp1)
		a(" ")
		expS(wl, b, x.Exp2)
		a(locS(wl, x.Loc) + ")")
	case *ast.TableConstructorExp:
		a("(tbl")
		for i := range x.ValExps {
			a(" [")
			if i < len(x.KeyExps) && x.KeyExps[i] != nil {
				expS(wl, b, x.KeyExps[i])
			} else {
				a("_")
			}
			a(" ")
			expS(wl, b, x.ValExps[i])
			a("]")
		}
		a(locS(wl, x.Loc) + ")")
	case *ast.FuncDefExp:
		a("(fn " + hs(x.ClassName) + " " + hs(x.FuncName) + " " + b2s(x.IsVararg) + " " + b2s(x.IsColon) + " [")
		for i, p := range x.ParList {
			a(" " + hs(p))
			if i < len(x.ParLocList) {
				a(locS(wl, x.ParLocList[i]))
			} else {
				a("@MISSING")
			}
		}
		a(" ] ")
		blockS(wl, b, x.Block)
		a(locS(wl, x.Loc) + ")")
	case *ast.NameExp:
		a("(nm " + hs(x.Name) + locS(wl, x.Loc) + ")")
	case *ast.ParensExp:
		a("(par ")
		expS(wl, b, x.Exp)
		a(locS(wl, x.Loc) + ")")
	case *ast.TableAccessExp:
		a("(idx ")
		expS(wl, b, x.PrefixExp)
		a(" ")
		expS(wl, b, x.KeyExp)
		a(locS(wl, x.Loc) + ")")
	case *ast.FuncCallExp:
		a("(call ")
		expS(wl, b, x.PrefixExp)
		a(" ")
		if x.NameExp == nil {
			a("_")
		} else {
			a(hs(x.NameExp.Str) + locS(wl, x.NameExp.Loc))
		}
		a(" [")
		for _, e1 := range x.Args {
			a(" ")
			expS(wl, b, e1)
		}
		a(" ]" + locS(wl, x.Loc) + ")")
	case nil:
		a("(NIL)")
	default:
		a(fmt.Sprintf("(UNKNOWN %T)", e))
	}
}

func expsS(wl bool, b *strings.Builder, es []ast.Exp) {
	b.WriteString("[")
	for _, e := range es {
		b.WriteString(" ")
		expS(wl, b, e)
	}
	b.WriteString(" ]")
}

func statS(wl bool, b *strings.Builder, s ast.Stat) {
	a := b.WriteString
	switch x := s.(type) {
	case *ast.BreakStat:
		a("(break)")
	case *ast.LabelStat:
		a("(label " + hs(x.Name) + locS(wl, x.Loc) + ")")
	case *ast.GotoStat:
		a("(goto " + hs(x.Name) + locS(wl, x.Loc) + ")")
	case *ast.DoStat:
		a("(do ")
		blockS(wl, b, x.Block)
		a(locS(wl, x.Loc) + ")")
	case *ast.FuncCallStat:
		a("(callstat ")
		expS(wl, b, x)
		a(")")
	case *ast.IfStat:
		a("(if ")
		expsS(wl, b, x.Exps)
		a(" [")
		for _, bl := range x.Blocks {
			a(" ")
			blockS(wl, b, bl)
		}
		a(" ]" + locS(wl, x.Loc) + ")")
	case *ast.WhileStat:
		a("(while ")
		expS(wl, b, x.Exp)
		a(" ")
		blockS(wl, b, x.Block)
		a(locS(wl, x.Loc) + ")")
	case *ast.RepeatStat:
		a("(repeat ")
		blockS(wl, b, x.Block)
		a(" ")
		expS(wl, b, x.Exp)
		a(locS(wl, x.Loc) + ")")
	case *ast.ForNumStat:
		a("(fornum " + hs(x.VarName) + locS(wl, x.VarLoc) + " ")
		expS(wl, b, x.InitExp)
		a(" ")
		expS(wl, b, x.LimitExp)
		a(" ")
		expS(wl, b, x.StepExp)
		a(" ")
		blockS(wl, b, x.Block)
		a(locS(wl, x.Loc) + ")")
	case *ast.ForInStat:
		a("(forin [")
		for i, nm := range x.NameList {
			a(" " + hs(nm) + locS(wl, x.NameLocList[i]))
		}
		a(" ] ")
		expsS(wl, b, x.ExpList)
		a(" ")
		blockS(wl, b, x.Block)
		a(locS(wl, x.Loc) + ")")
	case *ast.AssignStat:
		a("(assign ")
		expsS(wl, b, x.VarList)
		a(" ")
		expsS(wl, b, x.ExpList)
		a(locS(wl, x.Loc) + ")")
	case *ast.LocalVarDeclStat:
		a("(local [")
		for i, nm := range x.NameList {
			a(" " + hs(nm) + locS(wl, x.VarLocList[i]) + ":" + fmt.Sprint(int(x.AttrList[i])))
		}
		a(" ] ")
		expsS(wl, b, x.ExpList)
		a(locS(wl, x.Loc) + ")")
	case *ast.LocalFuncDefStat:
		a("(localfn " + hs(x.Name) + locS(wl, x.NameLoc) + " ")
		expS(wl, b, x.Exp)
		a(locS(wl, x.Loc) + ")")
	default:
		a(fmt.Sprintf("(UNKNOWNSTAT %T)", s))
	}
}

func blockS(wl bool, b *strings.Builder, blk *ast.Block) {
	if blk == nil {
		b.WriteString("{NILBLOCK}")
		return
	}
	b.WriteString("{")
	for _, s := range blk.Stats {
		b.WriteString(" ")
		statS(wl, b, s)
	}
	b.WriteString(" ret:")
	if blk.RetExps == nil {
		b.WriteString("_")
	} else {
		expsS(wl, b, blk.RetExps)
	}
	b.WriteString(locS(wl, blk.Loc) + "}")
}

// error message -> (isLexerError, code)
func classifyParseErr(msg string) (bool, string) {
	switch {
	case strings.HasPrefix(msg, "unexpected Unicode-name"):
		return true, "ill"
	case strings.HasPrefix(msg, "unfinished string"):
		return true, "str"
	case strings.HasPrefix(msg, "missing `]]`"):
		return true, "close"
	case strings.HasPrefix(msg, "invalid long string delimiter"):
		return true, "delim"
	case strings.HasPrefix(msg, "malformed number"):
		return true, "num"
	case strings.HasPrefix(msg, "invalid escape sequence"):
		return true, "esc"
	case strings.HasPrefix(msg, "expected "):
		return false, "exp"
	case strings.HasSuffix(msg, "` can not start"):
		return false, "start"
	case strings.HasPrefix(msg, "missing field or attribute names"):
		return false, "field"
	case strings.HasPrefix(msg, "missing function call args"):
		return false, "args"
	case strings.HasPrefix(msg, "not a number"):
		return false, "num"
	case strings.HasPrefix(msg, "expression cannot be used as a statement"):
		return false, "stat"
	case strings.HasPrefix(msg, "cannot assign to this expression"):
		return false, "assign"
	case strings.HasPrefix(msg, "unrecognized local varible attribute"):
		return false, "attr"
	case strings.HasPrefix(msg, "more than one to_be_close"):
		return false, "close"
	}
	return false, "unk:" + strings.ReplaceAll(msg, " ", "_")
}

func splitErrs(errs []lexer.ParseError) (lex []string, par []string) {
	for _, e := range errs {
		isLex, code := classifyParseErr(e.ErrStr)
		if isLex {
			lex = append(lex, code)
		} else {
			par = append(par, code)
		}
	}
	sort.Strings(lex)
	return
}

func isTooMany(errs []lexer.ParseError) bool {
	return len(errs) == 31 && strings.HasSuffix(errs[30].ErrStr, "(too many err...)")
}
