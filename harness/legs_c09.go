package main

// C09 legs: the real results.AnalysisThird methods in explicit visiting orders, the real generateAllGlobalMaps
// (Go map order, repeated), the real GetBestMatchReferFile (Go map order + sort.Sort, repeated), and whole
// project analyses repeated under different GOMAXPROCS, and the real server in project mode (luahelper.json with
// ProjectFiles), one fresh process per run.

import (
	"fmt"
	"os"
	"path/filepath"
	"runtime"
	"sort"
	"strconv"
	"strings"

	"luahelper-lsp/langserver/check"
	"luahelper-lsp/langserver/check/common"
	"luahelper-lsp/langserver/check/compiler/lexer"
	"luahelper-lsp/langserver/check/results"
)

type c09Item struct {
	name string
	v    *common.VarInfo
}

// items = comma-joined <namehex>:<filehex>:<funclv>:<scopelv>:<line>, in visiting order
func c09ParseItems(s string) []c09Item {
	out := []c09Item{}
	for _, it := range c18Split(s) {
		p := strings.Split(it, ":")
		fl, _ := strconv.Atoi(p[2])
		sl, _ := strconv.Atoi(p[3])
		ln, _ := strconv.Atoi(p[4])
		out = append(out, c09Item{string(unhex(p[0])), &common.VarInfo{
			FileName:    string(unhex(p[1])),
			ExtraGlobal: &common.ExtraGlobal{FuncLv: fl, ScopeLv: sl},
			Loc:         lexer.Location{StartLine: ln, EndLine: ln, EndColumn: 1},
		}})
	}
	return out
}

func c09Var(v *common.VarInfo) string {
	return hx([]byte(v.FileName)) + "@" + strconv.Itoa(v.Loc.StartLine)
}

func init() {
	// case: "<query names hex,..> <items>"; the loop body of generateAllGlobalMaps replayed in the given order
	register("c09.merge", func(line string) string {
		f := strings.Fields(line)
		third := results.CreateAnalysisThirdAllStruct()
		for _, it := range c09ParseItems(f[1]) {
			if third.JudgeShouldInsertGlobalInfo(it.name, it.v) {
				third.InsertThirdGlobalGMaps(it.name, it.v)
			}
		}
		out := []string{}
		for _, q := range c18Split(f[0]) {
			ok, v := third.FindThirdGlobalGInfo(false, string(unhex(q)), "")
			if ok {
				out = append(out, q+"="+c09Var(v))
			} else {
				out = append(out, q+"=-")
			}
		}
		return strings.Join(out, ";")
	})

	// same case format; the real generateAllGlobalMaps (Go map iteration order) repeated: set of winners per name
	register("c09.genmaps", func(line string) string {
		f := strings.Fields(line)
		c18InitConf()
		items := c09ParseItems(f[1])
		qs := c18Split(f[0])
		seen := make([]map[string]bool, len(qs))
		for i := range seen {
			seen[i] = map[string]bool{}
		}
		for rep := 0; rep < 24; rep++ {
			files := map[string]map[string]*common.VarInfo{}
			n := len(items)
			for k := 0; k < n; k++ {
				it := items[(k+rep)%n]
				if files[it.v.FileName] == nil {
					files[it.v.FileName] = map[string]*common.VarInfo{}
				}
				files[it.v.FileName][it.name] = it.v
			}
			third := check.VerifC09GenerateAllGlobalMaps(files)
			for i, q := range qs {
				ok, v := third.FindThirdGlobalGInfo(false, string(unhex(q)), "")
				if ok {
					seen[i][c09Var(v)] = true
				}
			}
		}
		out := []string{}
		for i, q := range qs {
			out = append(out, q+"="+c18Set(seen[i]))
		}
		return strings.Join(out, ";")
	})

	// case: "<cur hex> <refer hex> <files hex,.. in insertion order>": set of answers of GetBestMatchReferFile
	register("c09.bestmatch", func(line string) string {
		f := strings.Fields(line)
		cur, refer := string(unhex(f[0])), string(unhex(f[1]))
		files := []string{}
		for _, h := range c18Split(f[2]) {
			files = append(files, string(unhex(h)))
		}
		seen := map[string]bool{}
		n := len(files)
		for round := 0; round < 6; round++ {
			idx := common.CreateFileIndexInfo()
			all := map[string]string{}
			for k := 0; k < n; k++ {
				p := files[(k+round)%n]
				idx.InsertOneFile(p)
				all[p] = common.CompleteFilePathToPreStr(p)
			}
			for rep := 0; rep < 8; rep++ {
				r := common.GetBestMatchReferFile(cur, refer, all, idx)
				if r != "" {
					seen[hx([]byte(r))] = true
				}
			}
		}
		return "best=" + c18Set(seen)
	})

	// case: "<root hex> <nruns> <files: relhex:contenthex,...>": whole analysis of a real directory, repeated under
	// GOMAXPROCS 1, 2, 16; observable: {STABLE} when every run gives the same normalised diagnostics, else {UNSTABLE}
	register("c09.project", func(line string) string {
		f := strings.Fields(line)
		root := string(unhex(f[0]))
		if !strings.HasPrefix(root, "/tmp/lhv09/") || strings.Contains(root, "..") {
			return "SETUP-ERROR root"
		}
		nruns, _ := strconv.Atoi(f[1])
		// per-process directory (see legs_c18.go)
		parts := strings.Split(root, "/")
		if len(parts) < 5 {
			return "SETUP-ERROR root"
		}
		parts[3] = parts[3] + "_" + strconv.Itoa(os.Getpid())
		root = strings.Join(parts, "/")
		os.RemoveAll(strings.Join(parts[:4], "/"))
		defer os.RemoveAll(strings.Join(parts[:4], "/"))
		for _, it := range c18Split(f[2]) {
			p := strings.SplitN(it, ":", 2)
			abs := root + "/" + string(unhex(p[0]))
			if err := os.MkdirAll(filepath.Dir(abs), 0o755); err != nil {
				return "SETUP-ERROR " + err.Error()
			}
			if err := os.WriteFile(abs, unhex(p[1]), 0o644); err != nil {
				return "SETUP-ERROR " + err.Error()
			}
		}
		old := runtime.GOMAXPROCS(0)
		defer runtime.GOMAXPROCS(old)
		outs := map[string]int{}
		first := ""
		for run := 0; run < nruns; run++ {
			runtime.GOMAXPROCS([]int{1, 2, 16}[run%3])
			o := c09RunProject(root)
			if run == 0 {
				first = o
			}
			outs[o]++
		}
		if os.Getenv("VERIF_C09_DUMP") != "" {
			fmt.Fprintf(os.Stderr, "c09.project diagnostics of run 0:\n%s\n", first)
		}
		if len(outs) == 1 {
			return "{STABLE}"
		}
		// report the differing diagnostics compactly (stderr: the line protocol only carries the verdict)
		for o := range outs {
			if o != first {
				fmt.Fprintf(os.Stderr, "c09.project unstable:\n--- run A\n%s\n--- run B\n%s\n", first, o)
				break
			}
		}
		return "{UNSTABLE}"
	})

	// case: "<nreps> <declared features or -> <srv.script case...>": the REAL server (leg srv.script: one fresh
	// process per run, so fresh map seeds and fresh scheduling) answers the same scripted session nreps times;
	// observable: {STABLE} when all answers are identical, else {UNSTABLE}
	srvrep := func(line string) string {
		f := strings.SplitN(line, " ", 3)
		if len(f) < 3 {
			return "BAD-CASE"
		}
		nreps, _ := strconv.Atoi(f[0])
		first := ""
		for run := 0; run < nreps; run++ {
			o := legs["srv.script"](f[2])
			if strings.HasPrefix(o, "CRASH") || strings.HasPrefix(o, "TIMEOUT") || strings.HasPrefix(o, "SETUP-ERROR") {
				return o
			}
			if run == 0 {
				first = o
			} else if o != first {
				fmt.Fprintf(os.Stderr, "c09.srvrep unstable:\n--- run 0\n%s\n--- run %d\n%s\n", first, run, o)
				return "{UNSTABLE}"
			}
		}
		if os.Getenv("VERIF_C09_DUMP") != "" {
			fmt.Fprintf(os.Stderr, "c09.srvrep answer:\n%s\n", first)
		}
		return "{STABLE}"
	}
	register("c09.srvrep", srvrep)
	// the same observable for the workspaces of checks/c09.py gen_paramdefault (second field = the reference answer)
	register("c09.paramdefault", srvrep)

	// case: "<nreps> <entries> <structure> <queries> <srv.script case...>": a project-mode workspace (luahelper.json
	// with ProjectFiles) in the REAL server, one fresh process per run; the script's query steps are go-to-definition
	// on names that several project files define. Observable: per query step the SET of answers over the runs
	// (the structure fields are for the model only)
	register("c09.projtable", func(line string) string {
		f := strings.SplitN(line, " ", 5)
		if len(f) < 5 {
			return "BAD-CASE"
		}
		nreps, _ := strconv.Atoi(f[0])
		return c09SetsOverRuns(nreps, f[4], false)
	})

	// case: "<nreps> <expected answer sets, for the reference side only> <srv.script case with R: items>": project mode with
	// SEVERAL entry files whose projects finish at very different times (one of them requires a file of tens of thousands
	// of lines: item R:<hex relpath>:<count>:<hex head>:<hex line, `#` = line number>:<hex tail> stands for the F: item of
	// that generated file). One fresh process per run, GOMAXPROCS unset / 2 / 1 in turn. Observable: per query step the SET
	// of answers over the runs.
	register("c09.entryorder", func(line string) string {
		f := strings.SplitN(line, " ", 3)
		if len(f) < 3 {
			return "BAD-CASE"
		}
		nreps, _ := strconv.Atoi(f[0])
		items := strings.Split(f[2], " ")
		for i, it := range items {
			if strings.HasPrefix(it, "R:") {
				p := strings.Split(it, ":")
				if len(p) != 6 {
					return "BAD-CASE"
				}
				n, _ := strconv.Atoi(p[2])
				tmpl := string(unhex(p[4]))
				var sb strings.Builder
				sb.Write(unhex(p[3]))
				for k := 0; k < n; k++ {
					sb.WriteString(strings.ReplaceAll(tmpl, "#", strconv.Itoa(k)))
					sb.WriteByte('\n')
				}
				sb.Write(unhex(p[5]))
				items[i] = "F:" + p[1] + ":" + hx([]byte(sb.String()))
			}
		}
		return c09SetsOverRuns(nreps, strings.Join(items, " "), true)
	})

	// case: "<nreps> <expected answer sets, for the reference side only> <srv.script case>": references / rename of a global in
	// a workspace with more files than the reference search has workers (runtime.NumCPU()+2; the generator sizes the
	// workspace by the affinity mask, which is what NumCPU reports). One fresh process per run, GOMAXPROCS unset / 2 / 1 in
	// turn. Observable: per query step the SET of answers over the runs.
	register("c09.manyrefs", func(line string) string {
		f := strings.SplitN(line, " ", 3)
		if len(f) < 3 {
			return "BAD-CASE"
		}
		nreps, _ := strconv.Atoi(f[0])
		return c09SetsOverRuns(nreps, f[2], true)
	})
}

// the scripted session (leg srv.script: one fresh server process per run) nreps times; per query step the set of answers
func c09SetsOverRuns(nreps int, script string, varyProcs bool) string {
	var seen []map[string]bool
	if varyProcs {
		old, had := os.LookupEnv("GOMAXPROCS")
		defer func() {
			if had {
				os.Setenv("GOMAXPROCS", old)
			} else {
				os.Unsetenv("GOMAXPROCS")
			}
		}()
	}
	for run := 0; run < nreps; run++ {
		if varyProcs {
			if v := []string{"", "2", "1"}[run%3]; v == "" {
				os.Unsetenv("GOMAXPROCS")
			} else {
				os.Setenv("GOMAXPROCS", v)
			}
		}
		o := legs["srv.script"](script)
		if strings.HasPrefix(o, "CRASH") || strings.HasPrefix(o, "TIMEOUT") || strings.HasPrefix(o, "SETUP-ERROR") {
			return o
		}
		parts := strings.Split(o, " | ")
		if run == 0 {
			seen = make([]map[string]bool, len(parts))
			for i := range seen {
				seen[i] = map[string]bool{}
			}
		} else if len(parts) != len(seen) {
			return "SHAPE-CHANGED " + o
		}
		for i, p := range parts {
			seen[i][strings.NewReplacer("{", "(", "}", ")", "|", "/").Replace(p)] = true
		}
	}
	out := []string{}
	for i := range seen {
		out = append(out, c18Set(seen[i]))
	}
	return strings.Join(out, ";")
}

// one fresh analysis of the directory, the way Initialize does it without a luahelper.json and all checks on
func c09RunProject(root string) string {
	common.GlobalConfigDefautInit()
	common.GConfig.IntialGlobalVar()
	flags := make([]bool, 64)
	for i := range flags {
		flags[i] = true
	}
	dm := common.GConfig.GetDirManager()
	dm.SetVSRootDir(root)
	if err := common.GConfig.ReadConfig(root, "luahelper.json", flags, nil, nil); err != nil {
		return "CONFIG-ERROR " + err.Error()
	}
	common.GConfig.InsertIngoreSystemModule()
	common.GConfig.InsertIngoreSystemAnnotateType()
	dm.InitMainDir()
	list := dm.GetMainDirFileList()
	p := check.CreateAllProject(list, nil, nil)
	p.HandleCheck()
	errs := p.GetAllFileErrorInfo()
	lines := []string{}
	for file, es := range errs {
		rel := strings.TrimPrefix(file, root+"/")
		for _, e := range es {
			lines = append(lines, fmt.Sprintf("%s|%d|%d:%d|%s", rel, e.ErrType, e.Loc.StartLine, e.Loc.StartColumn,
				strings.ReplaceAll(e.ErrStr, root, "<root>")))
		}
	}
	// query answers: definition and references of every call at the start of a line, document symbols, and the
	// workspace symbols matching each called name (all order-insensitive)
	for _, file := range list {
		rel := strings.TrimPrefix(file, root+"/")
		src, err := os.ReadFile(file)
		if err != nil {
			continue
		}
		off := 0
		for ln, text := range strings.Split(string(src), "\n") {
			if k := strings.Index(text, "("); k > 0 && c09IsIdent(text[:k]) {
				vs := check.GetVarStruct(src, off, uint32(ln), 0)
				if vs.ValidFlag && len(vs.StrVec) > 0 {
					ds := []string{}
					for _, d := range p.FindVarDefineInfo(file, &vs) {
						ds = append(ds, fmt.Sprintf("%s:%d:%d", strings.TrimPrefix(d.StrFile, root+"/"), d.Loc.StartLine, d.Loc.StartColumn))
					}
					sort.Strings(ds)
					lines = append(lines, fmt.Sprintf("%s|def|%d|%s", rel, ln+1, strings.Join(ds, ",")))
					vs2 := check.GetVarStruct(src, off, uint32(ln), 0)
					rs := []string{}
					for _, d := range p.FindReferences(file, &vs2, common.CRSReference) {
						rs = append(rs, fmt.Sprintf("%s:%d:%d", strings.TrimPrefix(d.StrFile, root+"/"), d.Loc.StartLine, d.Loc.StartColumn))
					}
					sort.Strings(rs)
					lines = append(lines, fmt.Sprintf("%s|refs|%d|%s", rel, ln+1, strings.Join(rs, ",")))
					ws := []string{}
					for _, y := range p.FindWorkspaceAllSymbol(text[:k]) {
						ws = append(ws, fmt.Sprintf("%s@%s:%d", y.Name, strings.TrimPrefix(y.FileName, root+"/"), y.Loc.StartLine))
					}
					sort.Strings(ws)
					lines = append(lines, fmt.Sprintf("%s|wsym|%d|%s", rel, ln+1, strings.Join(ws, ",")))
				}
			}
			// the file a require("...") string opens (GetBestMatchReferFile behind go-to-definition on the string)
			if k := strings.Index(text, `require("`); k >= 0 {
				rest := text[k+9:]
				if e := strings.Index(rest, `"`); e > 0 {
					mod := strings.ReplaceAll(rest[:e], ".", "/")
					ds := []string{}
					for _, cand := range []string{mod + ".lua", mod + "/init.lua"} {
						for _, d := range p.FindOpenFileDefine(file, cand) {
							ds = append(ds, cand+"->"+strings.TrimPrefix(d.StrFile, root+"/"))
						}
					}
					lines = append(lines, fmt.Sprintf("%s|open|%d|%s", rel, ln+1, strings.Join(ds, ",")))
				}
			}
			off += len(text) + 1
		}
		sy := []string{}
		for _, y := range p.FindFileAllSymbol(file) {
			sy = append(sy, fmt.Sprintf("%s:%d", y.Name, y.Loc.StartLine))
		}
		sort.Strings(sy)
		lines = append(lines, fmt.Sprintf("%s|sym|%s", rel, strings.Join(sy, ",")))
	}
	sort.Strings(lines)
	return strings.Join(lines, "\n")
}

func c09IsIdent(s string) bool {
	for i := 0; i < len(s); i++ {
		c := s[i]
		if !(c == '_' || c >= 'a' && c <= 'z' || c >= 'A' && c <= 'Z' || i > 0 && c >= '0' && c <= '9') {
			return false
		}
	}
	return len(s) > 0
}
