package main

import (
	"fmt"
	"strings"

	"luahelper-lsp/langserver/check/compiler/lexer"
	"luahelper-lsp/langserver/check/compiler/parser"
)

// parseObservable: what parser.BeginAnalyze returns, canonically.
func parseObservable(src []byte) string {
	p := parser.CreateParser(src, "verif")
	block, _, errs := p.BeginAnalyze()
	if isTooMany(errs) {
		return "TOOMANY"
	}
	if block == nil || block.Stats == nil {
		// BeginAnalyze's recover() swallowed a panic that is not the TooManyErr sentinel
		return "SWALLOWED-PANIC"
	}
	lex, par := splitErrs(errs)
	var b strings.Builder
	b.WriteString("OK L:" + strings.Join(lex, ",") + " P:" + strings.Join(par, ",") + " AST:")
	blockS(len(lex) == 0, &b, block)
	return b.String()
}

func init() {
	register("c03.parse", func(line string) string {
		return parseObservable(unhex(strings.Fields(line)[0]))
	})
	// token stream of the stand-alone lexer: kind:text@loc ...
	lexLegW := func(line string, always bool) string {
		src := unhex(strings.Fields(line)[0])
		l := lexer.NewLexer(src, "verif")
		var errs []lexer.ParseError
		l.SetErrHandler(func(e lexer.ParseError) { errs = append(errs, e) })
		l.SkipFirstLineComment()
		type tk struct {
			kind int
			str  string
			loc  lexer.Location
		}
		var toks []tk
		for i := 0; i < len(src)+2; i++ {
			_, kind, str := l.NextToken()
			toks = append(toks, tk{int(kind), str, l.GetNowTokenLoc()})
			if kind == lexer.TkEOF {
				break
			}
		}
		lex, _ := splitErrs(errs)
		wl := len(lex) == 0 || always
		var b strings.Builder
		b.WriteString("L:" + strings.Join(lex, ",") + " T:")
		for _, t := range toks {
			// errlocs leg: the Loc of a string token itself is not compared (an unfinished string's own Loc is not
			// modelled); the tokens AFTER it are what matters
			b.WriteString(fmt.Sprintf(" %d:%s%s", t.kind, hs(t.str), locS(wl && !(always && t.kind == int(lexer.TkString)), t.loc)))
		}
		return b.String()
	}
	lexLeg := func(line string) string { return lexLegW(line, false) }
	// C04: token Locs also in files WITH lexical errors (illegal tokens, unfinished strings): the line/column bookkeeping
	// after such a token is what later ranges are computed from
	register("c04.errlocs", func(line string) string { return lexLegW(line, true) })
	register("c03.lex", lexLeg)
	register("c03.escape", lexLeg) // string literals made of escape sequences; same observable
	register("c04.toks", lexLeg) // C04 looks at the same token stream (ranges vs. the LSP reading of the text)
	// C04: the Locs of every name-bearing AST node (what definition / references / rename / symbols forward)
	register("c04.names", func(line string) string { return parseObservable(unhex(strings.Fields(line)[0])) })
	register("c01.parse", func(line string) string { return parseObservable(unhex(strings.Fields(line)[0])) })
}
