package main

// C10 legs. The worker (this binary, built with -race: harness/bin/lhimpl_race) re-executes itself once per case
// (`c10.child`), because one process can host one server (common.GConfig is a process global) and because a
// fatal "concurrent map read and map write" cannot be recovered in-process. The race detector writes its
// reports to GORACE log_path; the parent parses them and attributes every report to the two handler methods
// (outermost langserver.(*LspServer).X frame of each access stack, or of the goroutine-creation stack).

import (
	"bytes"
	"fmt"
	"io/ioutil"
	"os"
	"os/exec"
	"path/filepath"
	"regexp"
	"sort"
	"strconv"
	"strings"
	"time"
)

func c10ParseSched(f []string) c10Sched {
	// <first> <second> <reps> <seed> <filler> <warm> [<live>]
	// live = number of FURTHER documents that are open with an unsaved, cleanly parsing edit (each holds a live
	// analysis result in the project's LRU cache) and use the global the queries ask about; a.lua is edited too
	reps, _ := strconv.Atoi(f[2])
	seed, _ := strconv.ParseInt(f[3], 10, 64)
	filler, _ := strconv.Atoi(f[4])
	live := 0
	if len(f) > 6 {
		live, _ = strconv.Atoi(f[6])
	}
	return c10Sched{first: f[0], second: f[1], reps: reps, seed: seed, filler: filler, warm: len(f) > 5 && f[5] == "1", live: live}
}

var c10FrameRe = regexp.MustCompile(`^  (\S+)\(\)$`)
var c10LspRe = regexp.MustCompile(`^luahelper-lsp/langserver\.\(\*LspServer\)\.([A-Za-z0-9_]+)(\.func\d+)*$`)
var c10GorRe = regexp.MustCompile(`by goroutine (\d+)`)

type c10Access struct {
	gor    string
	frames []string
}

// outermost handler-level method of a stack (frames are innermost first)
func c10Outer(frames []string) string {
	res := ""
	for _, fr := range frames {
		if m := c10LspRe.FindStringSubmatch(fr); m != nil {
			res = m[1]
		}
	}
	return res
}

func c10Inner(frames []string) string {
	for _, fr := range frames {
		if !strings.HasPrefix(fr, "runtime.") && !strings.HasPrefix(fr, "sync") && !strings.HasPrefix(fr, "internal/") {
			i := strings.LastIndex(fr, "/")
			return fr[i+1:]
		}
	}
	if len(frames) > 0 {
		return frames[0]
	}
	return "?"
}

type c10Block struct {
	text string
	acc  []c10Access
}

func c10ParseBlock(blk string) c10Block {
	b := c10Block{text: blk}
	var cur *[]string
	for _, line := range strings.Split(blk, "\n") {
		if line == "" {
			continue
		}
		if !strings.HasPrefix(line, " ") {
			cur = nil
			isAcc := strings.Contains(line, "ead at") || strings.Contains(line, "rite at")
			if m := c10GorRe.FindStringSubmatch(line); m != nil && isAcc {
				b.acc = append(b.acc, c10Access{gor: m[1]})
				cur = &b.acc[len(b.acc)-1].frames
			} else if isAcc && strings.Contains(line, "by main goroutine") {
				b.acc = append(b.acc, c10Access{gor: "main"})
				cur = &b.acc[len(b.acc)-1].frames
			}
			continue
		}
		if cur != nil {
			if m := c10FrameRe.FindStringSubmatch(line); m != nil {
				*cur = append(*cur, m[1])
			}
		}
	}
	return b
}

func c10HasFrame(frames []string, sub string) bool {
	for _, f := range frames {
		if strings.Contains(f, sub) {
			return true
		}
	}
	return false
}

// c10ParseRaces returns the set of "A+B" attributions (sorted pair of handler methods) with one sample site each.
// Attribution of one access: the outermost langserver.(*LspServer).X frame of its stack; else of the stack that
// created its goroutine (worker goroutines of a handler); else the handler seen in any other report for the same
// goroutine (jrpc2 marshals the handler's result in the handler's goroutine AFTER the handler returned: results
// that alias shared memory are read there); else "?marshal" / "?<innermost function>".
func c10ParseRaces(log string) map[string]string {
	out := map[string]string{}
	var blocks []c10Block
	gorName := map[string]string{}
	for _, blk := range strings.Split(log, "==================") {
		if !strings.Contains(blk, "WARNING: DATA RACE") {
			continue
		}
		b := c10ParseBlock(blk)
		blocks = append(blocks, b)
		for _, a := range b.acc {
			n := c10Outer(a.frames)
			if n == "" {
				n = c10Outer(c10CreatedFrames(blk, a.gor))
			}
			if n != "" {
				gorName[a.gor] = n
			}
		}
	}
	for _, b := range blocks {
		names := []string{}
		sites := []string{}
		for i := range b.acc {
			if i >= 2 {
				break
			}
			n := c10Outer(b.acc[i].frames)
			if n == "" {
				n = c10Outer(c10CreatedFrames(b.text, b.acc[i].gor))
			}
			if n == "" {
				n = gorName[b.acc[i].gor]
			}
			if n == "" && c10HasFrame(b.acc[i].frames, "jrpc2.(*Server).invoke") && c10HasFrame(b.acc[i].frames, "json.Marshal") {
				n = "?marshal"
			}
			if n == "" {
				n = "?" + c10Inner(b.acc[i].frames)
			}
			names = append(names, n)
			sites = append(sites, c10Inner(b.acc[i].frames))
		}
		for len(names) < 2 {
			names = append(names, "?")
			sites = append(sites, "?")
		}
		if names[0] > names[1] {
			names[0], names[1] = names[1], names[0]
			sites[0], sites[1] = sites[1], sites[0]
		}
		key := names[0] + "+" + names[1]
		if _, ok := out[key]; !ok {
			out[key] = sites[0] + "|" + sites[1]
		}
	}
	return out
}

func c10CreatedFrames(blk, gor string) []string {
	var fr []string
	in := false
	for _, line := range strings.Split(blk, "\n") {
		if !strings.HasPrefix(line, " ") {
			in = strings.HasPrefix(line, "Goroutine "+gor+" (")
			continue
		}
		if in {
			if m := c10FrameRe.FindStringSubmatch(line); m != nil {
				fr = append(fr, m[1])
			}
		}
	}
	return fr
}

// c10Child runs one schedule against a fresh real server and prints a one-line summary.
func c10Child(line string) string {
	f := strings.Fields(line)
	mode := f[0]
	dir := os.Getenv("C10_WS") // created (and removed, also after a crash) by the parent
	if dir == "" {
		d, err := ioutil.TempDir("", "c10ws")
		if err != nil {
			return "SETUP-ERROR " + err.Error()
		}
		dir = d
		defer os.RemoveAll(dir)
	}
	dir, _ = filepath.EvalSymlinks(dir)
	switch mode {
	case "race":
		s := c10ParseSched(f[1:])
		c := c10SetupLive(dir, s.filler, s.warm, s.live)
		ans := c10RunOverlap(c, s)
		for _, a := range ans {
			if a[0] == "TIMEOUT" {
				return "TIMEOUT"
			}
		}
		return fmt.Sprintf("DONE %d", len(ans))
	case "answers":
		// sequential or overlapped answers of one round, for the serialisability sample
		return c10Answers(dir, f[1:])
	}
	return "BAD-MODE"
}

// c10Spawn re-executes this binary as `c10.child` with the race detector logging to a private directory.
func c10Spawn(line string, timeout time.Duration) (stdout string, stderr string, races map[string]string, err error) {
	logdir, e := ioutil.TempDir("", "c10race")
	if e != nil {
		return "", "", nil, e
	}
	defer os.RemoveAll(logdir)
	wsdir, e := ioutil.TempDir("", "c10ws")
	if e != nil {
		return "", "", nil, e
	}
	defer os.RemoveAll(wsdir)
	exe := os.Args[0]
	if !c10RaceBuild {
		// bin/replay drives harness/bin/lhimpl: the C10 legs need the race detector, use the sibling binary
		if abs, e := filepath.Abs(exe); e == nil {
			sib := filepath.Join(filepath.Dir(abs), "lhimpl_race")
			if _, e := os.Stat(sib); e == nil {
				exe = sib
			}
		}
	}
	cmd := exec.Command(exe, "c10.child")
	cmd.Env = append(os.Environ(), "C10_WS="+wsdir,
		"GORACE=halt_on_error=0 exitcode=0 history_size=4 log_path="+filepath.Join(logdir, "race"))
	cmd.Stdin = strings.NewReader(line + "\n")
	var so, se bytes.Buffer
	cmd.Stdout, cmd.Stderr = &so, &se
	if e := cmd.Start(); e != nil {
		return "", "", nil, e
	}
	done := make(chan error, 1)
	go func() { done <- cmd.Wait() }()
	select {
	case err = <-done:
	case <-time.After(timeout):
		cmd.Process.Kill()
		<-done
		err = fmt.Errorf("timeout")
	}
	var logs strings.Builder
	files, _ := filepath.Glob(filepath.Join(logdir, "race*"))
	for _, fn := range files {
		b, _ := ioutil.ReadFile(fn)
		logs.Write(b)
	}
	if d := os.Getenv("C10_KEEP_RACELOG"); d != "" && logs.Len() > 0 {
		os.MkdirAll(d, 0755)
		ioutil.WriteFile(filepath.Join(d, fmt.Sprintf("race-%d.log", time.Now().UnixNano())), []byte(line+"\n"+logs.String()), 0644)
	}
	return strings.TrimSpace(so.String()), se.String(), c10ParseRaces(logs.String()), err
}

func c10CrashWord(stderr string, err error) string {
	switch {
	case strings.Contains(stderr, "concurrent map"):
		return "CRASH concurrent-map"
	case strings.Contains(stderr, "stack overflow") || strings.Contains(stderr, "goroutine stack exceeds"):
		return "CRASH stack-overflow"
	case strings.Contains(stderr, "fatal error"):
		return "CRASH fatal"
	case strings.Contains(stderr, "panic:"):
		return "CRASH panic"
	case err != nil && err.Error() == "timeout":
		return "TIMEOUT"
	}
	return "CRASH exit"
}

func init() {
	register("c10.child", c10Child)

	// case: <first> <second> <reps> <seed> <filler> <warm> [<live>]
	// answer: "NORACE" | "RACE A+B,C+D" (sorted set of handler-method pairs the race detector reported)
	//         | "CRASH concurrent-map [RACE ...]" | "TIMEOUT"
	raceLeg := func(line string) string {
		so, se, races, err := c10Spawn("race "+line, 240*time.Second)
		keys := []string{}
		for k := range races {
			keys = append(keys, k)
		}
		sort.Strings(keys)
		r := "NORACE"
		if len(keys) > 0 {
			r = "RACE " + strings.Join(keys, ",")
		}
		if d := os.Getenv("C10_SITES"); d != "" && len(keys) > 0 {
			fh, e := os.OpenFile(d, os.O_APPEND|os.O_CREATE|os.O_WRONLY, 0644)
			if e == nil {
				for _, k := range keys {
					fmt.Fprintf(fh, "%s\t%s\t%s\n", line, k, races[k])
				}
				fh.Close()
			}
		}
		if err != nil || !strings.HasPrefix(so, "DONE") {
			if so == "TIMEOUT" {
				return "TIMEOUT " + r
			}
			return c10CrashWord(se, err) + " " + r
		}
		return r
	}
	register("c10.race", raceLeg)
	// same run; checks/c10.py keeps only the pairs with a background (telemetry) goroutine on one side
	register("c10.telemetry", raceLeg)

	// case: <query> <mutator> <variant> <reps> <seed>; answer "IN d" | "IN s" | "OUT k/n" | "CRASH ..." | "TIMEOUT"
	register("c10.serial", func(line string) string {
		so, se, _, err := c10Spawn("answers "+line, 240*time.Second)
		if err != nil || !(strings.HasPrefix(so, "IN") || strings.HasPrefix(so, "OUT")) {
			if so == "TIMEOUT" {
				return "TIMEOUT"
			}
			return c10CrashWord(se, err)
		}
		return so
	})
}
