package main

// C15: driving the REAL language server (langserver.CreateServer over channel.Direct) with raw JSON-RPC,
// one reader (the caller), request/response matched by id, server notifications skipped.

import (
	"encoding/json"
	"fmt"
	"sync"

	"github.com/yinfei8/jrpc2"
	"github.com/yinfei8/jrpc2/channel"
	"luahelper-lsp/langserver"
	"luahelper-lsp/langserver/check/common"
	"luahelper-lsp/langserver/log"
)

type c15Server struct {
	cch channel.Channel
	srv *jrpc2.Server
	id  int
}

var c15LogOnce sync.Once

// c15Start creates a fresh server on the workspace `root` (process-global config re-initialised as main() does).
func c15Start(root string) (*c15Server, error) {
	return c15StartOpts(root, map[string]interface{}{"client": "vsc", "LocalRun": true, "AllEnable": true,
		"CheckSyntax": true, "CheckAnnotateType": true})
}

// c15StartOpts: the same with the given initializationOptions (nil = the client sends none)
func c15StartOpts(root string, opts map[string]interface{}) (*c15Server, error) {
	c15LogOnce.Do(func() { log.InitLog(false) })
	common.GlobalConfigDefautInit()
	common.GConfig.IntialGlobalVar()
	srv := langserver.CreateServer()
	cch, sch := channel.Direct()
	srv.Start(sch)
	s := &c15Server{cch: cch, srv: srv}
	params := map[string]interface{}{
		"processId": nil, "rootPath": root, "rootUri": "file://" + root, "capabilities": map[string]interface{}{}}
	if opts != nil {
		params["initializationOptions"] = opts
	}
	_, err := s.call("initialize", params)
	if err != nil {
		return nil, err
	}
	return s, nil
}

// hover text at (line, ch) (0-based), "" when there is none
func (s *c15Server) hover(uri string, line, ch int) (string, error) {
	res, err := s.call("textDocument/hover", map[string]interface{}{
		"textDocument": map[string]interface{}{"uri": uri},
		"position":     map[string]interface{}{"line": line, "character": ch}})
	if err != nil {
		return "", err
	}
	var h struct {
		Contents struct {
			Value string `json:"value"`
		} `json:"contents"`
	}
	if len(res) > 0 && string(res) != "null" {
		if err := json.Unmarshal(res, &h); err != nil {
			return "", nil
		}
	}
	return h.Contents.Value, nil
}

func (s *c15Server) stop() {
	// the Direct channel is unbuffered: keep reading so that a handler pushing a notification cannot block Stop
	go func() {
		for {
			if _, err := s.cch.Recv(); err != nil {
				return
			}
		}
	}()
	s.srv.Stop()
	s.cch.Close()
}

func (s *c15Server) call(method string, params interface{}) (json.RawMessage, error) {
	s.id++
	b, err := json.Marshal(map[string]interface{}{"jsonrpc": "2.0", "id": s.id, "method": method, "params": params})
	if err != nil {
		return nil, err
	}
	if err := s.cch.Send(b); err != nil {
		return nil, err
	}
	for {
		m, err := s.cch.Recv()
		if err != nil {
			return nil, err
		}
		var msg struct {
			ID     *int            `json:"id"`
			Result json.RawMessage `json:"result"`
			Error  *struct {
				Code    int    `json:"code"`
				Message string `json:"message"`
			} `json:"error"`
			Method string `json:"method"`
		}
		if json.Unmarshal(m, &msg) != nil {
			continue
		}
		if msg.Method == "" && msg.ID != nil && *msg.ID == s.id {
			if msg.Error != nil {
				return nil, fmt.Errorf("rpc error %d %s", msg.Error.Code, msg.Error.Message)
			}
			return msg.Result, nil
		}
	}
}

func (s *c15Server) notify(method string, params interface{}) {
	b, _ := json.Marshal(map[string]interface{}{"jsonrpc": "2.0", "method": method, "params": params})
	s.cch.Send(b)
}

func (s *c15Server) didOpen(uri, text string) {
	s.notify("textDocument/didOpen", map[string]interface{}{"textDocument": map[string]interface{}{
		"uri": uri, "languageId": "lua", "version": 1, "text": text}})
}

// completion labels offered at (line, ch) (0-based), trigger character "."
func (s *c15Server) complete(uri string, line, ch int) ([]string, error) {
	res, err := s.call("textDocument/completion", map[string]interface{}{
		"textDocument": map[string]interface{}{"uri": uri},
		"position":     map[string]interface{}{"line": line, "character": ch},
		"context":      map[string]interface{}{"triggerKind": 2, "triggerCharacter": "."}})
	if err != nil {
		return nil, err
	}
	var cl struct {
		Items []struct {
			Label string `json:"label"`
		} `json:"items"`
	}
	if len(res) > 0 && string(res) != "null" {
		if err := json.Unmarshal(res, &cl); err != nil {
			return nil, err
		}
	}
	out := []string{}
	for _, it := range cl.Items {
		out = append(out, it.Label)
	}
	return out, nil
}

type c15Loc struct {
	URI  string
	Line int // 0-based start line
}

func (s *c15Server) define(uri string, line, ch int) ([]c15Loc, error) {
	res, err := s.call("textDocument/definition", map[string]interface{}{
		"textDocument": map[string]interface{}{"uri": uri},
		"position":     map[string]interface{}{"line": line, "character": ch}})
	if err != nil {
		return nil, err
	}
	var locs []struct {
		URI   string `json:"uri"`
		Range struct {
			Start struct {
				Line int `json:"line"`
			} `json:"start"`
		} `json:"range"`
	}
	if len(res) > 0 && string(res) != "null" {
		if err := json.Unmarshal(res, &locs); err != nil {
			return nil, err
		}
	}
	out := []c15Loc{}
	for _, l := range locs {
		out = append(out, c15Loc{l.URI, l.Range.Start.Line})
	}
	return out, nil
}
