// C17: driver for the REAL language server (langserver.CreateServer) over jrpc2 channel.Direct(), speaking raw JSON
// with one reader goroutine (publishDiagnostics are folded into a client view in arrival order) and a request round
// trip as fence. common.GConfig is a process global: exactly one session per process (see legs_c17.go: every case is
// run in a re-exec'ed child of the harness binary).
package main

import (
	"encoding/json"
	"fmt"
	"io/ioutil"
	"os"
	"path/filepath"
	"sort"
	"strconv"
	"strings"
	"sync"
	"time"

	"github.com/yinfei8/jrpc2/channel"
	"luahelper-lsp/langserver"
	"luahelper-lsp/langserver/check/common"
)

type c17Diag struct {
	File string // workspace-relative
	Type int
	Line int
	Col  int
}

type c17Session struct {
	root   string
	cli    channel.Channel
	mu     sync.Mutex
	view   map[string][]c17Diag // last publishDiagnostics per file (relative path)
	resp   chan string
	nextID int
	pubs   int
}

func c17Start(root string) *c17Session {
	common.GlobalConfigDefautInit()
	common.GConfig.IntialGlobalVar()
	srv := langserver.CreateServer()
	cli, sch := channel.Direct()
	srv.Start(sch)
	s := &c17Session{root: root, cli: cli, view: map[string][]c17Diag{}, resp: make(chan string, 16), nextID: 1}
	go s.reader()
	return s
}

type c17Msg struct {
	ID     *json.RawMessage `json:"id"`
	Method string           `json:"method"`
	Params json.RawMessage  `json:"params"`
	Error  *json.RawMessage `json:"error"`
}

type c17Pub struct {
	URI         string `json:"uri"`
	Diagnostics []struct {
		Range struct {
			Start struct {
				Line      int `json:"line"`
				Character int `json:"character"`
			} `json:"start"`
		} `json:"range"`
		Message string `json:"message"`
	} `json:"diagnostics"`
}

func (s *c17Session) reader() {
	for {
		b, err := s.cli.Recv()
		if err != nil {
			close(s.resp)
			return
		}
		var m c17Msg
		if json.Unmarshal(b, &m) != nil {
			continue
		}
		if m.Method == "textDocument/publishDiagnostics" {
			var p c17Pub
			if json.Unmarshal(m.Params, &p) != nil {
				continue
			}
			file := strings.TrimPrefix(p.URI, "file://")
			rel := strings.TrimPrefix(file, s.root+"/")
			ds := []c17Diag{}
			for _, d := range p.Diagnostics {
				ty := -1
				if i := strings.Index(d.Message, "[Warn type:"); i >= 0 {
					rest := d.Message[i+len("[Warn type:"):]
					if j := strings.Index(rest, "]"); j >= 0 {
						if n, e := strconv.Atoi(rest[:j]); e == nil {
							ty = n
						}
					}
				}
				ds = append(ds, c17Diag{rel, ty, d.Range.Start.Line, d.Range.Start.Character})
			}
			s.mu.Lock()
			s.view[rel] = ds
			s.pubs++
			s.mu.Unlock()
			continue
		}
		if m.Method == "" && m.ID != nil {
			if m.Error != nil {
				s.resp <- "ERR " + string(*m.Error)
			} else {
				s.resp <- "OK"
			}
		}
	}
}

func (s *c17Session) notify(method string, params interface{}) {
	p, _ := json.Marshal(params)
	s.cli.Send([]byte(fmt.Sprintf(`{"jsonrpc":"2.0","method":%q,"params":%s}`, method, p)))
}

// call sends a request and waits for its response ("OK" / "ERR ..." / "TIMEOUT")
func (s *c17Session) call(method string, params interface{}) string {
	id := s.nextID
	s.nextID++
	if params == nil {
		s.cli.Send([]byte(fmt.Sprintf(`{"jsonrpc":"2.0","id":%d,"method":%q}`, id, method)))
	} else {
		p, _ := json.Marshal(params)
		s.cli.Send([]byte(fmt.Sprintf(`{"jsonrpc":"2.0","id":%d,"method":%q,"params":%s}`, id, method, p)))
	}
	select {
	case r, ok := <-s.resp:
		if !ok {
			return "CLOSED"
		}
		return r
	case <-time.After(60 * time.Second):
		return "TIMEOUT"
	}
}

// fence: jrpc2 starts a request only after all earlier notifications have been handled
func (s *c17Session) fence() string { return s.call("shutdown", nil) }

func (s *c17Session) snapshot() []c17Diag {
	s.mu.Lock()
	defer s.mu.Unlock()
	out := []c17Diag{}
	for _, ds := range s.view {
		out = append(out, ds...)
	}
	sort.Slice(out, func(i, j int) bool {
		a, b := out[i], out[j]
		if a.File != b.File {
			return a.File < b.File
		}
		if a.Line != b.Line {
			return a.Line < b.Line
		}
		if a.Col != b.Col {
			return a.Col < b.Col
		}
		return a.Type < b.Type
	})
	return out
}

func c17DiagString(ds []c17Diag) string {
	if len(ds) == 0 {
		return "_"
	}
	parts := make([]string, len(ds))
	for i, d := range ds {
		parts[i] = fmt.Sprintf("%s:%d:%d:%d", hx([]byte(d.File)), d.Type, d.Line, d.Col)
	}
	return strings.Join(parts, ",")
}

func (s *c17Session) initialize(opts interface{}) string {
	params := map[string]interface{}{
		"processId": nil,
		"rootPath":  s.root,
		"rootUri":   "file://" + s.root,
	}
	if opts != nil {
		params["initializationOptions"] = opts
	}
	r := s.call("initialize", params)
	if r != "OK" {
		return r
	}
	s.notify("initialized", map[string]interface{}{})
	return s.fence()
}

func (s *c17Session) changeConfiguration(settings interface{}) string {
	s.notify("workspace/didChangeConfiguration", map[string]interface{}{"settings": settings})
	return s.fence()
}

// c17WriteWorkspace materialises the files of a workspace (only those listed in keep, nil = all) under root
func c17WriteWorkspace(root string, ws map[string]string, keep map[string]bool) error {
	os.RemoveAll(root)
	if err := os.MkdirAll(root, 0755); err != nil {
		return err
	}
	for rel, content := range ws {
		if keep != nil && !keep[rel] {
			continue
		}
		p := filepath.Join(root, rel)
		if err := os.MkdirAll(filepath.Dir(p), 0755); err != nil {
			return err
		}
		if err := ioutil.WriteFile(p, []byte(content), 0644); err != nil {
			return err
		}
	}
	return nil
}

// c17URI: the document URI as an editor writes it ('+' and '%' escaped: the server query-unescapes the URI)
func (s *c17Session) c17URI(rel string) string {
	p := strings.Replace(s.root+"/"+rel, "%", "%25", -1)
	return "file://" + strings.Replace(p, "+", "%2B", -1)
}

func (s *c17Session) didOpen(rel, text string) {
	s.notify("textDocument/didOpen", map[string]interface{}{"textDocument": map[string]interface{}{
		"uri": s.c17URI(rel), "languageId": "lua", "version": 1, "text": text}})
}

// didChangeFull replaces the whole text of an opened document
func (s *c17Session) didChangeFull(rel, text string) {
	s.notify("textDocument/didChange", map[string]interface{}{
		"textDocument":   map[string]interface{}{"uri": s.c17URI(rel), "version": 2},
		"contentChanges": []map[string]interface{}{{"text": text}}})
}

// hasDiagAtLine: does the client's present view of the file hold a diagnostic that starts on the given line?
func (s *c17Session) hasDiagAtLine(rel string, line int) bool {
	s.mu.Lock()
	defer s.mu.Unlock()
	for _, d := range s.view[rel] {
		if d.Line == line {
			return true
		}
	}
	return false
}

func (s *c17Session) hasDiags(rel string) bool {
	s.mu.Lock()
	defer s.mu.Unlock()
	return len(s.view[rel]) > 0
}
