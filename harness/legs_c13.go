package main

import (
	"strings"

	"golang.org/x/text/encoding/simplifiedchinese"
	"luahelper-lsp/langserver/codingconv"
)

func init() {
	register("c13.isutf8", func(line string) string {
		return b2s(codingconv.VerifIsUtf8(unhex(strings.TrimSpace(line))))
	})
	// oracle leg: the GBK decoder of golang.org/x/text called directly (not LuaHelper code)
	register("c13.gbk", func(line string) string {
		ret, err := simplifiedchinese.GBK.NewDecoder().String(string(unhex(strings.Fields(line)[0])))
		if err != nil {
			return "ERR"
		}
		return hx([]byte(ret))
	})
	register("c13.convert", func(line string) string {
		f := strings.Fields(line)
		return hx([]byte(codingconv.ConvertStrToUtf8(string(unhex(f[0])))))
	})
}
