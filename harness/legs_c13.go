package main

import (
	"fmt"
	"reflect"
	"sort"
	"strings"

	"golang.org/x/text/encoding/simplifiedchinese"
	"luahelper-lsp/langserver/check"
	"luahelper-lsp/langserver/check/compiler/parser"
	"luahelper-lsp/langserver/codingconv"
)

func init() {
	register("c13.isutf8", func(line string) string {
		return b2s(codingconv.VerifIsUtf8(unhex(strings.TrimSpace(line))))
	})
	// oracle leg: the GBK decoder of golang.org/x/text called directly (not LuaHelper code)
	register("c13.gbk", func(line string) string {
		ret, err := simplifiedchinese.GBK.NewDecoder().String(string(unhex(strings.Fields(line)[0])))
		if err != nil {
			return "ERR"
		}
		return hx([]byte(ret))
	})
	register("c13.convert", func(line string) string {
		f := strings.Fields(line)
		return hx([]byte(codingconv.ConvertStrToUtf8(string(unhex(f[0])))))
	})

	// the comment map BeginAnalyze hands to the analysis (FileResult.CommentMap), canonical:
	// entries by ascending key, `key:head:short:[line.col=hex,...]` joined by ';'
	register("c13.cmap", func(line string) string {
		p := parser.CreateParser(unhex(strings.TrimSpace(line)), "a.lua")
		_, cm, _ := p.BeginAnalyze()
		keys := []int{}
		for k := range cm {
			keys = append(keys, k)
		}
		sort.Ints(keys)
		out := []string{}
		for _, k := range keys {
			ci := cm[k]
			ls := []string{}
			for _, l := range ci.LineVec {
				ls = append(ls, fmt.Sprintf("%d.%d=%s", l.Line, l.Col, hs(l.Str)))
			}
			// fix C13-long-comment-doc: the text a long-bracket comment keeps (field CommentInfo.LongStr; read by
			// reflection so that this harness also builds against a tree without the field)
			if f := reflect.ValueOf(*ci).FieldByName("LongStr"); f.IsValid() && !ci.ShortFlag {
				ls = append(ls, "long="+hs(f.String()))
			}
			out = append(out, fmt.Sprintf("%d:%s:%s:[%s]", k, b2s(ci.HeadFlag), b2s(ci.ShortFlag), strings.Join(ls, ",")))
		}
		if len(out) == 0 {
			return "-"
		}
		return strings.Join(out, ";")
	})
	// the two clean-up functions applied to comment text (completion/signature help: getFinalStrComment; hover: GetStrComment)
	register("c13.cleanup", func(line string) string {
		s := string(unhex(strings.TrimSpace(line)))
		return "final=" + hs(check.VerifFinalStrComment(s, false)) + " hover=" + hs(check.GetStrComment(s))
	})
	// oracle leg: GBK decodings (golang.org/x/text directly) of the `G:<hex>` items of a hover case
	register("c13.gbkdoc", func(line string) string {
		out := []string{}
		for _, it := range strings.Fields(line) {
			if strings.HasPrefix(it, "G:") {
				ret, err := simplifiedchinese.GBK.NewDecoder().String(string(unhex(it[2:])))
				if err != nil {
					out = append(out, it[2:]+"=ERR")
				} else {
					out = append(out, it[2:]+"="+hx([]byte(ret)))
				}
			}
		}
		if len(out) == 0 {
			return "D:-"
		}
		return "D:" + strings.Join(out, ";")
	})
	// hover through the REAL server (harness/srv_script.go)
	register("c13.hover", func(l string) string { return legs["srv.script"](l) })
}
