// C08 legs: histories of editor actions / raw LSP + disk events against the REAL server.
//
// case line:  <mode> <init> <events>
//
//	mode    A = also start a fresh server after every step at which no buffer has unsaved edits, E = only after the
//	        last step, N = never; followed by configuration letters: n = the client sends no PluginPath option,
//	        f = multi-root workspace: the directory o/ is a second workspace folder (then p q are workspace files too)
//	init    initial disk, "a=ld1,b=u1" or "-"          (file letters: a b c d inside the workspace, p q outside)
//	events  ";"-separated, "-" for none
//	  editor actions (disk write BEFORE the notification, as an editor does):
//	    o<f>            didOpen with the disk text (skipped when the file is not on disk or already open)
//	    o<f>=<content>  didOpen with this text - a restored unsaved buffer (same preconditions; the document has unsaved
//	                    edits from then on when the text is not the file's)
//	    c<f>=<content>  didChange, full text (skipped when not open)
//	    s<f>            write buffer to disk, didSave with text (skipped when not open)
//	    x<f>            didClose (skipped when not open)
//	    w<item>+<item>  one didChangeWatchedFiles; item = C<f>=<content> (write, created) | M<f>=<content> (write, changed)
//	                    | D<f> (remove, deleted)
//	  raw events (non-conformant stream; they do not touch the editor-side bookkeeping of buffers / unsaved flags):
//	    O<f>=<content> didOpen with this text | H<f>=<content> didChange | S<f>=<content> didSave (no disk write) |
//	    X<f> didClose | W<item>+.. watched without touching the disk (items C<f> M<f> D<f>) |
//	    k<f>=<content> silent disk write | K<f> silent disk remove
//	content = "e" (empty file) or a sequence of statements, one per line:
//	    l `local v = 1` | c `print(1)` | s syntax error | d<k> `g<k> = 1` | u<k> `print(g<k>)` | r<f> `require("<f>")`
//	    | f1 `function gf(a) end` | f2 `function gf(a, b) end` | g `gf(1, 2, 3)`
//	    | k<j> `---@class T<j>` | t<j> `---@type T<j>`
//
// answer: steps joined by "|", step 0 = after initialize/initialized; step = <view> or <view>~<fresh view>;
//
//	view = "-" or "a:4@0#kln7fa,2@1#122tael;b:1@3#..."  (per file the last published list in the order sent,
//	        type@line#tag, tag = hash of start column, end line, end column and message text: c08_server.go c08Tag)
package main

import (
	"bytes"
	"fmt"
	"os"
	"os/exec"
	"path/filepath"
	"strings"
	"time"
)

var c08Names = []string{"a", "b", "c", "d", "p", "q"}

func c08Fid(ch byte) int {
	for i, n := range c08Names {
		if n[0] == ch {
			return i
		}
	}
	panic("bad file letter " + string(ch))
}

func c08Inside(f int) bool { return f < 4 }

const c08SyntaxLine = ")"

func c08Render(code string) string {
	if code == "e" {
		return ""
	}
	var sb strings.Builder
	for i := 0; i < len(code); i++ {
		switch code[i] {
		case 'l':
			sb.WriteString("local v = 1\n")
		case 'c':
			sb.WriteString("print(1)\n")
		case 's':
			sb.WriteString(c08SyntaxLine + "\n")
		case 'd':
			i++
			sb.WriteString("g" + string(code[i]) + " = 1\n")
		case 'u':
			i++
			sb.WriteString("print(g" + string(code[i]) + ")\n")
		case 'r':
			i++
			sb.WriteString("require(\"" + string(code[i]) + "\")\n")
		case 'f':
			i++
			if code[i] == '1' {
				sb.WriteString("function gf(a) end\n")
			} else {
				sb.WriteString("function gf(a, b) end\n")
			}
		case 'g':
			sb.WriteString("gf(1, 2, 3)\n")
		case 'k':
			i++
			sb.WriteString("---@class T" + string(code[i]) + "\n")
		case 't':
			i++
			sb.WriteString("---@type T" + string(code[i]) + "\n")
		default:
			panic("bad content code " + code)
		}
	}
	return sb.String()
}

type c08Env struct {
	cfg   string // configuration letters of the mode field
	base  string
	paths []string          // by file id
	short map[string]string // path -> letter
	disk  map[int]string    // content codes (harness-side mirror of the disk)
	buf   map[int]string    // editor buffers (content codes)
	dirty map[int]bool
	srv   *c08Srv
}

func (e *c08Env) inside(f int) bool { return c08Inside(f) || strings.Contains(e.cfg, "f") }

// start: a server initialised on the workspace as the configuration says
func (e *c08Env) start() {
	e.srv = c08Start()
	plugin := filepath.Join(e.base, "x")
	if strings.Contains(e.cfg, "n") {
		plugin = ""
	}
	if strings.Contains(e.cfg, "f") {
		e.srv.initialize(filepath.Join(e.base, "w"), plugin, filepath.Join(e.base, "o"))
	} else {
		e.srv.initialize(filepath.Join(e.base, "w"), plugin)
	}
}

func c08NewEnv(base string, cfg string) *c08Env {
	e := &c08Env{cfg: cfg, base: base, short: map[string]string{}, disk: map[int]string{}, buf: map[int]string{}, dirty: map[int]bool{}}
	os.MkdirAll(filepath.Join(base, "w"), 0o755)
	os.MkdirAll(filepath.Join(base, "o"), 0o755)
	for i, n := range c08Names {
		dir := "w"
		if !c08Inside(i) {
			dir = "o"
		}
		p := filepath.Join(base, dir, n+".lua")
		e.paths = append(e.paths, p)
		e.short[p] = n
	}
	return e
}

func (e *c08Env) write(f int, code string) {
	if err := os.WriteFile(e.paths[f], []byte(c08Render(code)), 0o644); err != nil {
		panic(err)
	}
	e.disk[f] = code
}

func (e *c08Env) remove(f int) {
	os.Remove(e.paths[f])
	delete(e.disk, f)
}

func c08SplitEq(s string) (int, string) {
	// "<f>=<content>" or "<f>"
	f := c08Fid(s[0])
	if len(s) > 1 {
		if s[1] != '=' {
			panic("bad event " + s)
		}
		return f, s[2:]
	}
	return f, ""
}

func (e *c08Env) view() string {
	return e.srv.renderView(e.paths, e.short, []string{e.base})
}

// do performs one event (an editor action is skipped when its editor-side precondition fails)
func (e *c08Env) do(ev string) {
	kind, rest := ev[0], ev[1:]
	switch kind {
	case 'o':
		f, with := c08SplitEq(rest)
		code, ok := e.disk[f]
		if _, open := e.buf[f]; !ok || open {
			return
		}
		delete(e.dirty, f)
		if strings.Contains(rest, "=") && c08Render(with) != c08Render(code) {
			code = with
			e.dirty[f] = true
		}
		e.buf[f] = code
		e.srv.didOpen(e.paths[f], c08Render(code))
	case 'c':
		f, code := c08SplitEq(rest)
		if _, open := e.buf[f]; !open {
			return
		}
		e.buf[f] = code
		e.dirty[f] = true
		e.srv.didChange(e.paths[f], c08Render(code))
	case 's':
		f, _ := c08SplitEq(rest)
		code, open := e.buf[f]
		if !open {
			return
		}
		e.write(f, code)
		delete(e.dirty, f)
		e.srv.didSave(e.paths[f], c08Render(code))
	case 'x':
		f, _ := c08SplitEq(rest)
		if _, open := e.buf[f]; !open {
			return
		}
		delete(e.buf, f)
		delete(e.dirty, f)
		e.srv.didClose(e.paths[f])
	case 'w', 'W':
		var evs []c08Watched
		for _, it := range strings.Split(rest, "+") {
			f, code := c08SplitEq(it[1:])
			k := map[byte]int{'C': 1, 'M': 2, 'D': 3}[it[0]]
			if k == 0 {
				panic("bad watched item " + it)
			}
			if kind == 'w' {
				if k == 3 {
					e.remove(f)
				} else {
					e.write(f, code)
				}
			}
			evs = append(evs, c08Watched{e.paths[f], k})
		}
		e.srv.watched(evs)
	// raw events do not touch the editor-side bookkeeping (buf, dirty): same convention as Model/Events.v `ARaw`
	case 'O':
		f, code := c08SplitEq(rest)
		e.srv.didOpen(e.paths[f], c08Render(code))
	case 'H':
		f, code := c08SplitEq(rest)
		e.srv.didChange(e.paths[f], c08Render(code))
	case 'S':
		f, code := c08SplitEq(rest)
		e.srv.didSave(e.paths[f], c08Render(code))
	case 'X':
		f, _ := c08SplitEq(rest)
		e.srv.didClose(e.paths[f])
	case 'k':
		f, code := c08SplitEq(rest)
		e.write(f, code)
	case 'K':
		f, _ := c08SplitEq(rest)
		e.remove(f)
	default:
		panic("bad event " + ev)
	}
}

func c08Self(leg string, input string, tmo time.Duration) (string, error) {
	cmd := exec.Command(os.Args[0], leg)
	cmd.Stdin = strings.NewReader(input + "\n")
	var out, errb bytes.Buffer
	cmd.Stdout = &out
	cmd.Stderr = &errb
	if err := cmd.Start(); err != nil {
		return "", err
	}
	done := make(chan error, 1)
	go func() { done <- cmd.Wait() }()
	select {
	case err := <-done:
		res := strings.TrimRight(out.String(), "\r\n")
		if err != nil || res == "" {
			es := errb.String()
			word := "CRASH exit"
			if strings.Contains(es, "stack overflow") || strings.Contains(es, "goroutine stack exceeds") {
				word = "CRASH stack-overflow"
			} else if strings.Contains(es, "concurrent map") {
				word = "CRASH concurrent-map"
			} else if strings.Contains(es, "fatal error") {
				word = "CRASH fatal"
			} else if strings.Contains(es, "panic:") {
				word = "CRASH panic"
			}
			if os.Getenv("C08_DEBUG") != "" {
				fmt.Fprintln(os.Stderr, es)
			}
			return word, nil
		}
		return res, nil
	case <-time.After(tmo):
		cmd.Process.Kill()
		<-done
		return "TIMEOUT", nil
	}
}

// c08.fresh: line = "<workspace base directory> <configuration letters or -> [<letters of the open documents outside the
// workspace>]"; prints the view of a server freshly initialised on <base>/w (configuration as given) and then told (didOpen
// with the disk text) about those documents, as a client does after a server restart
func c08Fresh(line string) string {
	fs := strings.Fields(line)
	base := fs[0]
	e := c08NewEnv(base, strings.Trim(fs[1], "-"))
	e.start()
	if len(fs) > 2 {
		for i := 0; i < len(fs[2]); i++ {
			f := c08Fid(fs[2][i])
			if data, err := os.ReadFile(e.paths[f]); err == nil {
				e.srv.didOpen(e.paths[f], string(data))
			}
		}
	}
	return e.view()
}

// c08.one: "<base dir> <mode> <init> <events>" - runs one history in this process (one server per process)
func c08One(line string) string {
	fs := strings.Fields(line)
	if len(fs) != 4 {
		return "BAD-CASE"
	}
	base, mode, cfg, init, events := fs[0], fs[1][:1], fs[1][1:], fs[2], fs[3]
	e := c08NewEnv(base, cfg)
	if init != "-" {
		for _, it := range strings.Split(init, ",") {
			f, code := c08SplitEq(it)
			e.write(f, code)
		}
	}
	fresh := func(last bool) string {
		if mode == "N" || (mode == "E" && !last) || len(e.dirty) > 0 {
			return ""
		}
		arg := base + " -" + cfg
		open := ""
		for i := range c08Names {
			if _, ok := e.buf[i]; ok && !e.inside(i) {
				open += c08Names[i]
			}
		}
		if open != "" {
			arg += " " + open
		}
		r, err := c08Self("c08.fresh", arg, 60*time.Second)
		if err != nil {
			return "~ERR"
		}
		return "~" + r
	}
	var evs []string
	if events != "-" {
		evs = strings.Split(events, ";")
	}
	e.start()
	out := []string{e.view() + fresh(len(evs) == 0)}
	for i, ev := range evs {
		e.do(ev)
		out = append(out, e.view()+fresh(i == len(evs)-1))
	}
	return strings.Join(out, "|")
}

// c08.history: worker leg (fed by vlib); every case runs in a fresh subprocess inside a fresh temp directory
func c08History(line string) string {
	base, err := os.MkdirTemp("", "c08-")
	if err != nil {
		return "ERR mkdtemp"
	}
	defer os.RemoveAll(base)
	if rp, err := filepath.EvalSymlinks(base); err == nil {
		base = rp
	}
	r, err := c08Self("c08.one", base+" "+strings.TrimSpace(line), 120*time.Second)
	if err != nil {
		return "ERR " + err.Error()
	}
	return r
}

func init() {
	register("c08.history", c08History)
	register("c08.raw", c08History)
	register("c08.batch", c08History)
	register("c08.tagonly", c08History)
	register("c08.anntype", c08History)
	register("c08.annraw", c08History)
	register("c08.indir", c08History)
	register("c08.opentext", c08History)
	register("c08.samepath", c08History)
	register("c08.samepathraw", c08History)
	// the queries clause: `Q:<0|1> <srv.script case with a history and queries> ## <srv.script case: the final files, the
	// same queries>`; both halves run on a fresh real server each (harness/srv_script.go), answer `Q:<0|1> <first> ~ <second>`
	// (the Q item - the class predicate of the open finding, computed by checks/c08.py - is echoed)
	register("c08.query", func(line string) string {
		parts := strings.SplitN(line, " ## ", 2)
		if len(parts) != 2 {
			return "BAD-CASE"
		}
		q := "Q:0"
		if strings.HasPrefix(line, "Q:1 ") {
			q = "Q:1"
		}
		return q + " " + legs["srv.script"](parts[0]) + " ~ " + legs["srv.script"](parts[1])
	})
	register("c08.one", c08One)
	register("c08.fresh", c08Fresh)
}
