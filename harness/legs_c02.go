package main

// C02 legs: the real offsetForStartAndEnd, the real ApplyContentChanges and the real
// TextDocumentDidOpen/DidChange/DidSave/DidClose handlers on a real LspServer.

import (
	"context"
	"fmt"
	"net/url"
	"os"
	"os/exec"
	"path/filepath"
	"sort"
	"strconv"
	"strings"

	"luahelper-lsp/langserver"
	"luahelper-lsp/langserver/lspcommon"
	"luahelper-lsp/langserver/pathpre"
	lsp "luahelper-lsp/langserver/protocol"
)

func c02u32(s string) uint32 {
	v, err := strconv.ParseUint(s, 10, 32)
	if err != nil {
		panic("bad number: " + s)
	}
	return uint32(v)
}

// canonical form of the three error messages of offsetForStartAndEnd (with the numbers they carry)
func c02OffErr(msg string) string {
	var a, b uint32
	if n, _ := fmt.Sscanf(msg, "character %d (zero-based) is beyond line %d boundary (zero-based)", &a, &b); n == 2 {
		return fmt.Sprintf("ERR beyond %d %d", a, b)
	}
	if n, _ := fmt.Sscanf(msg, "character %d (zero-based) is beyond first line boundary", &a); n == 1 {
		return fmt.Sprintf("ERR first %d", a)
	}
	if n, _ := fmt.Sscanf(msg, "file only has %d lines", &a); n == 1 {
		return fmt.Sprintf("ERR lines %d", a)
	}
	return "ERR other " + msg
}

// "sl.sc.el.ec.rl:<text>" or "F.rl:<text>"; text decoded by dec
func c02Change(s string, dec func(string) string) lsp.TextDocumentContentChangeEvent {
	i := strings.IndexByte(s, ':')
	head, text := strings.Split(s[:i], "."), dec(s[i+1:])
	if head[0] == "F" {
		return lsp.TextDocumentContentChangeEvent{Range: nil, RangeLength: c02u32(head[1]), Text: text}
	}
	return lsp.TextDocumentContentChangeEvent{
		Range: &lsp.Range{Start: lsp.Position{Line: c02u32(head[0]), Character: c02u32(head[1])},
			End: lsp.Position{Line: c02u32(head[2]), Character: c02u32(head[3])}},
		RangeLength: c02u32(head[4]), Text: text}
}

func c02Changes(s string, dec func(string) string) []lsp.TextDocumentContentChangeEvent {
	var out []lsp.TextDocumentContentChangeEvent
	if s == "" {
		return out
	}
	for _, c := range strings.Split(s, ";") {
		out = append(out, c02Change(c, dec))
	}
	return out
}

// text given as dot-separated hex code points ("-" = empty): what a JSON string carries
func c02Cps(s string) string {
	if s == "-" {
		return ""
	}
	var rs []rune
	for _, h := range strings.Split(s, ".") {
		v, err := strconv.ParseUint(h, 16, 32)
		if err != nil {
			panic("bad code point: " + h)
		}
		rs = append(rs, rune(v))
	}
	return string(rs)
}

func c02Hex(s string) string { return string(unhex(s)) }

var c02Names = []string{"d0.lua", "d1.lua", "d2.lua", "d3.txt"}

// the file a URI name denotes (RFC 3986 reading: percent-decoded, '+' is '+'), relative to the root; "" if the name
// is malformed, leaves the root or is no plain file name (nothing is written to disk for it)
func c02DiskRel(name string) string {
	p, err := url.PathUnescape(name)
	if err != nil || p == "" || strings.ContainsAny(p, "\\\x00") || strings.HasSuffix(p, "/") {
		return ""
	}
	c := filepath.Clean("/" + p)
	if c != "/"+p {
		return ""
	}
	return p
}

// c02History plays a notification history; with analysed = true (leg c02.analysed) every state cell of an open
// document also carries what the server ANALYSES for it: `<cached text hex>/<sorted outline names joined by +>`
// (textDocument/documentSymbol of the real handler: the names of the top-level `NAME = 1` lines of the text the
// last analysis ran on - the client's buffer, not the file on disk)
func c02History(line string) string { return c02HistoryObs(line, false) }

func c02HistoryObs(line string, analysed bool) string {
	root, err := os.MkdirTemp("", "verif-c02-")
	if err != nil {
		panic(err)
	}
	defer os.RemoveAll(root)
	root, _ = filepath.EvalSymlinks(root)
	ctx := context.Background()
	toks := strings.Fields(line)
	names := c02Names
	if len(toks) > 0 && strings.HasPrefix(toks[0], "U:") {
		names = nil
		for _, h := range strings.Split(toks[0][2:], ",") {
			names = append(names, string(unhex(h)))
		}
		toks = toks[1:]
	}
	if analysed {
		// the workspace exists before the server starts: a document whose first didOpen is a note O (the editor opens
		// the file) is on disk with that text; one whose first didOpen is a note P has no file yet
		seen := map[int]bool{}
		for _, tok := range toks {
			if d := int(tok[1] - '0'); (tok[0] == 'O' || tok[0] == 'P') && !seen[d] && d < len(names) {
				seen[d] = true
				if rel := c02DiskRel(names[d]); rel != "" && tok[0] == 'O' {
					os.MkdirAll(filepath.Dir(root+"/"+rel), 0o755)
					os.WriteFile(root+"/"+rel, []byte(c02Cps(tok[3:])), 0o644)
				}
			}
		}
	}
	srv := langserver.VerifC02NewServer(root)
	// the URI exactly as the client spells it: file://<root>/<name>
	uri := func(d int) lsp.DocumentURI { return lsp.DocumentURI("file://" + root + "/" + names[d]) }
	write := func(d int, text string) {
		rel := c02DiskRel(names[d])
		if rel == "" {
			return
		}
		os.MkdirAll(filepath.Dir(root+"/"+rel), 0o755)
		os.WriteFile(root+"/"+rel, []byte(text), 0o644)
	}
	state := func() string {
		var parts []string
		for d := range names {
			b, ok := srv.VerifC02CachedText(string(uri(d)))
			if !ok {
				parts = append(parts, "~")
			} else if analysed {
				syms, _ := srv.TextDocumentSymbol(ctx, lsp.DocumentSymbolParams{TextDocument: lsp.TextDocumentIdentifier{URI: uri(d)}})
				var ns []string
				for _, sy := range syms {
					ns = append(ns, sy.Name)
				}
				sort.Strings(ns)
				n := "-"
				if len(ns) > 0 {
					n = strings.Join(ns, "+")
				}
				parts = append(parts, hx(b)+"/"+n)
			} else {
				parts = append(parts, hx(b))
			}
		}
		return strings.Join(parts, ",")
	}
	step := func(tok string) (obs string) {
		defer func() {
			if r := recover(); r != nil {
				obs = "PANIC"
			}
		}()
		d := int(tok[1] - '0')
		switch tok[0] {
		case 'O':
			text := c02Cps(tok[3:])
			write(d, text) // the client opens what is on disk
			srv.TextDocumentDidOpen(ctx, lsp.DidOpenTextDocumentParams{TextDocument: lsp.TextDocumentItem{URI: uri(d), Text: text}})
		case 'P':
			// didOpen WITHOUT touching the disk: the editor restores an unsaved buffer (hot exit), or the file was
			// changed behind its back - the text of the notification is not the text of the file
			srv.TextDocumentDidOpen(ctx, lsp.DidOpenTextDocumentParams{TextDocument: lsp.TextDocumentItem{URI: uri(d), Text: c02Cps(tok[3:])}})
		case 'C':
			srv.TextDocumentDidChange(ctx, lsp.DidChangeTextDocumentParams{
				TextDocument:   lsp.VersionedTextDocumentIdentifier{TextDocumentIdentifier: lsp.TextDocumentIdentifier{URI: uri(d)}},
				ContentChanges: c02Changes(tok[3:], c02Cps)})
		case 'S':
			p := lsp.DidSaveTextDocumentParams{TextDocument: lsp.TextDocumentIdentifier{URI: uri(d)}}
			if tok[3:] != "nil" {
				text := c02Cps(tok[3:])
				write(d, text) // saving writes the file, then the notification is sent
				p.Text = &text
			} else if analysed {
				// a save without text: the editor has written its buffer all the same; the harness does not know the
				// client's text, it writes what the server holds (equal to it on conformant histories: C02_uri_sync_fixed)
				if b, ok := srv.VerifC02CachedText(string(uri(d))); ok {
					write(d, string(b))
				}
			}
			srv.TextDocumentDidSave(ctx, p)
		case 'X':
			srv.TextDocumentDidClose(ctx, lsp.DidCloseTextDocumentParams{TextDocument: lsp.TextDocumentIdentifier{URI: uri(d)}})
		default:
			panic("bad note " + tok)
		}
		return state()
	}
	var out []string
	for _, tok := range toks {
		o := step(tok)
		out = append(out, o)
		if o == "PANIC" {
			break
		}
	}
	if len(out) == 0 {
		return "-"
	}
	return strings.Join(out, " ")
}

func init() {
	// case: <doc hex> <code points or !> <sl> <sc> <el> <ec>
	register("c02.offsets", func(line string) string {
		f := strings.Fields(line)
		s, e, err := lspcommon.VerifOffsetForStartAndEnd(unhex(f[0]), c02u32(f[2]), c02u32(f[3]), c02u32(f[4]), c02u32(f[5]))
		if err != nil {
			return c02OffErr(err.Error())
		}
		return fmt.Sprintf("OK %d %d", s, e)
	})
	// case: <doc hex> <changes, texts in hex>      (bytes level: the exported method called directly)
	register("c02.apply", func(line string) string {
		f := strings.Fields(line)
		chs := ""
		if len(f) > 1 {
			chs = f[1]
		}
		fc := lspcommon.CreateFileMapCache()
		out, err := fc.ApplyContentChanges("f.lua", unhex(f[0]), c02Changes(chs, c02Hex))
		if err != nil {
			if strings.HasPrefix(err.Error(), "invalid position") {
				return "ERR pos"
			}
			if strings.HasPrefix(err.Error(), " for out of range position") {
				return "ERR range"
			}
			return "ERR other"
		}
		return "OK " + hx(out)
	})
	// case: notifications separated by blanks, texts as code points
	register("c02.history", c02History)
	register("c02.history_bad", c02History)
	// the same histories format; documents are lines `NAME = 1`; observable: cache AND outline names per open document
	register("c02.analysed", func(line string) string { return c02HistoryObs(line, true) })
	// case: a URI in hex; answer: pathpre.VscodeURIToString of it, in hex.
	// c02.uri: preFixStr = "file://" (what InitialRootURIAndPath sets for a root URI file://<rootPath>, the Unix case);
	// c02.uri3: preFixStr = "file:///" (the initial value, kept for file:///c%3A/... roots). The variable is a package
	// global that is only ever switched one way, and every leg runs in its own process.
	register("c02.uri", func(line string) string {
		pathpre.InitialRootURIAndPath("file:///r", "/r")
		return hx([]byte(pathpre.VscodeURIToString(string(unhex(line)))))
	})
	register("c02.uri3", func(line string) string {
		return hx([]byte(pathpre.VscodeURIToString(string(unhex(line)))))
	})
	// case: <root URI hex> <root path hex>; answer: 2 if pathpre.InitialRootURIAndPath switches the prefix to "file://",
	// 3 if it stays "file:///". The switch is one-way, so every case runs in a fresh process (hidden leg c02.rootprefix.one).
	register("c02.rootprefix.one", func(line string) string {
		f := strings.Fields(line)
		pathpre.InitialRootURIAndPath(string(unhex(f[0])), string(unhex(f[1])))
		if pathpre.VscodeURIToString("file:///x") == "/x" {
			return "2"
		}
		return "3"
	})
	register("c02.rootprefix", func(line string) string {
		cmd := exec.Command(os.Args[0], "c02.rootprefix.one")
		cmd.Stdin = strings.NewReader(line + "\n")
		out, err := cmd.Output()
		if err != nil {
			return "CHILDERR"
		}
		return strings.TrimSpace(string(out))
	})
}
