package main

// C02 legs: the real offsetForStartAndEnd, the real ApplyContentChanges and the real
// TextDocumentDidOpen/DidChange/DidSave/DidClose handlers on a real LspServer.

import (
	"context"
	"fmt"
	"os"
	"path/filepath"
	"strconv"
	"strings"

	"luahelper-lsp/langserver"
	"luahelper-lsp/langserver/lspcommon"
	lsp "luahelper-lsp/langserver/protocol"
)

func c02u32(s string) uint32 {
	v, err := strconv.ParseUint(s, 10, 32)
	if err != nil {
		panic("bad number: " + s)
	}
	return uint32(v)
}

// canonical form of the three error messages of offsetForStartAndEnd (with the numbers they carry)
func c02OffErr(msg string) string {
	var a, b uint32
	if n, _ := fmt.Sscanf(msg, "character %d (zero-based) is beyond line %d boundary (zero-based)", &a, &b); n == 2 {
		return fmt.Sprintf("ERR beyond %d %d", a, b)
	}
	if n, _ := fmt.Sscanf(msg, "character %d (zero-based) is beyond first line boundary", &a); n == 1 {
		return fmt.Sprintf("ERR first %d", a)
	}
	if n, _ := fmt.Sscanf(msg, "file only has %d lines", &a); n == 1 {
		return fmt.Sprintf("ERR lines %d", a)
	}
	return "ERR other " + msg
}

// "sl.sc.el.ec.rl:<text>" or "F.rl:<text>"; text decoded by dec
func c02Change(s string, dec func(string) string) lsp.TextDocumentContentChangeEvent {
	i := strings.IndexByte(s, ':')
	head, text := strings.Split(s[:i], "."), dec(s[i+1:])
	if head[0] == "F" {
		return lsp.TextDocumentContentChangeEvent{Range: nil, RangeLength: c02u32(head[1]), Text: text}
	}
	return lsp.TextDocumentContentChangeEvent{
		Range: &lsp.Range{Start: lsp.Position{Line: c02u32(head[0]), Character: c02u32(head[1])},
			End: lsp.Position{Line: c02u32(head[2]), Character: c02u32(head[3])}},
		RangeLength: c02u32(head[4]), Text: text}
}

func c02Changes(s string, dec func(string) string) []lsp.TextDocumentContentChangeEvent {
	var out []lsp.TextDocumentContentChangeEvent
	if s == "" {
		return out
	}
	for _, c := range strings.Split(s, ";") {
		out = append(out, c02Change(c, dec))
	}
	return out
}

// text given as dot-separated hex code points ("-" = empty): what a JSON string carries
func c02Cps(s string) string {
	if s == "-" {
		return ""
	}
	var rs []rune
	for _, h := range strings.Split(s, ".") {
		v, err := strconv.ParseUint(h, 16, 32)
		if err != nil {
			panic("bad code point: " + h)
		}
		rs = append(rs, rune(v))
	}
	return string(rs)
}

func c02Hex(s string) string { return string(unhex(s)) }

var c02Names = []string{"d0.lua", "d1.lua", "d2.lua", "d3.txt"}

func c02History(line string) string {
	root, err := os.MkdirTemp("", "verif-c02-")
	if err != nil {
		panic(err)
	}
	defer os.RemoveAll(root)
	root, _ = filepath.EvalSymlinks(root)
	srv := langserver.VerifC02NewServer(root)
	ctx := context.Background()
	uri := func(d int) lsp.DocumentURI { return lsp.DocumentURI("file://" + root + "/" + c02Names[d]) }
	file := func(d int) string { return root + "/" + c02Names[d] }
	state := func() string {
		var parts []string
		for d := range c02Names {
			b, ok := srv.VerifC02CachedText(string(uri(d)))
			if !ok {
				parts = append(parts, "~")
			} else {
				parts = append(parts, hx(b))
			}
		}
		return strings.Join(parts, ",")
	}
	step := func(tok string) (obs string) {
		defer func() {
			if r := recover(); r != nil {
				obs = "PANIC"
			}
		}()
		d := int(tok[1] - '0')
		switch tok[0] {
		case 'O':
			text := c02Cps(tok[3:])
			os.WriteFile(file(d), []byte(text), 0o644) // the client opens what is on disk
			srv.TextDocumentDidOpen(ctx, lsp.DidOpenTextDocumentParams{TextDocument: lsp.TextDocumentItem{URI: uri(d), Text: text}})
		case 'C':
			srv.TextDocumentDidChange(ctx, lsp.DidChangeTextDocumentParams{
				TextDocument:   lsp.VersionedTextDocumentIdentifier{TextDocumentIdentifier: lsp.TextDocumentIdentifier{URI: uri(d)}},
				ContentChanges: c02Changes(tok[3:], c02Cps)})
		case 'S':
			p := lsp.DidSaveTextDocumentParams{TextDocument: lsp.TextDocumentIdentifier{URI: uri(d)}}
			if tok[3:] != "nil" {
				text := c02Cps(tok[3:])
				os.WriteFile(file(d), []byte(text), 0o644) // saving writes the file, then the notification is sent
				p.Text = &text
			}
			srv.TextDocumentDidSave(ctx, p)
		case 'X':
			srv.TextDocumentDidClose(ctx, lsp.DidCloseTextDocumentParams{TextDocument: lsp.TextDocumentIdentifier{URI: uri(d)}})
		default:
			panic("bad note " + tok)
		}
		return state()
	}
	var out []string
	for _, tok := range strings.Fields(line) {
		o := step(tok)
		out = append(out, o)
		if o == "PANIC" {
			break
		}
	}
	if len(out) == 0 {
		return "-"
	}
	return strings.Join(out, " ")
}

func init() {
	// case: <doc hex> <code points or !> <sl> <sc> <el> <ec>
	register("c02.offsets", func(line string) string {
		f := strings.Fields(line)
		s, e, err := lspcommon.VerifOffsetForStartAndEnd(unhex(f[0]), c02u32(f[2]), c02u32(f[3]), c02u32(f[4]), c02u32(f[5]))
		if err != nil {
			return c02OffErr(err.Error())
		}
		return fmt.Sprintf("OK %d %d", s, e)
	})
	// case: <doc hex> <changes, texts in hex>      (bytes level: the exported method called directly)
	register("c02.apply", func(line string) string {
		f := strings.Fields(line)
		chs := ""
		if len(f) > 1 {
			chs = f[1]
		}
		fc := lspcommon.CreateFileMapCache()
		out, err := fc.ApplyContentChanges("f.lua", unhex(f[0]), c02Changes(chs, c02Hex))
		if err != nil {
			if strings.HasPrefix(err.Error(), "invalid position") {
				return "ERR pos"
			}
			if strings.HasPrefix(err.Error(), " for out of range position") {
				return "ERR range"
			}
			return "ERR other"
		}
		return "OK " + hx(out)
	})
	// case: notifications separated by blanks, texts as code points
	register("c02.history", c02History)
	register("c02.history_bad", c02History)
}
