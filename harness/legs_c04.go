package main

// C04 legs over the REAL language server (harness/srv_script.go).
//   c04.srvans   oracle leg: runs the scripted server on the case and returns its whole answer as ONE field
//                "A:<answer>" (" | " between the step results becomes "|", any other blank "_"), which lib/vlib.py
//                appends to the case before the implementation and the model legs run;
//   c04.ranges   the implementation observable of the leg = the answer the server gave for the case (the A: field);
//                the model driver (ocaml/c04_run.ml) judges every range in it with the predicate extracted from Coq.
// The server is run once per case, so the verdict and the recorded observable speak about the same run.

import "strings"

func init() {
	register("c04.srvans", func(l string) string {
		ans := legs["srv.script"](l)
		ans = strings.ReplaceAll(ans, " | ", "|")
		ans = strings.Join(strings.Fields(ans), "_")
		return "A:" + ans
	})
	register("c04.ranges", func(l string) string {
		f := strings.Fields(l)
		for i := len(f) - 1; i >= 0; i-- {
			if strings.HasPrefix(f[i], "A:") {
				return f[i]
			}
		}
		return "NO-ANSWER"
	})
}
