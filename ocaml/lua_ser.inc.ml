(* ---- lua_ser.inc.ml: canonical serialisation of tokens / AST of the Lua front-end model (shared) ---- *)
let oracle_used = ref false
let gbk_oracle (_ : n list) : z = oracle_used := true; Z0

let zs (x : z) = dec_of_z x
let loc_s withloc (l : loc) = if withloc then Printf.sprintf "@%s.%s.%s.%s" (zs l.sl) (zs l.sc) (zs l.el) (zs l.ec) else ""
let kind_s (k : tkind) = string_of_int (int_of_n (tk_code k))
let attr_s = function AttrReg -> "0" | AttrClose -> "1" | AttrConst -> "2"
let lexerr_s = function LeIllegal -> "ill" | LeUnfinishedStr -> "str" | LeMissingClose -> "close" | LeBadLongDelim -> "delim" | LeMalformedNumber -> "num" | LeBadEscape -> "esc"
let perr_s = function PeExpected -> "exp" | PeCannotStart -> "start" | PeMissingField -> "field" | PeMissingArgs -> "args"
  | PeNotNumber -> "num" | PeExprStat -> "stat" | PeCannotAssign -> "assign" | PeBadAttr -> "attr" | PeMultiClose -> "close"

let rec exp_s wl (b : Buffer.t) (e : exp) : unit =
  let a = Buffer.add_string b in
  let l x = a (loc_s wl x) in
  match e with
  | ENil x -> a "(nil"; l x; a ")"
  | EBad x -> a "(bad"; l x; a ")"
  | ETrue x -> a "(true"; l x; a ")"
  | EFalse x -> a "(false"; l x; a ")"
  | EVararg x -> a "(va"; l x; a ")"
  | EInt (v, x) -> a "(int "; a (zs v); l x; a ")"
  | EFloat (_, x) -> a "(flt"; l x; a ")"
  | EStr (s, x) -> a "(str "; a (hex_of_bytes s); l x; a ")"
  | EUnop (k, e1, x) -> a "(un "; a (kind_s k); a " "; exp_s wl b e1; l x; a ")"
  | EBinop (k, e1, e2, x) -> a "(bin "; a (kind_s k); a " "; exp_s wl b e1; a " "; exp_s wl b e2; l x; a ")"
  | ETable (ks, vs, x) ->
    a "(tbl";
    List.iter2 (fun k v -> a " ["; (match k with None -> a "_" | Some k -> exp_s wl b k); a " "; exp_s wl b v; a "]") ks vs;
    l x; a ")"
  | EFunc (cls, fname, pars, plocs, blk, x, va, colon) ->
    a "(fn "; a (hex_of_bytes cls); a " "; a (hex_of_bytes fname); a " "; a (bool_s va); a " "; a (bool_s colon); a " [";
    List.iter2 (fun p pl -> a " "; a (hex_of_bytes p); l pl) pars plocs; a " ] "; block_s wl b blk; l x; a ")"
  | EName (s, x) -> a "(nm "; a (hex_of_bytes s); l x; a ")"
  | EParens (e1, x) -> a "(par "; exp_s wl b e1; l x; a ")"
  | EIndex (p, k, x) -> a "(idx "; exp_s wl b p; a " "; exp_s wl b k; l x; a ")"
  | ECall (p, nm, args, x) ->
    a "(call "; exp_s wl b p; a " ";
    (match nm with None -> a "_" | Some (s, sl) -> a (hex_of_bytes s); l sl);
    a " ["; List.iter (fun e1 -> a " "; exp_s wl b e1) args; a " ]"; l x; a ")"
and exps_s wl b es = Buffer.add_string b "["; List.iter (fun e -> Buffer.add_string b " "; exp_s wl b e) es; Buffer.add_string b " ]"
and stat_s wl b (s : stat) : unit =
  let a = Buffer.add_string b in
  let l x = a (loc_s wl x) in
  match s with
  | SBreak -> a "(break)"
  | SLabel (nm, x) -> a "(label "; a (hex_of_bytes nm); l x; a ")"
  | SGoto (nm, x) -> a "(goto "; a (hex_of_bytes nm); l x; a ")"
  | SDo (blk, x) -> a "(do "; block_s wl b blk; l x; a ")"
  | SCall e -> a "(callstat "; exp_s wl b e; a ")"
  | SIf (es, bs, x) -> a "(if "; exps_s wl b es; a " ["; List.iter (fun bl -> a " "; block_s wl b bl) bs; a " ]"; l x; a ")"
  | SWhile (e, blk, x) -> a "(while "; exp_s wl b e; a " "; block_s wl b blk; l x; a ")"
  | SRepeat (blk, e, x) -> a "(repeat "; block_s wl b blk; a " "; exp_s wl b e; l x; a ")"
  | SForNum (nm, vl, e1, e2, e3, blk, x) ->
    a "(fornum "; a (hex_of_bytes nm); l vl; a " "; exp_s wl b e1; a " "; exp_s wl b e2; a " "; exp_s wl b e3; a " "; block_s wl b blk; l x; a ")"
  | SForIn (nms, ls, es, blk, x) ->
    a "(forin ["; List.iter2 (fun nm nl -> a " "; a (hex_of_bytes nm); l nl) nms ls; a " ] "; exps_s wl b es; a " "; block_s wl b blk; l x; a ")"
  | SAssign (vs, es, x) -> a "(assign "; exps_s wl b vs; a " "; exps_s wl b es; l x; a ")"
  | SLocal (nms, ls, ats, es, x) ->
    a "(local [";
    let rec go nms ls ats = match nms, ls, ats with
      | nm :: nms', nl :: ls', at :: ats' -> a " "; a (hex_of_bytes nm); l nl; a ":"; a (attr_s at); go nms' ls' ats'
      | _ -> () in
    go nms ls ats; a " ] "; exps_s wl b es; l x; a ")"
  | SLocalFunc (nm, nl, f, x) -> a "(localfn "; a (hex_of_bytes nm); l nl; a " "; exp_s wl b f; l x; a ")"
and block_s wl b (blk : block) : unit =
  let a = Buffer.add_string b in
  match blk with
  | Block (stats, ret, x) ->
    a "{"; List.iter (fun s -> a " "; stat_s wl b s) stats; a " ret:";
    (match ret with None -> a "_" | Some es -> exps_s wl b es); a (loc_s wl x); a "}"

let tok_s withloc (t : tok) =
  Printf.sprintf "%s:%s%s" (kind_s t.tk) (hex_of_bytes t.tstr)
    (if withloc then Printf.sprintf "@%s.%s.%s.%s" (zs t.tline) (zs t.tlsp) (zs t.tfrom) (zs t.tto) else "")
