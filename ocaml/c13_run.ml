(* include: lua_ser.inc.ml srv_case.inc.ml *)
(* C13 driver. Answer line: <model>\t<spec>\t<class> *)
let () = register "c13.isutf8" (fun line ->
  let bs = bytes_of_hex (String.trim line) in
  bool_s (is_utf8 bs) ^ "\t-\t-")

(* case: "<hex text> <code points, comma separated | -> <hex of GBK-decoded text, or ERR>"
   (third column = oracle value computed by the harness with golang.org/x/text directly).
   model = convert with that oracle; spec = text unchanged; class = guard of C13_utf8_identity violated. *)
let () = register "c13.convert" (fun line ->
  match split_ws line with
  | [h; c; o] ->
    let bs = bytes_of_hex h in
    let cps = if c = "-" then [] else List.map (fun x -> n_of_int (int_of_string x)) (String.split_on_char ',' c) in
    if utf8_of cps <> bs || not (List.for_all scalar cps) then "BAD-CASE" else
    let orc = if o = "ERR" then None else Some (bytes_of_hex o) in
    let m = convert (fun _ -> orc) bs in
    hex_of_bytes m ^ "\t" ^ hex_of_bytes bs ^ "\t" ^ (if List.exists is_two_byte cps then "two_byte" else "-")
  | _ -> "BAD-CASE")

(* ---------------------------------------------------------------- comment map / hover (Model/Comments.v, Model/Hover.v) *)
let res_s f = function Ok a -> f a | Fault _ -> "FAULT" | OutOfFuel -> "OUT-OF-FUEL"

(* which variant of the code the model follows: fix C13-long-comment-doc deployed (Model/Comments.v long_fix_deployed)
   unless C13_VARIANT=prefix asks for the behaviour before the fix (used to show that the check sees the fix reverted) *)
let fx = match Sys.getenv_opt "C13_VARIANT" with Some "prefix" -> false | _ -> long_fix_deployed

(* canonical comment map: entries by ascending key, `key:head:short:[line.col=hex,...]` joined by ';' *)
let cmap_s (es : (z * cinfo) list) : string =
  let keys = List.sort_uniq compare (List.map (fun (k, _) -> int_of_z k) es) in
  let one k =
    match cm_find (z_of_int k) es None with
    | None -> ""
    | Some ci ->
      Printf.sprintf "%d:%s:%s:[%s]" k (bool_s ci.ci_head) (bool_s ci.ci_short)
        (String.concat "," (List.map (fun c ->
             if ci.ci_short then Printf.sprintf "%s.%s=%s" (zs c.cl_line) (zs c.cl_col) (hex_of_bytes c.cl_str)
             else "long=" ^ hex_of_bytes c.cl_str) ci.ci_lines)) in
  if keys = [] then "-" else String.concat ";" (List.map one keys)

(* case: "<hex file bytes>". model = the map BeginAnalyze returns *)
let () = register "c13.cmap" (fun line ->
  let bs = bytes_of_hex (String.trim line) in
  oracle_used := false;
  let r = comment_writes_v fx gbk_oracle classify_tok bs in
  let m = res_s (function None -> "SKIP-TOOMANY" | Some es -> cmap_s es) r in
  (if !oracle_used then "SKIP-ORACLE" else m) ^ "\t-\t-")

(* case: "<hex comment text>": the two clean-up functions, `final=<hex> hover=<hex>` *)
let () = register "c13.cleanup" (fun line ->
  let bs = bytes_of_hex (String.trim line) in
  Printf.sprintf "final=%s hover=%s\t-\t-" (hex_of_bytes (final_comment bs)) (hex_of_bytes (get_str_comment bs)))

let skip_s = function
  | SkTooMany -> "SKIP-TOOMANY" | SkNoIdent -> "SKIP-NOIDENT" | SkNoDecl -> "SKIP-NODECL" | SkAmbiguous -> "SKIP-AMBIG"
  | SkValue -> "SKIP-VALUE" | SkFuncBody -> "SKIP-FUNCBODY" | SkAnnotation -> "SKIP-ANNOT" | SkFlagged -> "SKIP-FLAGGED" | SkBom -> "SKIP-BOM"

(* case: srv.script format (one file, steps open + hover...) followed by the oracle field `D:<hexin>=<hexout|ERR>;...`
   (GBK decodings, by golang.org/x/text directly, of the texts the generator announced in its `G:` items).
   A documentation text that fails the UTF-8 detector and is not in the table makes the case SKIP-ORACLE. *)
let in_class_docs = ref 0      (* documentation demands stated through the file-level spec (C13_DEBUG=1 prints the count) *)
let () = at_exit (fun () -> if Sys.getenv_opt "C13_DEBUG" <> None then Printf.eprintf "c13: file-level spec used for %d documentation texts\n" !in_class_docs)
let () = register "c13.hover" (fun line ->
  let c = parse_srv_case line in
  let table = List.concat_map (fun it ->
      if String.length it > 2 && String.sub it 0 2 = "D:" && it <> "D:-" then
        List.filter_map (fun kv -> match String.split_on_char '=' kv with
            | [k; v] -> Some (bytes_of_hex k, if v = "ERR" then None else Some (bytes_of_hex v))
            | _ -> None) (String.split_on_char ';' (String.sub it 2 (String.length it - 2)))
      else []) (split_ws line) in
  oracle_used := false;
  let two_byte = ref false in
  let gbk s = (two_byte := true;
               match List.assoc_opt s table with Some r -> r | None -> (oracle_used := true; None)) in
  let cls = ref [] in
  let addc c = if not (List.mem c !cls) then cls := c :: !cls in
  let show r = res_s (function HText t -> "hover=" ^ hex_of_bytes t | HSkip r -> skip_s r) r in
  let in_fragment = ref true in
  (* cross-file hover (seeded/C13-7): a hover step on a file other than file 0 stands on a USE of a global that file 0
     declares; the generator names the declaration's position in file 0 in an `H:<line>:<col>` item (one per such step,
     in step order).  Model/Hover.v resolves a name inside ONE file: the driver composes - the hover text of a use in
     another file = the hover text at the declaration in the DECLARING file (label, documentation = the declaring file's
     comment, the declaring file's name); the word under both positions must be the same (else BAD-CASE) *)
  let hints = ref (List.filter_map (fun it ->
      if String.length it > 2 && String.sub it 0 2 = "H:" then
        (match String.split_on_char ':' it with
         | [_; a; b] -> Some (int_of_string a, int_of_string b)
         | _ -> None)
      else None) (split_ws line)) in
  let word_at (bs : n list) l col =
    let text = string_of_bytes bs in
    match List.nth_opt (String.split_on_char '\n' text) l with
    | None -> None
    | Some ln ->
      let isw ch = (ch >= 'a' && ch <= 'z') || (ch >= 'A' && ch <= 'Z') || (ch >= '0' && ch <= '9') || ch = '_' in
      let n = String.length ln in
      let a = ref (min col n) in
      while !a > 0 && isw ln.[!a - 1] do decr a done;
      let b = ref (min col n) in
      while !b < n && isw ln.[!b] do incr b done;
      if !b > !a then Some (String.sub ln !a (!b - !a)) else None in
  let bad_case = ref false in
  let outs = List.filter_map (fun st -> match st with
      | StHover (i, l, col) ->
        let (i, l, col) =
          if i = 0 then (i, l, col) else
            (match !hints with
             | (l0, c0) :: rest ->
               hints := rest;
               let w = word_at (snd (List.nth c.files i)) l col and w0 = word_at (snd (List.nth c.files 0)) l0 c0 in
               if w = None || w <> w0 then bad_case := true;
               (0, l0, c0)
             | [] -> bad_case := true; (0, l, col)) in
        let (rel, bs) = List.nth c.files i in
        let file = bytes_of_string rel in
        let r = hover_v fx gbk_oracle classify_tok gbk file bs (z_of_int l) (z_of_int col) in
        (* the property's demand: the label, then the attached comment (trailing, else the block above) cleaned up
           line by line, bytes unchanged *)
        (* for a file of the class of C13_comment_attach_file the demand is read off the declarative table of the
           file's comment lines (spec_comment on file_table: trailing comment, else the maximal block of comment-only
           lines ending on the line above); for a file of the class of C13_comment_attach_long (gaps with long-bracket
           comments) off the blocks of the file computed from its bytes (spec_attach on file_blocks: a long-bracket
           comment is a block of its own and DOES count as documentation); otherwise off the recorded entries
           (spec_attach), stated only when all of them are `--` comments *)
        let tbl = if file_class gbk_oracle classify_tok bs then Some (file_table gbk_oracle bs) else None in
        let blocks = if tbl = None && file_class_long gbk_oracle classify_tok bs then Some (file_blocks gbk_oracle bs) else None in
        let strip_long es = List.map (fun (k, ci) -> if ci.ci_short then (k, ci) else (k, { ci with ci_lines = [] })) es in
        let specdoc =
            (fun es ln ->
               match tbl, blocks with
               | Some t, _ when pure_at t ln = None -> incr in_class_docs; get_str_comment (spec_comment t ln)
               | _, Some b ->
                 incr in_class_docs;
                 if spec_attach b ln <> spec_attach (strip_long b) ln then addc "long_doc";
                 get_str_comment (spec_attach b ln)
               | _ ->
                 if not (List.for_all (fun (_, ci) -> ci.ci_short) es && keys_nodup es) then in_fragment := false;
                 get_str_comment (spec_attach es ln)) in
        (* the demand: the hovered declaration's OWN comment; the server also shows, for a declaration without comment
           that is initialised from another name, the comment of that name (first non-empty along the chain) *)
        let sp = hover_with_v fx gbk_oracle classify_tok false specdoc file bs (z_of_int l) (z_of_int col) in
        let sp_inh = hover_with_v fx gbk_oracle classify_tok true specdoc file bs (z_of_int l) (z_of_int col) in
        if show sp <> show sp_inh then addc "inherited_doc";
        Some (show r, show sp)
      | _ -> None) c.steps in
  let souts = List.map snd outs and outs = List.map fst outs in
  if !two_byte then addc "two_byte";
  let skips = List.filter (fun o -> String.length o >= 4 && String.sub o 0 4 = "SKIP") outs in
  let m = if !bad_case then "BAD-CASE" else if !oracle_used then "SKIP-ORACLE" else match skips with s :: _ -> s | [] -> String.concat " | " outs in
  m ^ "\t" ^ (if !in_fragment then String.concat " | " souts else "-") ^ "\t" ^ (match !cls with [] -> "-" | l -> String.concat "," (List.sort compare l)))

let () = main ()
