(* C13 driver. Answer line: <model>\t<spec>\t<class> *)
let () = register "c13.isutf8" (fun line ->
  let bs = bytes_of_hex (String.trim line) in
  bool_s (is_utf8 bs) ^ "\t-\t-")

(* case: "<hex text> <code points, comma separated | -> <hex of GBK-decoded text, or ERR>"
   (third column = oracle value computed by the harness with golang.org/x/text directly).
   model = convert with that oracle; spec = text unchanged; class = guard of C13_utf8_identity violated. *)
let () = register "c13.convert" (fun line ->
  match split_ws line with
  | [h; c; o] ->
    let bs = bytes_of_hex h in
    let cps = if c = "-" then [] else List.map (fun x -> n_of_int (int_of_string x)) (String.split_on_char ',' c) in
    if utf8_of cps <> bs || not (List.for_all scalar cps) then "BAD-CASE" else
    let orc = if o = "ERR" then None else Some (bytes_of_hex o) in
    let m = convert (fun _ -> orc) bs in
    hex_of_bytes m ^ "\t" ^ hex_of_bytes bs ^ "\t" ^ (if List.exists is_two_byte cps then "two_byte" else "-")
  | _ -> "BAD-CASE")

let () = main ()
