(* C08 driver. case: "<mode><configuration letters> <init> <events>" (syntax: see harness/legs_c08.go; `o<f>` = action
   AOpen, `o<f>=<content>` = action AOpenWith: the document is opened with a text of its own).
   Configuration: n = the client sends no PluginPath (the deployed IsInDir does not depend on it: same instance toyA),
   f = two workspace folders (p q are workspace files: instance toyA_all).
   Answer line: <model>\t<spec>\t<classes>
     model = what the faithful model of the server predicts, step by step (same format as the implementation leg:
             per file the diagnostics as <type>@<line>#<tag>, tag = hash of columns and message text),
     spec  = the same line with every view the property constrains replaced by the demanded one when they differ
             (up to order); "-" for a non-conformant history (the property says nothing about it),
     classes = names of the finding classes (Spec/FreshStart.v) met by the history. *)
let c08_names = [| "a"; "b"; "c"; "d"; "p"; "q" |]
let c08_fid (c : char) : n =
  let rec go i = if i >= Array.length c08_names then failwith ("bad file letter " ^ String.make 1 c)
    else if c08_names.(i).[0] = c then n_of_int i else go (i + 1) in go 0

let c08_text (code : string) : stmt list =
  if code = "e" then [] else begin
    let n = String.length code in
    let rec go i acc =
      if i >= n then List.rev acc else
      match code.[i] with
      | 'l' -> go (i + 1) (SL :: acc)
      | 'c' -> go (i + 1) (SC :: acc)
      | 's' -> go (i + 1) (SS :: acc)
      | 'd' -> go (i + 2) (SD (n_of_int (Char.code code.[i+1] - 48)) :: acc)
      | 'u' -> go (i + 2) (SU (n_of_int (Char.code code.[i+1] - 48)) :: acc)
      | 'r' -> go (i + 2) (SR (c08_fid code.[i+1]) :: acc)
      | 'f' -> go (i + 2) (SF (n_of_int (Char.code code.[i+1] - 48)) :: acc)
      | 'g' -> go (i + 1) (SG :: acc)
      | 'k' -> go (i + 2) (SK (n_of_int (Char.code code.[i+1] - 48)) :: acc)
      | 't' -> go (i + 2) (ST (n_of_int (Char.code code.[i+1] - 48)) :: acc)
      | _ -> failwith ("bad content " ^ code) in
    go 0 []
  end

(* "<f>=<content>" or "<f>" *)
let c08_split_eq (s : string) : n * stmt list =
  let f = c08_fid s.[0] in
  if String.length s > 1 then begin
    if s.[1] <> '=' then failwith ("bad event " ^ s);
    (f, c08_text (String.sub s 2 (String.length s - 2)))
  end else (f, [])

let tx (t : stmt list) : text = Obj.magic t

let c08_action (ev : string) : action =
  let kind = ev.[0] and rest = String.sub ev 1 (String.length ev - 1) in
  let items raw = List.map (fun it ->
      let (f, t) = c08_split_eq (String.sub it 1 (String.length it - 1)) in (it.[0], f, t))
      (String.split_on_char '+' raw) in
  match kind with
  | 'o' when String.contains rest '=' -> let (f, t) = c08_split_eq rest in AOpenWith (f, tx t)
  | 'o' -> AOpen (fst (c08_split_eq rest))
  | 'c' -> let (f, t) = c08_split_eq rest in AChange (f, tx t)
  | 's' -> ASave (fst (c08_split_eq rest))
  | 'x' -> AClose (fst (c08_split_eq rest))
  | 'w' -> AWatched (List.map (fun (k, f, t) -> match k with
      | 'C' -> WC (f, tx t) | 'M' -> WM (f, tx t) | 'D' -> WD f | _ -> failwith "bad watched item") (items rest))
  | 'W' -> ARaw (EWatched (List.map (fun (k, f, _) -> (f, (match k with
      | 'C' -> KCreated | 'M' -> KChanged | 'D' -> KDeleted | _ -> failwith "bad watched item"))) (items rest)))
  | 'O' -> let (f, t) = c08_split_eq rest in ARaw (EOpen (f, tx t))
  | 'H' -> let (f, t) = c08_split_eq rest in ARaw (EChange (f, tx t))
  | 'S' -> let (f, t) = c08_split_eq rest in ARaw (ESave (f, tx t))
  | 'X' -> ARaw (EClose (fst (c08_split_eq rest)))
  | 'k' -> let (f, t) = c08_split_eq rest in ARaw (EDiskWrite (f, tx t))
  | 'K' -> ARaw (EDiskRemove (fst (c08_split_eq rest)))
  | _ -> failwith ("bad event " ^ ev)

(* the tag of the toy analysis (Proofs/EventsToy.v) rendered back to what the client is shown beyond type and start line:
   "<start col>,<end line>,<end col>:<message>", then hashed exactly as harness/c08_server.go c08Tag does (FNV-1a, 32 bit,
   base 36). The implementation leg hashes what the REAL server published, so every case compares columns and texts.
   C08_RAWTAG=1 (both sides) prints the string itself, spaces as "_". *)
let c08_gname (tag : int) : string = if tag = 100 then "gf" else "g" ^ string_of_int tag
let c08_raw_tag (t : int) (ln : int) (tag : int) : string =
  let mk sc ec msg = Printf.sprintf "%d,%d,%d:[Warn type:%d], %s" sc ln ec t msg in
  let ncols = if tag = 100 then (0, 2) else (6, 8) in
  match t with
  | 1 -> mk 0 1 "`)` can not start"
  | 2 -> mk (fst ncols) (snd ncols) ("var not define: " ^ c08_gname tag)
  | 3 -> mk (fst ncols) (snd ncols) ("crcular reference or load order error, var not define: " ^ c08_gname tag)
  | 4 -> mk 6 7 "v declared and not used"
  | 6 -> mk 0 12 ("require file error, not find file:" ^ c08_names.(tag))
  | 10 -> mk 0 11 (Printf.sprintf "gf call func param num(3) > func define param num(%d)" tag)
  | 18 when tag >= 20 -> mk 10 12 (Printf.sprintf "duplicate annotate type: T%d" (tag - 20))
  | 18 -> mk 9 11 (Printf.sprintf "not define annotate type: T%d" (tag - 10))
  | _ -> mk 0 0 (Printf.sprintf "?%d" tag)
let c08_base36 (h : int) : string =
  if h = 0 then "0" else begin
    let digits = "0123456789abcdefghijklmnopqrstuvwxyz" in
    let rec go h acc = if h = 0 then acc else go (h / 36) (String.make 1 digits.[h mod 36] ^ acc) in
    go h ""
  end
let c08_rawtag_env = (try Sys.getenv "C08_RAWTAG" <> "" with Not_found -> false)
let c08_tag (t : int) (ln : int) (tag : int) : string =
  let raw = c08_raw_tag t ln tag in
  if c08_rawtag_env then String.map (fun c -> if c = ' ' then '_' else c) raw else begin
    let h = ref 2166136261 in
    String.iter (fun c -> h := ((!h lxor Char.code c) * 16777619) land 0xFFFFFFFF) raw;
    c08_base36 !h
  end

let c08_view (l : (file * err list) list) : string =
  if l = [] then "-" else
  String.concat ";" (List.map (fun (f, es) ->
    c08_names.(int_of_n f) ^ ":" ^
    String.concat "," (List.map (fun ((t, ln), tag) ->
      let t = int_of_n t and ln = int_of_n ln in
      Printf.sprintf "%d@%d#%s" t ln (c08_tag t ln (int_of_n tag))) es)) l)

let c08_class_name (k : n) : string =
  match int_of_n k with
  | 1 -> "outside_file" | 2 -> "live_cleared" | 3 -> "unhidden" | 4 -> "close_revert"
  | 5 -> "watched_dirty" | 6 -> "deleted_require" | 7 -> "empty_shortcut" | 8 -> "open_text"
  | i -> "class" ^ string_of_int i

let c08_parse (line : string) =
  match split_ws line with
  | [m; init; evs] ->
    let md = (match m.[0] with 'A' -> MAll | 'E' -> MEnd | 'N' -> MNone | _ -> failwith "bad mode") in
    let cfg = String.sub m 1 (String.length m - 1) in
    String.iter (fun c -> if c <> 'n' && c <> 'f' then failwith "bad configuration") cfg;
    let ind = if String.contains cfg 'f' then toy_all_in else toy_in_dir in
    let dk = if init = "-" then [] else
        List.map (fun it -> let (f, t) = c08_split_eq it in (f, t)) (String.split_on_char ',' init) in
    let h = if evs = "-" then [] else List.map c08_action (String.split_on_char ';' evs) in
    (md, ind, dk, h)
  | _ -> failwith "BAD-CASE"

let c08_line (fx : fixes) (line : string) : string =
  let (md, ind, dk, h) = c08_parse line in
  let obs = toy_obs fx ind md (Obj.magic dk) h in
  let step_m ((v, fr), _) = c08_view v ^ (match fr with Some f -> "~" ^ c08_view f | None -> "") in
  let step_s ((_, fr), s) = c08_view s ^ (match fr with Some f -> "~" ^ c08_view f | None -> "") in
  let model = String.concat "|" (List.map step_m obs) in
  let conf = toy_conformant fx ind (Obj.magic dk) h in
  let spec = if conf then String.concat "|" (List.map step_s obs) else "-" in
  let ks = List.sort_uniq compare (List.map c08_class_name (toy_classes fx ind (Obj.magic dk) h)) in
  model ^ "\t" ^ spec ^ "\t" ^ (if ks = [] then "-" else String.concat "," ks)

(* `deployed` (Model/Events.v) = the repairs that are in /repo now (all nine: the last one is the changed-unknown repair,
   fixes/C08-changed-unknown.diff; `round4` = the code before it; `round3` = also without the didOpen repair) *)
let () = register "c08.history" (c08_line deployed)
let () = register "c08.raw" (c08_line deployed)
(* watched notifications naming several files *)
let () = register "c08.batch" (c08_line deployed)
(* switches between texts whose diagnostics differ in the message text only *)
let () = register "c08.tagonly" (c08_line deployed)
(* annotation types (check 18): deletion-only batches of the declaring file, duplicates *)
let () = register "c08.anntype" (c08_line deployed)
(* exploratory (not deciding): non-conformant histories with annotation statements *)
let () = register "c08.annraw" (c08_line deployed)
(* configurations of DirManager.IsInDir: no PluginPath option, two workspace folders *)
let () = register "c08.indir" (c08_line deployed)
(* documents opened with a text that is not the file's text (restored unsaved buffers) *)
let () = register "c08.opentext" (c08_line deployed)
(* one watched notification naming the same path several times (non-conformant for the spec: its column is "-"; the check
   compares every view with the fresh start's itself); samepathraw: those with a `Deleted X, Changed X` pair *)
let () = register "c08.samepath" (c08_line deployed)
let () = register "c08.samepathraw" (c08_line deployed)
(* the queries clause (harness/legs_c08.go c08.query: the real server after a history against a fresh real server): there is
   no Coq model of query answers. The first item of a case is the class predicate of the open finding stale_foreign_member,
   computed by checks/c08.py (stale_members): Q:1 = inside the class, answers not compared (observable "class");
   Q:0 = outside: the answers are the fresh server's (observable "=") *)
let () = register "c08.query" (fun line ->
  if String.length line >= 3 && String.sub line 0 3 = "Q:1" then "class\t=\tstale_foreign_member" else "=\t=\t-")
(* the same history against the model with all repairs switched on / with those of round 1 / round 2 / round 3 (= all but
   the didOpen repair) only / with none (round4 = all but the changed-unknown repair; not deciding legs; used by hand to validate a repair diff against a patched or an
   old copy of the code) *)
let () = register "c08.history_fixed" (c08_line all_fix)
let () = register "c08.history_round1" (c08_line round1)
let () = register "c08.history_round2" (c08_line round2)
let () = register "c08.history_round3" (c08_line round3)
let () = register "c08.history_round4" (c08_line round4)
let () = register "c08.history_unfixed" (c08_line no_fix)

let () = main ()
