(* C18 driver. Answer line: <model>\t<spec>\t<classes> *)

(* Which variant of the code the deciding model follows: one constant per repair, false = the code before it (kept in
   Coq with its refutation), true = the repaired code. All of them are true since the fixes are in /repo.
   fixed_remove   : work/fixes/C18-remove-key.diff (ec76861), theorem C18_index_refines_fixed
   fixed_order    : fixes/C09-deterministic-order.diff (2030ecc): score ties broken by the path, one answer
   fixed_stem     : fixes/C18-dotted-path.diff (1473636): names and paths are cut at the Lua suffix, not at the first '.'
                    (this one is the Coq constant FileIndex.stem_deployed, shared with the C09 driver)
   fixed_lit      : fixes/C18-dofile-no-suffix.diff (526bcd1): dofile / loadfile / suffix-style imports are literal
   fixed_dotslash : fixes/C18-dot-slash-definition.diff (49c8cf0): definition / hover drop a leading "./"
   fixed_reanalyse: fixes/C18-create-not-reanalysed.diff (f48e6f9): every create / delete event re-resolves every reference
   fixed_cursor   : fixes/C18-string-cursor.diff (9e1e7b2): definition / hover find the string under the cursor by the
                    position of the quoted literal (any quote kind, every pattern, byte column)
   (calcMatchStrScore's repair fixes/C18-score-position.diff (1f59be9) is the Coq constant ModulePath.score_deployed,
    shared with the C09 driver through calc_score) *)
let fixed_remove = true
let fixed_order = true
let fixed_stem = stem_deployed
let fixed_lit = true
let fixed_dotslash = true
let fixed_reanalyse = true
let fixed_cursor = true
let mk_cfg exact ign root =
  { exact_mode = exact; ignore_refer = ign; ignore_modules = system_modules; main_dir = root;
    order_fixed = fixed_order; stem_fixed = fixed_stem; lit_fixed = fixed_lit; dotslash_fixed = fixed_dotslash;
    reanalyse_fixed = fixed_reanalyse; cursor_fixed = fixed_cursor }
let split_list s = if s = "-" || s = "" then [] else String.split_on_char ',' s
let uniq l = List.sort_uniq compare l
let set_s l = "{" ^ String.concat "|" (uniq l) ^ "}"

(* ---------- c18.index ---------- *)
let dump_entries (es : (n list * n list) list) =
  String.concat "+" (uniq (List.map (fun (p, pre) -> hex_of_bytes p ^ ">" ^ hex_of_bytes pre) es))

(* an association list printed as the Go map it stands for: first binding of each key *)
let dump_amap (m : (n list * n list) list) =
  dump_entries (List.filter_map (fun (k, _) -> match aget k m with Some v -> Some (k, v) | None -> None) m)

let parse_op o =
  let p = bytes_of_hex (String.sub o 1 (String.length o - 1)) in
  if o.[0] = 'i' then Ins p else Rem p

let index_leg = (fun line ->
  match split_ws line with
  | [ps; os] ->
    let probes = List.map bytes_of_hex (split_list ps) in
    let ops = List.map parse_op (split_list os) in
    let universe = uniq (List.map (function Ins p -> p | Rem p -> p) ops) in
    let rec go st sfiles done_ops rest macc sacc stale =
      match rest with
      | [] -> (List.rev macc, List.rev sacc, stale)
      | o :: tl ->
        let st' = if fixed_remove then idx_step_fixed_g fixed_stem st o else idx_step_g fixed_stem st o in
        let s' = files_step sfiles o in
        let done' = done_ops @ [o] in
        let m = String.concat "|" (List.map (fun n ->
          "N[" ^ dump_amap (get_name_map st' n) ^ "]P[" ^ dump_amap (get_pre_map st' n) ^ "]") probes) in
        let sp = String.concat "|" (List.map (fun n ->
          let en = List.filter_map (fun f -> match spec_name fixed_stem s' n f with Some pre -> Some (f, pre) | None -> None) universe in
          let ep = List.filter_map (fun f -> match spec_pre fixed_stem s' n f with Some pre -> Some (f, pre) | None -> None) universe in
          "N[" ^ dump_entries en ^ "]P[" ^ dump_entries ep ^ "]") probes) in
        go st' s' done' tl (m :: macc) (sp :: sacc) (stale || stale_remove done')
    in
    let (m, s, stale) = go idx_empty [] [] ops [] [] false in
    let cls = (if stale then ["stale_remove"] else []) @ (if abs_ops ops then [] else ["relative_path"]) in
    String.concat ";" m ^ "\t" ^ String.concat ";" s ^ "\t" ^ (if cls = [] then "-" else String.concat "," cls)
  | _ -> "BAD-CASE")
let () = register "c18.index" index_leg
let () = register "c18.index_any" index_leg

(* ---------- c18.resolve ---------- *)
let slash_n = n_of_int 47

(* the operating system's view of a path (filefolder.IsFileExist = os.Stat + not a directory): an oracle *)
let normalise (p : string) : string option =
  let n = String.length p in
  if n = 0 || p.[n - 1] = '/' then None else begin
    let comps = String.split_on_char '/' p in
    let rec go acc = function
      | [] -> Some (List.rev acc)
      | "" :: r | "." :: r -> go acc r
      | ".." :: r -> (match acc with [] -> None | _ :: a -> go a r)
      | c :: r -> go (c :: acc) r in
    (* a trailing "." or ".." names a directory *)
    let last = List.nth comps (List.length comps - 1) in
    if last = "." || last = ".." then None else
    match go [] comps with None -> None | Some l -> Some ("/" ^ String.concat "/" l)
  end

let rel_s root p =
  let r = string_of_bytes root and s = string_of_bytes p in
  let lr = String.length r in
  if String.length s > lr && String.sub s 0 (lr + 1) = r ^ "/" then hex_of_bytes (bytes_of_string (String.sub s (lr + 1) (String.length s - lr - 1)))
  else "!" ^ hex_of_bytes p

let kind_of = function "r" -> KRequire | "g" -> KFrameNoSuffix | _ -> KSuffix

type tree = { root : n list; indexed : n list list; diskl : string list }

let parse_tree rooth files =
  let root = bytes_of_hex rooth in
  let items = split_list files in
  let abs it = root @ (slash_n :: bytes_of_hex (String.sub it 1 (String.length it - 1))) in
  let indexed = List.filter_map (fun it -> if it.[0] = 'L' || it.[0] = 'X' then Some (abs it) else None) items in
  let diskl = List.filter_map (fun it -> if it.[0] = 'L' || it.[0] = 'D' then Some (string_of_bytes (abs it)) else None) items in
  { root; indexed; diskl }

let disk_of t = fun (p : n list) ->
  match normalise (string_of_bytes p) with None -> false | Some q -> List.mem q t.diskl

let out_s root (o : routcome) tag =
  Printf.sprintf "valid=%s err6=%s res=%s%s" (bool_s o.r_valid) (bool_s o.r_err6) tag (set_s (List.map (rel_s root) o.r_resolved))

let () = register "c18.resolve" (fun line ->
  match split_ws line with
  | [rooth; exact; kind; curh; referh; files; ign] ->
    let t = parse_tree rooth files in
    let cfg = mk_cfg (exact = "1") (List.map bytes_of_hex (split_list ign)) t.root in
    let st = idx_run_g fixed_stem (List.map (fun p -> Ins p) t.indexed) in
    let cur = t.root @ (slash_n :: bytes_of_hex curh) in
    let refer = bytes_of_hex referh in
    let k = kind_of kind in
    let disk = disk_of t in
    let m = check_refer disk cfg st cur k refer in
    let s = spec_refer disk cfg t.indexed k refer in
    let ml = out_s t.root m "" in
    (* the documented mapping speaks of name.lua / name/init.lua only: a workspace with another (associated) file type
       is outside its domain for require-style references (guard all_lua of C18_resolve_conforms): no demand there *)
    let outside = fixed_stem && (not cfg.exact_mode) && k <> KSuffix && non_lua t.indexed in
    let sl = if conforms m s || outside then ml else out_s t.root s "doc" in
    let cls = (if (not fixed_stem) && (not cfg.exact_mode) && k <> KSuffix && odd_name t.indexed then ["odd_name"] else [])
            @ (if outside then ["non_lua_file"] else [])
            @ (if (not fixed_lit) && (not cfg.exact_mode) && literal_no_dot k refer then ["literal_no_dot"] else []) in
    ml ^ "\t" ^ sl ^ "\t" ^ (if cls = [] then "-" else String.concat "," cls)
  | _ -> "BAD-CASE")

(* ---------- c18.openlist ---------- *)
let () = register "c18.openlist" (fun line ->
  match split_ws line with
  | [call; sh] ->
    let s = bytes_of_hex sh in
    let l = open_list (mk_cfg false [] []) (call = "r") (call = "d") s in
    "[" ^ String.concat "," (List.map hex_of_bytes l) ^ "]\t-\t-"
  | _ -> "BAD-CASE")

(* ---------- c18.cursor ---------- *)
(* case: "<pre> <line> <post> <col> <ch> <refers> new:<groups> old:<groups>" (the last two from the oracle c18.cursor_rx) *)
let parse_groups (tok : string) : (ipat * occ list) list =
  let body = String.sub tok 4 (String.length tok - 4) in
  List.map (fun g ->
    let tag = g.[0] and rest = String.sub g 2 (String.length g - 2) in
    let p = (match tag with 'D' -> PDofile | 'R' -> PRequire | 'L' -> PImportLua | _ -> PImport) in
    let occs = if rest = "-" then [] else List.map (fun o ->
      match List.map int_of_string (String.split_on_char '.' o) with
      | [a; b; c; d] -> { oc_start = nat_of_int a; oc_stop = nat_of_int b; oc_qs = nat_of_int c; oc_qe = nat_of_int d }
      | _ -> failwith "occ") (String.split_on_char '+' rest) in
    (p, occs)) (String.split_on_char '|' body)

let () = register "c18.cursor" (fun line ->
  match split_ws line with
  | [_; lh; _; col; ch; _; gnew; gold] ->
    let ln = if lh = "-" then [] else bytes_of_hex lh in
    let col = nat_of_int (int_of_string col) and ch = nat_of_int (int_of_string ch) in
    let gn = parse_groups gnew and go = parse_groups gold in
    let cfg = mk_cfg false [] [] in
    let lst l = "[" ^ String.concat "," (List.map hex_of_bytes l) ^ "]" in
    let m = cursor_list cfg ln col ch (if fixed_cursor then gn else go) in
    (* the demand: the literal of the matched import expression that holds the cursor, by position *)
    let sp = cursor_list { cfg with cursor_fixed = true } ln col ch gn in
    let cls = (if m <> sp then ["cursor_text_search"] else []) in
    lst m ^ "\t" ^ lst sp ^ "\t" ^ (if cls = [] then "-" else String.concat "," cls)
  | _ -> "BAD-CASE")

(* ---------- c18.project ---------- *)
(* case: "<root> <files> <cur rel> <refs> <events>" *)
let () = register "c18.project" (fun line ->
  match split_ws line with
  | [rooth; files; curh; refs; evs] ->
    let t = parse_tree rooth files in
    let cur = t.root @ (slash_n :: bytes_of_hex curh) in
    let cfg = mk_cfg false [] t.root in
    (* r: require("s")  q: require 's'  d: dofile("s")  D: dofile('s') - the same reference for the analysis *)
    let refl = List.map (fun r -> ((if r.[0] = 'd' || r.[0] = 'D' then KSuffix else KRequire), bytes_of_hex (String.sub r 1 (String.length r - 1)))) (split_list refs) in
    let disk0 = List.map bytes_of_string t.diskl @ [cur] in
    let lua0 = t.indexed @ [cur] in
    let events = List.map (fun e ->
      let p = t.root @ (slash_n :: bytes_of_hex (String.sub e 1 (String.length e - 1))) in
      if e.[0] = 'c' then Ins p else Rem p) (split_list evs) in
    (* premises of C18_features_agree / C18_features_agree_ties for reference (k, str) over the Lua files `lua` and the disk `disk` *)
    let fa_guard lua disk (k, str) =
      k = KRequire && str <> [] && remove_pre_str str <> [] && not (mem_bytes (remove_pre_str str) system_modules)
      && (if fixed_stem then all_lua lua else not (odd_name lua))
      && not (List.mem (complete_path t.root (doc_so (remove_pre_str str))) disk)
      (* C18_features_agree (at most one match per documented candidate) or C18_features_agree_ties (any number of
         equally named modules, the repaired deterministic choice, the name not inside the text "lua") *)
      && ((List.length (uniq (List.filter (path_suffix (doc_lua (remove_pre_str str))) lua)) <= 1
           && List.length (uniq (List.filter (path_suffix (doc_init (remove_pre_str str))) lua)) <= 1)
          || (fixed_order && fixed_dotslash && fixed_stem && not (lua_overlap (mod_path (remove_pre_str str))))) in
    let observe ?(force_agree = false) (s : pstate) =
      String.concat "," (List.map2 (fun (r : ref_state) (k, str) ->
        let loaded = uniq (List.map (rel_s t.root) (if r.rs_valid then r.rs_vstr else [])) in
        let loaded = if loaded = [] then ["-"] else loaded in
        let items = open_list cfg (k = KRequire) (k = KSuffix) str in
        let oo = open_outcomes cfg s.ps_idx (fun f -> mem_bytes f s.ps_loaded) cur items in
        let defs = uniq (List.map (function Some (_, f) -> rel_s t.root f | None -> "-") oo) in
        let hovs = uniq (List.map (function Some (it, _) -> hex_of_bytes it | None -> "-") oo) in
        let agree = if List.length loaded <= 1 && List.length defs <= 1 then (if loaded = defs then "{1}" else "{0}") else "{0|1}" in
        let agree = if force_agree && fa_guard s.ps_loaded s.ps_disk (k, str) then "{1}" else agree in
        bool_s r.rs_err ^ ":" ^ bool_s r.rs_valid ^ ":" ^ set_s loaded ^ ":"
        ^ set_s defs ^ ":" ^ set_s hovs ^ ":" ^ agree)
        s.ps_refs refl) in
    let rec go s disk lua evl macc sacc stale skipped =
      let m = if s.ps_ambig then "AMBIG" else observe s in
      let fresh = pinit cfg cur disk lua refl in
      let sp = observe ~force_agree:true fresh in
      match evl with
      | [] -> (List.rev (m :: macc), List.rev (sp :: sacc), stale, skipped)
      | e :: tl ->
        let s' = pstep cfg cur fixed_remove s e in
        let (disk', lua', stale') = (match e with
          | Ins p -> ((if List.mem p disk then disk else disk @ [p]), (if List.mem p lua then lua else lua @ [p]), stale)
          | Rem p -> (List.filter (fun g -> g <> p) disk, List.filter (fun g -> g <> p) lua, stale || List.mem p lua)) in
        (* a Created event after which cur was not re-analysed although a fresh start answers differently *)
        let skipped' = skipped || (not fixed_reanalyse) && (match e with
          | Ins p -> not (List.exists (fun (r : ref_state) -> r.rs_err) s.ps_refs)
                     && any_touch p s.ps_refs = Some false
                     && observe s' <> observe (pinit cfg cur disk' lua' refl)
          | Rem _ -> false) in
        go s' disk' lua' tl (m :: macc) (sp :: sacc) stale' skipped' in
    let s0 = pinit cfg cur disk0 lua0 refl in
    let (m, sp, stale, skipped) = go s0 disk0 lua0 events [] [] false false in
    let ambig = List.mem "AMBIG" m in
    let dotslash = (not fixed_dotslash) && List.exists (fun (k, str) -> k = KRequire && remove_pre_str str <> str) refl in
    let cls = (if stale then ["stale_remove"] else []) @ (if skipped then ["skipped_create"] else [])
            @ (if dotslash then ["dot_slash_prefix"] else [])
            @ (if ambig then ["tie_ambiguous"] else [])
            @ (if (not fixed_stem) && odd_name lua0 then ["odd_name"] else []) @ (if fixed_stem && non_lua lua0 then ["non_lua_file"] else []) in
    String.concat ";" m ^ "\t" ^ String.concat ";" sp ^ "\t" ^ (if cls = [] then "-" else String.concat "," cls)
  | _ -> "BAD-CASE")

let () = main ()
