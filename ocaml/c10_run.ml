(* C10 driver. Answer line: <model>\t<spec>\t<classes>
   The model is Dispatch.v extracted, applied to the handler table the translator regenerated (GenHandlers.v). *)

let char_of_ascii (Ascii (b0, b1, b2, b3, b4, b5, b6, b7)) =
  let v b k = if b then 1 lsl k else 0 in
  Char.chr (v b0 0 + v b1 1 + v b2 2 + v b3 3 + v b4 4 + v b5 5 + v b6 6 + v b7 7)
let str (l : name) : string = String.concat "" (List.map (fun a -> String.make 1 (char_of_ascii a)) l)

let hs = handlers
let bgs = background
let nh = List.length hs

let index_of (meth : string) : int option =
  let rec go i = function [] -> None | h :: t -> if str h.hname = meth then Some i else go (i + 1) t in
  go 0 hs
let handler_at i = List.nth hs i
let bg_at i = List.nth bgs i
let kind_s = function Request -> "Request" | Notification -> "Notification" | Background -> "Background"
let body_h i = body_of hs bgs false (nat_of_int i)
let body_b i = body_of hs bgs true (nat_of_int i)

let sort_uniq l = List.sort_uniq compare l
let pair_name a b = if a <= b then a ^ "+" ^ b else b ^ "+" ^ a

(* the unlocked accesses of b1 that conflict with some access of b2 *)
let blames b1 b2 = List.exists (fun a -> List.exists (fun b -> conflict a b) (all_accs b2)) (unlocked_accs b1)

(* handlers that run in every schedule of the race legs (set-up, fence) *)
let setup_methods = ["initialize"; "initialized"; "textDocument/didOpen"; "luahelper/getOnlineReq"]
(* extra messages the harness sends (sequentially, fenced) to prepare a message *)
let extra_of = function
  | "textDocument/didSave" -> ["textDocument/didChange"]
  | "textDocument/didOpen" -> ["textDocument/didClose"]
  | "textDocument/didClose" -> ["textDocument/didOpen"]
  | _ -> []

let schedule_methods first second warm =
  sort_uniq (setup_methods @ [first; second] @ extra_of first @ extra_of second
             @ (if warm then ["textDocument/completion"] else []))

(* background goroutines alive in a schedule *)
let bgs_of meths =
  sort_uniq (List.concat (List.map (fun m ->
    match index_of m with
    | Some i -> List.map int_of_nat (spawned_by hs bgs (nat_of_int i))
    | None -> []) meths))

(* case: <first> <second> <reps> <seed> <filler> <warm>
   model: NORACE | MAYRACE A+B   (A, B = Go handler methods)   - pairs of HANDLERS only
   spec : NORACE
   class: LSP methods of the handlers whose unlocked accesses make the race possible *)
let () = register "c10.race" (fun line ->
  match split_ws line with
  | first :: second :: _ ->
    (match index_of first, index_of second with
     | Some i, Some j ->
       let m1 = msg_of hs (nat_of_int i) and m2 = msg_of hs (nat_of_int j) in
       if pair_may_race hs bgs m1 m2 then begin
         let b1 = body_h i and b2 = body_h j in
         let cls = (if blames b1 b2 then [first] else []) @ (if blames b2 b1 then [second] else []) in
         "MAYRACE " ^ pair_name (str (handler_at i).hfunc) (str (handler_at j).hfunc) ^ "\tNORACE\t"
         ^ String.concat "," (sort_uniq cls)
       end else "NORACE\tNORACE\t-"
     | _ -> "BAD-CASE\t-\t-")
  | _ -> "BAD-CASE\t-\t-")

(* same case format; observable restricted to pairs with a background goroutine (telemetry) on one side *)
let () = register "c10.telemetry" (fun line ->
  match split_ws line with
  | first :: second :: _ :: _ :: _ :: warm :: _ ->
    let meths = schedule_methods first second (warm = "1") in
    let alive = bgs_of meths in
    let pairs = List.concat (List.map (fun b ->
      List.concat (List.map (fun m ->
        match index_of m with
        | Some i when bg_may_race hs bgs (nat_of_int b) (nat_of_int i) ->
          [pair_name (str (bg_at b).hfunc) (str (handler_at i).hfunc)]
        | _ -> []) meths)) alive) in
    (* two background goroutines (also two instances of the same one, after a second initialize) *)
    let bb = List.concat (List.map (fun b1 -> List.concat (List.map (fun b2 ->
      if may_race (body_b b1) (body_b b2) then [pair_name (str (bg_at b1).hfunc) (str (bg_at b2).hfunc)] else []) alive)) alive) in
    let pairs = sort_uniq (pairs @ bb) in
    if pairs = [] then "NORACE\tNORACE\t-"
    else "MAYRACE " ^ String.concat "," pairs ^ "\tNORACE\t"
         ^ String.concat "," (sort_uniq (List.filter (fun n -> List.exists (fun p ->
              let f = str (List.find (fun b -> str b.hname = n) bgs).hfunc in
              let lp = String.length p and lf = String.length f in
              (lp >= lf && (String.sub p 0 lf = f || String.sub p (lp - lf) lf = f))) pairs)
              (List.map (fun b -> str (bg_at b).hname) alive)))
  | _ -> "BAD-CASE\t-\t-")

(* case: <query> <mutator> <variant> <reps> <seed>
   model: IN (the query answer under overlap is the answer of one of the two sequential orders: theorem
          C10_serialisable applies - both handlers have the simple shape) | MAYDIFFER
   spec : IN *)
let () = register "c10.serial" (fun line ->
  match split_ws line with
  | q :: m :: _ ->
    (match index_of q, index_of m with
     | Some i, Some j ->
       let bq = body_h i and bm = body_h j in
       if simple_body bq && simple_body bm then "IN\tIN\t-"
       else "MAYDIFFER\tIN\t" ^ String.concat "," (sort_uniq ((if simple_body bq then [] else [q]) @ (if simple_body bm then [] else [m])))
     | _ -> "BAD-CASE\t-\t-")
  | _ -> "BAD-CASE\t-\t-")

(* the table as the model sees it, for the Python side and the evidence (case = anything):
   name|func|kind|locked|simple|takes_lock ; ... # bgname|func ; ... # concurrency *)
let () = register "c10.table" (fun _ ->
  let one h = String.concat "|" [str h.hname; str h.hfunc; kind_s h.hkind; bool_s (locked h); bool_s (simple_body h.hbody);
                                 bool_s (takes_lock h.hbody)] in
  String.concat ";" (List.map one hs) ^ "#" ^ String.concat ";" (List.map (fun b -> str b.hname ^ "|" ^ str b.hfunc) bgs)
  ^ "#" ^ string_of_int (int_of_nat concurrency) ^ "\t-\t-")

(* the machine-checked witness run of an unlocked handler (evidence only): case = LSP method *)
let label_s = function
  | LDispatch -> "D" | LStart i -> "S" ^ string_of_int (int_of_nat i)
  | LStep i -> "s" ^ string_of_int (int_of_nat i) | LFinish i -> "F" ^ string_of_int (int_of_nat i)
let () = register "c10.witness" (fun line ->
  match index_of (String.trim line) with
  | Some i ->
    (match refute hs bgs concurrency (nat_of_int i) with
     | Some (msgs, ls) ->
       let ok = witness_check hs bgs concurrency (nat_of_int i) (msgs, ls) in
       String.concat "," (List.map (fun m -> str (handler_at (int_of_nat m.m_h)).hname ^ (if m.m_notif then "!" else "?")) msgs)
       ^ " " ^ String.concat "" (List.map label_s ls) ^ " " ^ bool_s ok ^ "\t-\t-"
     | None -> "NONE\t-\t-")
  | None -> "BAD-CASE\t-\t-")

let () = main ()
