(* include: lua_ser.inc.ml lua_legs.inc.ml *)
(* C03 driver: Lua front end (lexer + parser model). Answer line: <model>\t<spec>\t<class> *)

let () = register "c03.parse" (fun line ->
  let bs = bytes_of_hex (List.hd (split_ws line)) in
  parse_model bs ^ "\t-\t-")

let () = register "c03.lex" (fun line ->
  let bs = bytes_of_hex (List.hd (split_ws line)) in
  fst (lex_model bs) ^ "\t-\t-")

let () = main ()
