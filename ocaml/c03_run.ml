(* include: lua_ser.inc.ml *)
(* C03 driver: Lua front end (lexer + parser model). Answer line: <model>\t<spec>\t<class> *)

(* TEMPORARY numeral classifier until Model/Number.v is folded in *)
let tmp_classify (s : n list) : numcls =
  let str = String.lowercase_ascii (string_of_bytes s) in
  let is_digits x = x <> "" && String.for_all (fun c -> c >= '0' && c <= '9') x in
  if is_digits str then (try NInt (z_of_int (int_of_string str)) with _ -> NFloat)
  else match float_of_string_opt str with Some _ when not (String.contains str '_') -> NFloat | _ -> NBad

let parse_model (bs : n list) : string =
  oracle_used := false;
  let r = parse_bytes gbk_oracle classify_tok bs in
  if !oracle_used then "SKIP-ORACLE" else
  match r with
  | OutOfFuel -> "MODEL-OUT-OF-FUEL"
  | Fault _ -> "MODEL-FAULT"
  | Ok PRTooMany -> "TOOMANY"
  | Ok (PR (blk, le, pe)) ->
    let b = Buffer.create 1024 in
    let lex = List.sort compare (List.map lexerr_s le) in
    Buffer.add_string b ("OK L:" ^ String.concat "," lex ^ " P:" ^ String.concat "," (List.map perr_s pe) ^ " AST:");
    block_s (le = []) b blk;
    Buffer.contents b

let () = register "c03.parse" (fun line ->
  let bs = bytes_of_hex (List.hd (split_ws line)) in
  parse_model bs ^ "\t-\t-")

let () = register "c03.lex" (fun line ->
  let bs = bytes_of_hex (List.hd (split_ws line)) in
  oracle_used := false;
  match lex_all gbk_oracle bs with
  | OutOfFuel -> "MODEL-OUT-OF-FUEL\t-\t-"
  | Fault _ -> "MODEL-FAULT\t-\t-"
  | Ok lts ->
    if !oracle_used then "SKIP-ORACLE\t-\t-" else
    let errs = List.concat_map (fun (t : ltok) -> t.lerrs) lts in
    let lex = List.sort compare (List.map lexerr_s errs) in
    let wl = (errs = []) in
    let b = Buffer.create 1024 in
    Buffer.add_string b ("L:" ^ String.concat "," lex ^ " T:");
    let prev = ref zero_tok in
    List.iter (fun (t : ltok) ->
      let l = tok_loc !prev t.lt in
      Buffer.add_string b (Printf.sprintf " %s:%s%s" (kind_s t.lt.tk) (hex_of_bytes t.lt.tstr) (loc_s wl l));
      prev := t.lt) lts;
    Buffer.contents b ^ "\t-\t-")

let () = main ()
