(* include: lua_ser.inc.ml lua_legs.inc.ml *)
(* C03 driver: Lua front end (lexer + parser model). Answer line: <model>\t<spec>\t<class> *)

let () = register "c03.parse" (fun line ->
  let bs = bytes_of_hex (List.hd (split_ws line)) in
  parse_model bs ^ "\t-\t-")

let () = register "c03.lex" (fun line ->
  let bs = bytes_of_hex (List.hd (split_ws line)) in
  fst (lex_model bs) ^ "\t-\t-")

(* string literals made of escape sequences (valid and invalid forms of every kind): same observable as c03.lex; the
   spec column is computed by the check (independent reading of the manual's escape rules) *)
let () = register "c03.escape" (fun line ->
  let bs = bytes_of_hex (List.hd (split_ws line)) in
  fst (lex_model bs) ^ "\t-\t-")

let () = main ()
