(* C09 driver. Answer line: <model>\t<spec>\t<classes>
   The model is the REPAIRED code (fixes/C09-deterministic-order.diff): `fx` below selects the variant of merge_ws /
   best_match; fx = false is the code before the repair (kept in Coq with its refutations). *)
let fx = true

let split_list s = if s = "-" || s = "" then [] else String.split_on_char ',' s
let uniq l = List.sort_uniq compare l
let set_s l = "{" ^ String.concat "|" (uniq l) ^ "}"

let parse_items s : (n list * gvar) list =
  List.map (fun it ->
    match String.split_on_char ':' it with
    | [nm; fl; a; b; c] ->
      (bytes_of_hex nm, { gv_file = bytes_of_hex fl; gv_funclv = n_of_int (int_of_string a);
                          gv_scopelv = n_of_int (int_of_string b); gv_line = n_of_int (int_of_string c) })
    | _ -> failwith "bad item") (split_list s)

let var_s (v : gvar) = hex_of_bytes v.gv_file ^ "@" ^ string_of_int (int_of_n v.gv_line)

(* the two-level Go map the items stand for: keys in order of first appearance, one file's globals in the order
   given (the generator emits every (file, name) once: map_shaped is checked) *)
let files_of items =
  List.rev (List.fold_left (fun acc (_, v) -> if List.mem v.gv_file acc then acc else v.gv_file :: acc) [] items)
let globals_of items k = List.filter (fun (_, v) -> v.gv_file = k) items

(* the winner the property can demand independently of the model: the least owner (it wins in every order,
   C09_merge_perm_least / C09_merge_fixed_least); "?" when the definitions do not determine one *)
let spec_winner q items =
  match vars_of q items with
  | [] -> "-"
  | l -> (match least_of l with Some x -> var_s x | None -> "?")

(* the loop body of generateAllGlobalMaps replayed in the order given (the primitives are the same before and after
   the repair): correspondence of JudgeShouldInsertGlobalInfo / InsertThirdGlobalGMaps / FindThirdGlobalGInfo with
   `merge`; spec: a least owner wins whatever the order, otherwise no demand on an order the repaired code never takes *)
let () = register "c09.merge" (fun line ->
  match split_ws line with
  | [qs; its] ->
    let qh = split_list qs in
    let items = parse_items its in
    let t = merge items in
    let ans q = match winner t (bytes_of_hex q) with Some v -> var_s v | None -> "-" in
    let m = String.concat ";" (List.map (fun q -> q ^ "=" ^ ans q) qh) in
    let s = String.concat ";" (List.map (fun q ->
      let w = spec_winner (bytes_of_hex q) items in q ^ "=" ^ (if w = "?" then ans q else w)) qh) in
    m ^ "\t" ^ s ^ "\t-"
  | _ -> "BAD-CASE")

(* the real generateAllGlobalMaps, repeated over freshly built Go maps: the repaired code visits the files in sorted
   order, so the set of winners seen must be the SINGLETON the model computes (C09_merge_perm_full); before the repair
   it was any element of minimal_set *)
let () = register "c09.genmaps" (fun line ->
  match split_ws line with
  | [qs; its] ->
    let qh = split_list qs in
    let items = parse_items its in
    let files = files_of items in
    let g = globals_of items in
    if not (map_shaped g files) then "BAD-CASE not map shaped" else
    let t = merge_ws fx g files in
    let ans q =
      if fx then (match winner t (bytes_of_hex q) with Some v -> "{" ^ var_s v ^ "}" | None -> "{}")
      else set_s (List.map var_s (minimal_set (vars_of (bytes_of_hex q) items))) in
    let m = String.concat ";" (List.map (fun q -> q ^ "=" ^ ans q) qh) in
    let s = String.concat ";" (List.map (fun q ->
      let w = spec_winner (bytes_of_hex q) items in
      q ^ "=" ^ (if w = "-" then "{}" else if w = "?" then (if fx then ans q else "?") else "{" ^ w ^ "}")) qh) in
    m ^ "\t" ^ s ^ "\t-"
  | _ -> "BAD-CASE")

(* GetBestMatchReferFile over freshly built maps: a singleton after the repair (C09_best_match_perm_full) *)
let () = register "c09.bestmatch" (fun line ->
  match split_ws line with
  | [curh; referh; fs] ->
    let cur = bytes_of_hex curh and refer = bytes_of_hex referh in
    let files = List.map bytes_of_hex (split_list fs) in
    let st = idx_run (List.map (fun p -> Ins p) files) in
    let bs = best_set_fx fx cur refer st in
    let m = "best=" ^ set_s (List.map hex_of_bytes bs) in
    let nb = List.length (uniq bs) in
    let s = if nb <= 1 then m else "best=?" in
    (* tie = several best-scored candidates: the path decides (evidence only, not a finding any more) *)
    let tied = List.length (uniq (best_set cur refer st)) > 1 in
    m ^ "\t" ^ s ^ "\t" ^ (if nb > 1 then "tie" else if tied then "tie_by_path" else "-")
  | _ -> "BAD-CASE")

(* case: "<root> <nruns> <files> <items>": whole analyses of a real directory, repeated: after the repair every
   workspace is stable, the tie workspaces included *)
let () = register "c09.project" (fun line ->
  match split_ws line with
  | [_; _; _; its] ->
    let items = parse_items its in
    let names = uniq (List.map fst items) in
    let tie = List.exists (fun q -> no_least q items) names in
    if fx then "{STABLE}\t{STABLE}\t" ^ (if tie then "tie_ws" else "-")
    else (if tie then "{STABLE|UNSTABLE}" else "{STABLE}") ^ "\t{STABLE}\t" ^ (if tie then "no_least_ws" else "-")
  | _ -> "BAD-CASE")

(* case: "<nreps> <features> <scripted session>": the real server, one fresh process per run. The only declared
   feature so far: dupclass = the same ---@class / ---@alias name is defined in several files with different content;
   rebuidCreateTypeMap (check_all.go) merges the per-file lists while ranging over fileStructMap and the consumers
   take the first element, so hover / definition of a field vary between fresh starts (finding C09-class-order, open;
   fixes/C09-class-order.diff sorts the files there: set fixed_class_order when it is committed) *)
let fixed_class_order = true
(* second declared feature: manysyms = a workspace/symbol query with more than 200 matches (the result is cut at
   maxSymbols after a sort on the score alone: finding C09-symbol-cut, open; fixes/C09-symbol-order.diff) *)
let fixed_symbol_order = true
(* third declared feature: manyrefs = a references query with more hits than ReferenceMaxNum (the list is cut in the
   completion order of the worker goroutines: finding C09-references-cut, open; fixes/C09-references-cut.diff) *)
let fixed_references_cut = true
let () = register "c09.srvrep" (fun line ->
  match split_ws line with
  | _ :: feats :: _ ->
    let fl = split_list feats in
    let cls = (if List.mem "dupclass" fl && not fixed_class_order then ["dup_class"] else [])
            @ (if List.mem "manysyms" fl && not fixed_symbol_order then ["many_symbols"] else [])
            @ (if List.mem "manyrefs" fl && not fixed_references_cut then ["many_references"] else []) in
    if cls <> [] then "{STABLE|UNSTABLE}\t{STABLE}\t" ^ String.concat "," cls
    else "{STABLE}\t{STABLE}\t-"
  | _ -> "BAD-CASE")

let () = main ()
