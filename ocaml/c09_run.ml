(* C09 driver. Answer line: <model>\t<spec>\t<classes>
   The model is the REPAIRED code (fixes/C09-deterministic-order.diff): `fx` below selects the variant of merge_ws /
   best_match; fx = false is the code before the repair (kept in Coq with its refutations). *)
let fx = true

let split_list s = if s = "-" || s = "" then [] else String.split_on_char ',' s
let uniq l = List.sort_uniq compare l
let set_s l = "{" ^ String.concat "|" (uniq l) ^ "}"

let parse_items s : (n list * gvar) list =
  List.map (fun it ->
    match String.split_on_char ':' it with
    | [nm; fl; a; b; c] ->
      (bytes_of_hex nm, { gv_file = bytes_of_hex fl; gv_funclv = n_of_int (int_of_string a);
                          gv_scopelv = n_of_int (int_of_string b); gv_line = n_of_int (int_of_string c) })
    | _ -> failwith "bad item") (split_list s)

let var_s (v : gvar) = hex_of_bytes v.gv_file ^ "@" ^ string_of_int (int_of_n v.gv_line)

(* the two-level Go map the items stand for: keys in order of first appearance, one file's globals in the order
   given (the generator emits every (file, name) once: map_shaped is checked) *)
let files_of items =
  List.rev (List.fold_left (fun acc (_, v) -> if List.mem v.gv_file acc then acc else v.gv_file :: acc) [] items)
let globals_of items k = List.filter (fun (_, v) -> v.gv_file = k) items

(* the winner the property can demand independently of the model: the least owner (it wins in every order,
   C09_merge_perm_least / C09_merge_fixed_least); "?" when the definitions do not determine one *)
let spec_winner q items =
  match vars_of q items with
  | [] -> "-"
  | l -> (match least_of l with Some x -> var_s x | None -> "?")

(* the loop body of generateAllGlobalMaps replayed in the order given (the primitives are the same before and after
   the repair): correspondence of JudgeShouldInsertGlobalInfo / InsertThirdGlobalGMaps / FindThirdGlobalGInfo with
   `merge`; spec: a least owner wins whatever the order, otherwise no demand on an order the repaired code never takes *)
let () = register "c09.merge" (fun line ->
  match split_ws line with
  | [qs; its] ->
    let qh = split_list qs in
    let items = parse_items its in
    let t = merge items in
    let ans q = match winner t (bytes_of_hex q) with Some v -> var_s v | None -> "-" in
    let m = String.concat ";" (List.map (fun q -> q ^ "=" ^ ans q) qh) in
    let s = String.concat ";" (List.map (fun q ->
      let w = spec_winner (bytes_of_hex q) items in q ^ "=" ^ (if w = "?" then ans q else w)) qh) in
    m ^ "\t" ^ s ^ "\t-"
  | _ -> "BAD-CASE")

(* the real generateAllGlobalMaps, repeated over freshly built Go maps: the repaired code visits the files in sorted
   order, so the set of winners seen must be the SINGLETON the model computes (C09_merge_perm_full); before the repair
   it was any element of minimal_set *)
let () = register "c09.genmaps" (fun line ->
  match split_ws line with
  | [qs; its] ->
    let qh = split_list qs in
    let items = parse_items its in
    let files = files_of items in
    let g = globals_of items in
    if not (map_shaped g files) then "BAD-CASE not map shaped" else
    let t = merge_ws fx g files in
    let ans q =
      if fx then (match winner t (bytes_of_hex q) with Some v -> "{" ^ var_s v ^ "}" | None -> "{}")
      else set_s (List.map var_s (minimal_set (vars_of (bytes_of_hex q) items))) in
    let m = String.concat ";" (List.map (fun q -> q ^ "=" ^ ans q) qh) in
    let s = String.concat ";" (List.map (fun q ->
      let w = spec_winner (bytes_of_hex q) items in
      q ^ "=" ^ (if w = "-" then "{}" else if w = "?" then (if fx then ans q else "?") else "{" ^ w ^ "}")) qh) in
    m ^ "\t" ^ s ^ "\t-"
  | _ -> "BAD-CASE")

(* GetBestMatchReferFile over freshly built maps: a singleton after the repair (C09_best_match_perm_full) *)
let () = register "c09.bestmatch" (fun line ->
  match split_ws line with
  | [curh; referh; fs] ->
    let cur = bytes_of_hex curh and refer = bytes_of_hex referh in
    let files = List.map bytes_of_hex (split_list fs) in
    let st = idx_run (List.map (fun p -> Ins p) files) in
    let bs = best_set_fx fx cur refer st in
    let m = "best=" ^ set_s (List.map hex_of_bytes bs) in
    let nb = List.length (uniq bs) in
    let s = if nb <= 1 then m else "best=?" in
    (* tie = several best-scored candidates: the path decides (evidence only, not a finding any more) *)
    let tied = List.length (uniq (best_set cur refer st)) > 1 in
    m ^ "\t" ^ s ^ "\t" ^ (if nb > 1 then "tie" else if tied then "tie_by_path" else "-")
  | _ -> "BAD-CASE")

(* case: "<root> <nruns> <files> <items>": whole analyses of a real directory, repeated: after the repair every
   workspace is stable, the tie workspaces included *)
let () = register "c09.project" (fun line ->
  match split_ws line with
  | [_; _; _; its] ->
    let items = parse_items its in
    let names = uniq (List.map fst items) in
    let tie = List.exists (fun q -> no_least q items) names in
    if fx then "{STABLE}\t{STABLE}\t" ^ (if tie then "tie_ws" else "-")
    else (if tie then "{STABLE|UNSTABLE}" else "{STABLE}") ^ "\t{STABLE}\t" ^ (if tie then "no_least_ws" else "-")
  | _ -> "BAD-CASE")

(* case: "<nreps> <features> <scripted session>": the real server, one fresh process per run. The only declared
   feature so far: dupclass = the same ---@class / ---@alias name is defined in several files with different content;
   rebuidCreateTypeMap (check_all.go) merges the per-file lists while ranging over fileStructMap and the consumers
   take the first element, so hover / definition of a field vary between fresh starts (finding C09-class-order, open;
   fixes/C09-class-order.diff sorts the files there: set fixed_class_order when it is committed) *)
let fixed_class_order = true
(* second declared feature: manysyms = a workspace/symbol query with more than 200 matches (the result is cut at
   maxSymbols after a sort on the score alone: finding C09-symbol-cut, open; fixes/C09-symbol-order.diff) *)
let fixed_symbol_order = true
(* third declared feature: manyrefs = a references query with more hits than ReferenceMaxNum (the list is cut in the
   completion order of the worker goroutines: finding C09-references-cut, open; fixes/C09-references-cut.diff) *)
let fixed_references_cut = true
(* fourth declared feature: project = a project-mode workspace (luahelper.json with ProjectFiles): before
   fixes/C09-project-order.diff the first-phase _G table of a project, the provider of a member added by several files
   and the choice among equally large projects followed Go map order (findings C09-project-order / C09-project-tie);
   modelled: project_merge_ws / member_provider / pick_project, leg c09.projtable *)
let fixed_project_order = true
(* fifth declared feature: sharedmembers = several project entry files AND members added to a global table by other
   files: the insertions go into a VarInfo all projects share, from concurrently running goroutines (finding
   C09-project-shared-members, fixed ebeeeaa; fixes/C09-project-members.diff; not modelled: the repetition leg demands a singleton) *)
let fixed_shared_members = true
let () = register "c09.srvrep" (fun line ->
  match split_ws line with
  | _ :: feats :: _ ->
    let fl = split_list feats in
    let cls = (if List.mem "dupclass" fl && not fixed_class_order then ["dup_class"] else [])
            @ (if List.mem "project" fl && not fixed_project_order then ["project_order"] else [])
            @ (if List.mem "sharedmembers" fl && not fixed_shared_members then ["shared_members"] else [])
            @ (if List.mem "manysyms" fl && not fixed_symbol_order then ["many_symbols"] else [])
            @ (if List.mem "manyrefs" fl && not fixed_references_cut then ["many_references"] else []) in
    if cls <> [] then "{STABLE|UNSTABLE}\t{STABLE}\t" ^ String.concat "," cls
    else "{STABLE}\t{STABLE}\t-"
  | _ -> "BAD-CASE")

(* case: "<nreps> <entries> <structure> <queries> <scripted session>": a project-mode workspace in the real server.
   structure: records `<file>/<_G. definitions>/<plain definitions>/<references>/<members added>` joined by `;`
   (definitions `name:line:col`, references `r<i>` = require, `d<i>` = dofile of record i, members `T.x:line:col`);
   entries: record indices of the ProjectFiles; queries: `g:<i>:<name>` go-to-definition on the global from file i,
   `m:<i>:<T.x>` on the member. The model: the project is chosen by pick_project among the projects whose file set
   (the closure of the entry under the references = scanProjectAllFiles) contains file i, its table is
   project_merge_ws, a member's provider member_provider - all with fx = fixed_project_order; the answer is a
   singleton for the repaired code. *)
let split_on c s = if s = "-" || s = "" then [] else String.split_on_char c s
type prec = { pfile : n list; gi : (n list * gvar) list; pi : (n list * gvar) list;
              prefs : (bool * int) list; pmem : (n list * int) list }
let () = register "c09.projtable" (fun line ->
  match split_ws line with
  | _ :: entries :: structure :: queries :: _ ->
    let cols = ref [] in
    let parse_rec r =
      match String.split_on_char '/' r with
      | [fh; g; p; rf; mm] ->
        let f = bytes_of_hex fh in
        let item it = match String.split_on_char ':' it with
          | [nm; l; c] ->
            cols := ((f, int_of_string l), int_of_string c) :: !cols;
            (bytes_of_hex nm, { gv_file = f; gv_funclv = n_of_int 0; gv_scopelv = n_of_int 0; gv_line = n_of_int (int_of_string l) })
          | _ -> failwith "bad item" in
        { pfile = f; gi = List.map item (split_on ',' g); pi = List.map item (split_on ',' p);
          prefs = List.map (fun x -> (x.[0] = 'r', int_of_string (String.sub x 1 (String.length x - 1)))) (split_on ',' rf);
          pmem = List.map (fun it -> let (k, v) = item it in (k, int_of_n v.gv_line)) (split_on ',' mm) }
      | _ -> failwith "bad record" in
    let recs = Array.of_list (List.map parse_rec (String.split_on_char ';' structure)) in
    let rec_of f = List.find (fun r -> r.pfile = f) (Array.to_list recs) in
    let closure e =
      let rec go seen = function
        | [] -> List.rev seen
        | i :: todo -> if List.mem i seen then go seen todo else go (i :: seen) (List.map snd recs.(i).prefs @ todo) in
      go [] [e] in
    let ents = List.map int_of_string (split_on ',' entries) in
    let g_of k = (rec_of k).gi and plain_of k = (rec_of k).pi in
    let refers_of k = List.map (fun (b, i) -> (b, recs.(i).pfile)) (rec_of k).prefs in
    let fx = fixed_project_order in
    let rng f l c len = Printf.sprintf "define=[%s@%d:%d-%d:%d]" (string_of_bytes f) (l - 1) c (l - 1) (c + len) in
    let answer q =
      match String.split_on_char ':' q with
      | [kind; qi; nh] ->
        let qi = int_of_string qi and name = bytes_of_hex nh in
        let projs = List.filter (fun e -> List.mem qi (closure e)) ents in
        let ps = List.map (fun e -> (recs.(e).pfile, n_of_int (List.length (closure e)))) projs in
        let chosen =
          if fx then (match pick_project true ps with Some e -> [e] | None -> [])
          else (let mx = List.fold_left (fun m (_, n) -> max m (int_of_n n)) 0 ps in
                List.map fst (List.filter (fun (_, n) -> int_of_n n = mx) ps)) in
        let one entry =
          let e = List.find (fun e -> recs.(e).pfile = entry) ents in
          let files = List.map (fun i -> recs.(i).pfile) (closure e) in
          if kind = "g" then begin
            let vs = if fx then (match winner (project_merge_ws true g_of plain_of refers_of files) name with Some v -> [v] | None -> [])
                     else vars_of name (project_items false g_of plain_of refers_of files) in
            List.map (fun v -> let l = int_of_n v.gv_line in
                               rng v.gv_file l (List.assoc (v.gv_file, l) !cols) (List.length name)) vs
          end else begin
            let adds f key = List.mem_assoc key (rec_of f).pmem in
            let fs = if fx then (match member_provider true adds files name with Some f -> [f] | None -> [])
                     else List.filter (fun f -> adds f name) files in
            let mlen = List.length name - 2 in
            List.map (fun f -> let l = List.assoc name (rec_of f).pmem in rng f l (List.assoc (f, l) !cols) mlen) fs
          end in
        let all = List.concat_map one chosen in
        if all = [] then "{NONE}" else set_s all
      | _ -> "{BAD-QUERY}" in
    let m = String.concat ";" (List.map answer (split_on ',' queries)) in
    m ^ "\t" ^ m ^ "\t-"
  | _ -> "BAD-CASE")

let () = main ()
