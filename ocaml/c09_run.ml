(* C09 driver. Answer line: <model>\t<spec>\t<classes> *)
let split_list s = if s = "-" || s = "" then [] else String.split_on_char ',' s
let uniq l = List.sort_uniq compare l
let set_s l = "{" ^ String.concat "|" (uniq l) ^ "}"

let parse_items s : (n list * gvar) list =
  List.map (fun it ->
    match String.split_on_char ':' it with
    | [nm; fl; a; b; c] ->
      (bytes_of_hex nm, { gv_file = bytes_of_hex fl; gv_funclv = n_of_int (int_of_string a);
                          gv_scopelv = n_of_int (int_of_string b); gv_line = n_of_int (int_of_string c) })
    | _ -> failwith "bad item") (split_list s)

let var_s (v : gvar) = hex_of_bytes v.gv_file ^ "@" ^ string_of_int (int_of_n v.gv_line)

let classes_of qs items =
  let c1 = if List.exists (fun q -> no_least q items) qs then ["no_least"] else [] in
  let c2 = if List.exists (fun q -> multi_owner q items) qs then ["multi_owner"] else [] in
  match c1 @ c2 with [] -> "-" | l -> String.concat "," l

(* the winner the property can demand: the least owner; "?" when the definitions do not determine one *)
let spec_winner q items =
  match vars_of q items with
  | [] -> "-"
  | l -> (match least_of l with Some x -> var_s x | None -> "?")

let () = register "c09.merge" (fun line ->
  match split_ws line with
  | [qs; its] ->
    let qh = split_list qs in
    let items = parse_items its in
    let t = merge items in
    let m = String.concat ";" (List.map (fun q ->
      q ^ "=" ^ (match winner t (bytes_of_hex q) with Some v -> var_s v | None -> "-")) qh) in
    let s = String.concat ";" (List.map (fun q -> q ^ "=" ^ spec_winner (bytes_of_hex q) items) qh) in
    m ^ "\t" ^ s ^ "\t" ^ classes_of (List.map bytes_of_hex qh) items
  | _ -> "BAD-CASE")

(* the real generateAllGlobalMaps visits in map order: the model answers the set of possible winners
   (C09_merge_winner_minimal: every winner is minimal; every minimal definition wins when visited first) *)
let () = register "c09.genmaps" (fun line ->
  match split_ws line with
  | [qs; its] ->
    let qh = split_list qs in
    let items = parse_items its in
    let m = String.concat ";" (List.map (fun q ->
      q ^ "=" ^ set_s (List.map var_s (minimal_set (vars_of (bytes_of_hex q) items)))) qh) in
    let s = String.concat ";" (List.map (fun q ->
      let w = spec_winner (bytes_of_hex q) items in
      q ^ "=" ^ (if w = "-" then "{}" else if w = "?" then "?" else "{" ^ w ^ "}")) qh) in
    m ^ "\t" ^ s ^ "\t" ^ classes_of (List.map bytes_of_hex qh) items
  | _ -> "BAD-CASE")

let () = register "c09.bestmatch" (fun line ->
  match split_ws line with
  | [curh; referh; fs] ->
    let cur = bytes_of_hex curh and refer = bytes_of_hex referh in
    let files = List.map bytes_of_hex (split_list fs) in
    let st = idx_run (List.map (fun p -> Ins p) files) in
    let bs = best_set cur refer st in
    let m = "best=" ^ set_s (List.map hex_of_bytes bs) in
    let nb = List.length (uniq bs) in
    let s = if nb <= 1 then m else "best=?" in
    m ^ "\t" ^ s ^ "\t" ^ (if nb > 1 then "tie" else "-")
  | _ -> "BAD-CASE")

(* case: "<root> <nruns> <files> <items>": the last column declares which file defines which global where
   (written by the generator together with the sources); the model predicts instability from it *)
let () = register "c09.project" (fun line ->
  match split_ws line with
  | [_; _; _; its] ->
    let items = parse_items its in
    let names = uniq (List.map fst items) in
    let unstable = List.exists (fun q -> no_least q items) names in
    (if unstable then "{STABLE|UNSTABLE}" else "{STABLE}") ^ "\t{STABLE}\t" ^ (if unstable then "no_least_ws" else "-")
  | _ -> "BAD-CASE")

let () = main ()
