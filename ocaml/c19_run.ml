(* include: lua_ser.inc.ml srv_case.inc.ml *)
(* C19 driver. Case = the scripted-server case format (F: files, S:docsym:<i> / S:wssym:<hex name> steps).
   Answer: <model observable (what srv.script prints)>\t<spec column>\t<classes>
   spec column = "J:<verdict of the Gallina judge on the model's answer> D:<reference declarations per docsym step>
   X:<line lengths>" (checks/c19.py compares impl == model on the full answer, uses the verdict, and re-judges the
   implementation's answer against the same declaration list when the two differ). *)

(* which variant of the outline code the model follows: the deployed one; VERIF_C19_FIXES = nine characters 0/1 in
   the order of Symbols.fixes (range fnspan hull alldecl undecl ownfile wsdecl wsnested wsgmem) selects another one
   (used to check an older or partially repaired copy of the code; six characters: the last three are 0) *)
let fixed_sel : fixes =
  (match Sys.getenv_opt "VERIF_C19_FIXES" with
   | Some v when String.length v = 6 || String.length v = 9 ->
     let b i = i < String.length v && v.[i] = '1' in
     { fx_range = b 0; fx_fnspan = b 1; fx_hull = b 2; fx_alldecl = b 3; fx_undecl = b 4; fx_ownfile = b 5;
       fx_wsdecl = b 6; fx_wsnested = b 7; fx_wsgmem = b 8 }
   | _ -> deployed)

let zi (x : z) = dec_of_z x
let range_s (l : loc) =
  let (((a, b), c), d) = range_of l in Printf.sprintf "%s:%s-%s:%s" (zi a) (zi b) (zi c) (zi d)
let rawloc_s (l : loc) = Printf.sprintf "%s.%s.%s.%s" (zi l.sl) (zi l.sc) (zi l.el) (zi l.ec)

type ent = { name : string; kind : int; rng : string; kids : ent list }

let ent_of_child (c : csym) = { name = string_of_bytes c.c_name; kind = (if c.c_fn then 12 else 13); rng = range_s c.c_loc; kids = [] }
let ent_of_sym (s : sym) =
  let full = (if s.s_local then "local " else "") ^ string_of_bytes s.s_name in
  { name = full; kind = (if s.s_fn then 12 else if s.s_children <> [] then 5 else 13); rng = range_s s.s_loc;
    kids = List.map ent_of_child s.s_children }

let hex_of_string (s : string) = hex_of_bytes (bytes_of_string s)

(* harness/srv_script.go:docSymS - stable sort by (name, range string), bytewise *)
let rec ents_s (b : Buffer.t) (es : ent list) =
  let es = List.stable_sort (fun x y -> let c = compare x.name y.name in if c <> 0 then c else compare x.rng y.rng) es in
  Buffer.add_string b "[";
  List.iteri (fun i e ->
    if i > 0 then Buffer.add_string b ",";
    Buffer.add_string b (Printf.sprintf "%s/%d@%s/%s" (hex_of_string e.name) e.kind e.rng e.rng);
    if e.kids <> [] then ents_s b e.kids) es;
  Buffer.add_string b "]"

type good = { st : state; blk : block; content : n list; decls : decl list }
type fres = Invalid | Good of good | Oracle | Broken of string | OutFrag of string

let analyse_file (content : n list) : fres =
  oracle_used := false;
  let r = parse_bytes gbk_oracle classify_tok content in
  if !oracle_used then Oracle else
  match r with
  | OutOfFuel -> Broken "MODEL-OUT-OF-FUEL"
  | Fault _ -> Broken "MODEL-FAULT"
  | Ok (PR (b, [], [])) ->
    let fuel = fuel_of_bytes content in
    if has_annot content then OutFrag "SKIP-FRAGMENT annotation" else
    if not (in_fragment fuel b) then OutFrag "SKIP-FRAGMENT" else
    (match analyse fuel b with
     | OutOfFuel -> Broken "MODEL-OUT-OF-FUEL"
     | Fault _ -> Broken "MODEL-FAULT"
     | Ok st -> Good { st; blk = b; content; decls = decls_spec fuel b })
  | Ok _ -> Invalid

let max_symbols = 200
let kind_c = function DLocal -> "L" | DGlobal -> "G" | DFunc -> "F" | DLocalFn -> "N"
let cls_name = function ClsForeign -> "foreign_member" | ClsRewrite -> "child_range_rewrite" | ClsShadowed -> "shadowed_top_local"
  | ClsAssignedFunc -> "assigned_function_range" | ClsMemberLost -> "member_lost" | ClsMemberUndeclared -> "member_of_undeclared" | ClsUnexplained -> "unexplained"
  | ClsMemberDepth2 -> "member_depth2" | ClsWsRedeclared -> "ws_redeclared_local" | ClsWsNested -> "ws_nested_local_function"
  | ClsWsGMember -> "ws_G_member"
let decl_s (d : decl) = Printf.sprintf "%s:%s:%s" (kind_c d.d_kind) (hex_of_bytes d.d_key) (String.concat ";" (List.map rawloc_s d.d_locs))

let run_case (fx : fixes) (line : string) : string =
  let c = parse_srv_case line in
  let files = Array.of_list c.files in
  let res = Array.map (fun (_, content) -> analyse_file content) files in
  let skip = ref None in
  Array.iter (fun r -> match r, !skip with
    | Oracle, None -> skip := Some "SKIP-ORACLE"
    | Broken m, None -> skip := Some m
    | OutFrag m, None -> skip := Some m
    | Invalid, None -> skip := Some "SKIP-INVALID"
    | _ -> ()) res;
  match !skip with
  | Some m -> m ^ "\t-\t-"
  | None ->
    let g0 i = match res.(i) with Good s -> s | _ -> assert false in
    let orig = List.init (Array.length res) (fun i -> (g0 i).st) in
    match merge_ws_log orig with
    | None -> "SKIP-NONDET\t-\t-"
    | Some (merged, mlog) ->
    let g i = (match outline_state fx orig merged (nat_of_int i) with
               | Some st -> { (g0 i) with st = st }
               | None -> assert false) in
    let too_big = ref false in
    let verdicts = ref [] and classes = ref [] and dcols = ref [] in
    let add_cls k = if not (List.mem k !classes) then classes := k :: !classes in
    let outs = List.filter_map (fun step ->
      match step with
      | StDocsym i ->
        let gi = g i in
        let b = Buffer.create 256 in
        ents_s b (List.map ent_of_sym (find_all_symbol fx gi.st));
        let lens = line_lens gi.content in
        List.iter (fun ((d, v), oc) ->
          match v, oc with
          | Covered, _ -> ()
          | _, Some k ->
            verdicts := Printf.sprintf "%s:%d:%s:%s" (match v with Missing -> "missing" | _ -> "badrange") i (decl_s d) (cls_name k) :: !verdicts;
            add_cls (cls_name k)
          | _, None -> ()) (judge_all lens gi.st gi.decls (if fx.fx_ownfile then [] else foreign_globals orig mlog (nat_of_int i)) (fuel_of_bytes gi.content) gi.blk fx);
        dcols := Printf.sprintf "D%d=%s X%d=%s" i (String.concat "," (List.map decl_s gi.decls)) i
                   (String.concat "," (List.map zi lens)) :: !dcols;
        Some ("docsym=" ^ Buffer.contents b)
      | StWssym q ->
        let per = List.mapi (fun i _ -> (i, file_wsyms fx (g i).st)) (Array.to_list files) in
        let all = List.concat (List.map (fun (i, ws) ->
          let (rel, _) = files.(i) in
          List.map (fun (w : wsym) ->
            Printf.sprintf "%s/%d@%s@%s" (hex_of_bytes ((if w.w_g then b_G_dot else []) @ w.w_name)) (if w.w_fn then 12 else 13) rel (range_s w.w_loc)) ws) per) in
        if List.length all > max_symbols then too_big := true;
        let ans = List.concat (List.map (fun (i, ws) -> wentries_of (nat_of_int i) ws) per) in
        let per_decls = List.mapi (fun i _ -> (nat_of_int i, (g i).decls)) (Array.to_list files) in
        List.iter (fun ((f, d), ok) ->
          if not ok then begin
            let gf = g (int_of_nat f) in
            let k = cls_name (explain_ws gf.st gf.decls (fuel_of_bytes gf.content) gf.blk fx d) in
            verdicts := Printf.sprintf "wsmissing:%d:%s:%s" (int_of_nat f) (decl_s d) k :: !verdicts;
            add_cls k
          end) (ws_judge q per_decls ans);
        dcols := Printf.sprintf "Q=%s:%s" (hex_of_bytes q)
                   (String.concat "," (List.concat (List.map (fun (f, ds) ->
                      List.filter_map (fun d -> if d.d_kind <> DLocal && d.d_key = q then Some (Printf.sprintf "%d/%s" (int_of_nat f) (decl_s d)) else None) ds) per_decls))) :: !dcols;
        Some ("wssym=[" ^ String.concat "," (List.sort compare all) ^ "]")
      | _ -> None) c.steps in
    if !too_big then "SKIP-BIG\t-\t-" else
    let j = if !verdicts = [] then "J:OK" else "J:" ^ String.concat "|" (List.rev !verdicts) in
    String.concat " | " outs ^ "\t" ^ j ^ " " ^ String.concat " " (List.rev !dcols) ^ "\t" ^
    (if !classes = [] then "-" else String.concat "," (List.sort compare !classes))

(* workspaces above the cut: number of returned symbols and the entries named like the query. With the score
   assumption (only an exact name scores 1; the generator's names guarantee it) every such entry survives the cuts
   as long as there are at most 200 of them. *)
let run_big (line : string) : string =
  let c = parse_srv_case line in
  let files = Array.of_list c.files in
  let res = Array.map (fun (_, content) -> analyse_file content) files in
  if Array.exists (fun r -> match r with Good _ -> false | _ -> true) res then "SKIP-NOT-GOOD\t-\t-" else
  let g0 i = match res.(i) with Good s -> s | _ -> assert false in
  let orig = List.init (Array.length res) (fun i -> (g0 i).st) in
  match merge_ws_log orig with
  | None -> "SKIP-NONDET\t-\t-"
  | Some (merged, _) ->
  let fx = fixed_sel in
  let g i = (match outline_state fx orig merged (nat_of_int i) with
             | Some st -> { (g0 i) with st = st }
             | None -> assert false) in
  let all = List.concat (List.mapi (fun i (rel, _) ->
    List.map (fun (w : wsym) ->
      Printf.sprintf "%s/%d@%s@%s" (hex_of_bytes ((if w.w_g then b_G_dot else []) @ w.w_name)) (if w.w_fn then 12 else 13) rel (range_s w.w_loc))
      (file_wsyms fx (g i).st)) (Array.to_list files)) in
  let all = List.sort compare all in
  let total = List.length all in
  (* what the property demands: per query, per file declaring a global / function of that name, the candidate ranges *)
  let demanded = List.filter_map (fun step ->
    match step with
    | StWssym q ->
      Some (String.concat "," (List.concat (List.mapi (fun i (rel, _) ->
        List.filter_map (fun (d : decl) ->
          if d.d_kind <> DLocal && d.d_key = q then
            Some (Printf.sprintf "%s@%s" rel (String.concat ";" (List.map range_s d.d_locs)))
          else None) (g i).decls) (Array.to_list files))))
    | _ -> None) c.steps in
  let outs = List.filter_map (fun step ->
    match step with
    | StWssym q ->
      let pre = hex_of_bytes q ^ "/" in
      let hits = List.filter (fun e -> String.length e >= String.length pre && String.sub e 0 (String.length pre) = pre) all in
      if List.length hits > max_symbols then Some "TOO-MANY-PERFECT" else
      Some (Printf.sprintf "n=%d hits=[%s]" (min total max_symbols) (String.concat "," hits))
    | _ -> None) c.steps in
  String.concat " | " outs ^ "\tW:" ^ String.concat "|" demanded ^ "\t-"

(* the recorded assumption about the matcher (Section hypotheses of C19_workspace_exact) *)
let () = register "c19.score" (fun line ->
  match split_ws line with
  | [p; c] ->
    let ex h = if List.length (bytes_of_hex h) > 63 then "L" else "1" in
    Printf.sprintf "exact=%s,%s range=1\t-\t-" (ex p) (ex c)
  | _ -> "BAD-CASE\t-\t-")
let () = register "c19.wsbig" run_big
let () = register "c19.docsym" (run_case fixed_sel)
let () = register "c19.wssym" (run_case fixed_sel)
let () = main ()
