(* ---- srv_case.inc.ml: parser of the case format of the harness leg "srv.script" (see harness/srv_script.go) ---- *)
type srv_step =
  | StOpen of int | StChange of int * n list | StSave of int | StClose of int
  | StHover of int * int * int | StDefine of int * int * int | StRefs of int * int * int
  | StRename of int * int * int * n list | StHighlight of int * int * int | StComplete of int * int * int
  | StSighelp of int * int * int | StDocsym of int | StWssym of n list | StColor of int | StDiags
type srv_case = { files : (string * n list) list; opts : (string * string) list; steps : srv_step list }

let split_on c s = String.split_on_char c s
let parse_srv_case (line : string) : srv_case =
  let files = ref [] and opts = ref [] and steps = ref [] in
  List.iter (fun it ->
    if String.length it > 2 then begin
      let body = String.sub it 2 (String.length it - 2) in
      match it.[0] with
      | 'F' -> (match split_on ':' body with
                | [p; c] -> files := (string_of_bytes (bytes_of_hex p), bytes_of_hex c) :: !files
                | _ -> failwith "bad F item")
      | 'O' -> (match String.index_opt body '=' with
                | Some i -> opts := (String.sub body 0 i, String.sub body (i + 1) (String.length body - i - 1)) :: !opts
                | None -> failwith "bad O item")
      | 'S' ->
        let a = Array.of_list (split_on ':' body) in
        let i k = int_of_string a.(k) in
        let st = match a.(0) with
          | "open" -> StOpen (i 1) | "change" -> StChange (i 1, bytes_of_hex a.(2)) | "save" -> StSave (i 1)
          | "close" -> StClose (i 1) | "hover" -> StHover (i 1, i 2, i 3) | "define" -> StDefine (i 1, i 2, i 3)
          | "refs" -> StRefs (i 1, i 2, i 3) | "rename" -> StRename (i 1, i 2, i 3, bytes_of_hex a.(4))
          | "highlight" -> StHighlight (i 1, i 2, i 3) | "complete" -> StComplete (i 1, i 2, i 3)
          | "sighelp" -> StSighelp (i 1, i 2, i 3) | "docsym" -> StDocsym (i 1) | "wssym" -> StWssym (bytes_of_hex a.(1))
          | "color" -> StColor (i 1) | "diags" -> StDiags
          | s -> failwith ("bad step " ^ s) in
        steps := st :: !steps
      | _ -> ()
    end) (split_ws line);
  { files = List.rev !files; opts = List.rev !opts; steps = List.rev !steps }
