(* C15 driver. Answer line: <model>\t<spec>\t<classes>

   case (fields separated by one space):
     <queries> <f0> <l0> <type> <universe> <defs>
   queries  subset of the letters M (v.) I (v[1].) K (v.zqk.) D (definition of d.<k> for every k of the universe)
            P (pairs key / pairs value / ipairs value loop variables)
            F (d.<k>. for every k of the universe: a two-step prefix through a member; `*` when the workspace has
               several ---@field k lines)
   f0 l0    file index and 1-based line of the `---@type` line of variable v (variable d: l0+3)
   type     one := single ('|' single)* ; single := atom ['[]'] ;
            atom := 'n'<num> | '(' one ')' | 't<' one ',' one '>' | 'te' | 'fn' | 'cs'
   universe '-' or field-name numbers separated by ','
   defs     '-' or ';'-separated, in workspace order (file ascending, then insertion order in the file):
            <file>:<hdrline>:<lastline>:c<name>:<parents|->:<fields|->     fields: <name>@<line>~<type> joined by '+'
            <file>:<hdrline>:<lastline>:a<name>:<type>
   the identity (d_id) of a definition is its position in the list. *)

exception Bad of string

let parse_type (s : string) : ty =
  let pos = ref 0 in
  let n = String.length s in
  let peek () = if !pos < n then s.[!pos] else '\000' in
  let eat c = if peek () = c then incr pos else raise (Bad ("type: expected " ^ String.make 1 c ^ " in " ^ s)) in
  let num () =
    let st = !pos in
    while !pos < n && s.[!pos] >= '0' && s.[!pos] <= '9' do incr pos done;
    if !pos = st then raise (Bad ("type: number in " ^ s));
    int_of_string (String.sub s st (!pos - st)) in
  let rec one () =
    let first = single () in
    let rec more acc = if peek () = '|' then (incr pos; let x = single () in more (x :: acc)) else List.rev acc in
    TMulti (more [first])
  and single () =
    let a = atom () in
    if peek () = '[' then (eat '['; eat ']'; TArr a) else a
  and atom () =
    match peek () with
    | 'n' -> incr pos; TName (n_of_int (num ()))
    | '(' -> incr pos; let t = one () in eat ')'; t
    | 't' -> incr pos;
      if peek () = 'e' then (incr pos; TTableE)
      else (eat '<'; let k = one () in eat ','; let v = one () in eat '>'; TTable (k, v))
    | 'f' -> incr pos; eat 'n'; TFun
    | 'c' -> incr pos; eat 's'; TConst
    | _ -> raise (Bad ("type: atom in " ^ s)) in
  let t = one () in
  if !pos <> n then raise (Bad ("type: trailing in " ^ s));
  t

let split c s = if s = "-" || s = "" then [] else String.split_on_char c s

let parse_field (s : string) : field =
  match String.index_opt s '@', String.index_opt s '~' with
  | Some i, Some j when i < j ->
    { f_name = n_of_int (int_of_string (String.sub s 0 i));
      f_line = n_of_int (int_of_string (String.sub s (i + 1) (j - i - 1)));
      f_ty = parse_type (String.sub s (j + 1) (String.length s - j - 1)) }
  | _ -> raise (Bad ("field " ^ s))

let parse_def (idx : int) (s : string) : def =
  match String.split_on_char ':' s with
  | file :: _hdr :: last :: kn :: rest when String.length kn >= 2 ->
    let nm = n_of_int (int_of_string (String.sub kn 1 (String.length kn - 1))) in
    let kind =
      match kn.[0], rest with
      | 'c', [ps; fs] ->
        DClass (List.map (fun x -> n_of_int (int_of_string x)) (split ',' ps), List.map parse_field (split '+' fs))
      | 'a', [t] -> DAlias (parse_type t)
      | _ -> raise (Bad ("def " ^ s)) in
    { d_id = n_of_int idx; d_name = nm; d_file = n_of_int (int_of_string file);
      d_line = n_of_int (int_of_string last); d_kind = kind }
  | _ -> raise (Bad ("def " ^ s))

let fname (k : n) = "f" ^ string_of_int (int_of_n k)
let sort_uniq_s l = List.sort_uniq compare l
let labels (ks : n list) = match sort_uniq_s (List.map fname ks) with [] -> "-" | l -> String.concat "," l

exception Crash
exception Mfault of string

let ok_or_crash = function
  | Ok a -> a
  | OutOfFuel -> raise Crash
  | Fault _ -> raise (Mfault "fault")

let zqk = n_of_int 999999

(* number of ---@field k lines in the whole workspace *)
let decl_count (tm : tmap) (k : n) =
  List.fold_left (fun a d -> a + List.length (List.filter (fun fl -> fl.f_name = k) (class_fields d))) 0 tm

let loc_s (tm : tmap) (k : n) (locs : (n * n) list) =
  match locs with
  | [] -> fname k ^ "@-"
  | (f, l) :: _ ->
    if decl_count tm k >= 2 then fname k ^ "@*"
    else fname k ^ "@" ^ string_of_int (int_of_n f) ^ ":" ^ string_of_int (int_of_n l)

type case = { q : string; f0 : n; l0i : int; t : ty; univ : n list; tm : tmap }

let parse_case (line : string) : case =
  match split_ws line with
  | [q; f0s; l0s; ts; us; ds] ->
    { q; f0 = n_of_int (int_of_string f0s); l0i = int_of_string l0s; t = parse_type ts;
      univ = List.map (fun x -> n_of_int (int_of_string x)) (split ',' us);
      tm = List.mapi parse_def (split ';' ds) }
  | _ -> raise (Bad "fields")

(* what the faithful model predicts for the whole case *)
let model_obs (c : case) : string =
  let { q; f0; l0i; t; univ; tm } = c in
  let has ch = String.contains q ch in
  let sv = ((t, f0), n_of_int l0i) and sd = ((t, f0), n_of_int (l0i + 3)) in
  (* line of the first loop probe, as laid out by the Go leg: probes start two lines below the last used line
     of the query file, one line each, in the order M I K D... P; a loop variable reads its type "one line
     above the for statement" *)
  let max_line = List.fold_left (fun a d -> if d.d_file = f0 then max a (int_of_n d.d_line) else a) (l0i + 4) tm in
  let first_probe = max_line + 2 in
  let cnt ch k = if has ch then k else 0 in
  let pline = first_probe + cnt 'M' 1 + cnt 'I' 1 + cnt 'K' 1 + cnt 'D' (List.length univ) in
  let sp1 = ((t, f0), n_of_int (pline - 1)) and sp2 = ((t, f0), n_of_int pline) in
  try
    let parts = ref [] in
    let add k v = parts := (k ^ "=" ^ v) :: !parts in
    if has 'M' then add "M" (labels (ok_or_crash (complete_at tm sv [])));
    if has 'I' then add "I" (labels (ok_or_crash (complete_at tm sv [None])));
    if has 'K' then add "K" (labels (ok_or_crash (complete_at tm sv [Some zqk])));
    if has 'D' then
      add "D" (match univ with [] -> "-" | _ ->
        String.concat "," (List.map (fun k ->
          match ok_or_crash (define_at tm sd [] k) with
          | Some loc -> loc_s tm k [loc]
          | None -> loc_s tm k []) univ));
    if has 'P' then begin
      let mem_of r = match ok_or_crash r with
        | Some s -> labels (ok_or_crash (complete_at tm s []))
        | None -> "-" in
      add "PK" (mem_of (for_pairs_key tm sp1));
      add "PV" (mem_of (for_value tm sp1));
      add "IV" (mem_of (for_value tm sp2))
    end;
    if has 'F' then
      add "F" (match univ with [] -> "-" | _ ->
        String.concat ";" (List.map (fun k ->
          fname k ^ ":" ^ (if decl_count tm k >= 2 then "*"
                           else labels (ok_or_crash (complete_at tm sd [Some k])))) univ));
    String.concat " " (List.rev !parts)
  with Crash -> "CRASH stack-overflow" | Mfault m -> "MODEL-FAULT " ^ m

(* what the property demands *)
let spec_obs (c : case) : string =
  let { q; f0; t; univ; tm; _ } = c in
  let has ch = String.contains q ch in
  try
    let mem_t ty = match members_exec tm ty with Some l -> labels l | None -> raise (Mfault "spec-fuel") in
    let mem_o = function Some ty -> mem_t ty | None -> "-" in
    let parts = ref [] in
    let add k v = parts := (k ^ "=" ^ v) :: !parts in
    if has 'M' then add "M" (mem_t t);
    if has 'I' then add "I" (mem_o (index_exec tm t f0));
    if has 'K' then add "K" (mem_o (index_exec tm t f0));
    if has 'D' then
      add "D" (match univ with [] -> "-" | _ ->
        String.concat "," (List.map (fun k ->
          match define_exec tm t k with Some locs -> loc_s tm k locs | None -> raise (Mfault "spec-fuel")) univ));
    if has 'P' then begin
      add "PK" (mem_o (pairs_key_exec tm t f0));
      add "PV" (mem_o (index_exec tm t f0));
      add "IV" (mem_o (index_exec tm t f0))
    end;
    if has 'F' then
      add "F" (match univ with [] -> "-" | _ ->
        String.concat ";" (List.map (fun k ->
          fname k ^ ":" ^ (if decl_count tm k >= 2 then "*"
                           else match member_step_exec tm t k with
                             | None -> raise (Mfault "spec-fuel")
                             | Some (((ty', _), _) :: _) -> mem_t ty'        (* the one ---@field k line of the closure *)
                             | Some [] -> mem_o (index_exec tm t f0))) univ)); (* no member k: element type *)
    String.concat " " (List.rev !parts)
  with Mfault m -> "SPEC-FAULT " ^ m

(* classes of the known findings (negated guards of the theorems) true of the case *)
let classes_of (c : case) : string =
  let { q; f0; t; tm; _ } = c in
  let has ch = String.contains q ch in
  let cls = ref [] in
  let needs_elem = has 'I' || has 'K' || has 'D' || has 'P' || has 'F' in
  if needs_elem && (cyclic_alias leaf_arr tm t f0 || cyclic_alias leaf_val tm t f0
                    || (has 'P' && cyclic_alias leaf_key tm t f0)) then cls := "cyclic_alias" :: !cls;
  (* the class shadowed_split (a multiply-declared name referred to from a file that declares it) is gone:
     finding C15-split-class-shadowed is fixed, the model is the repaired lookup (c15_split_fixed = true) and
     C15_members_full_proved has no guard, so a deviation from the closure is a violation, never a known class *)
  match !cls with [] -> "-" | l -> String.concat "," l

let () = register "c15.members" (fun line ->
  try
    let c = parse_case line in
    model_obs c ^ "\t" ^ spec_obs c ^ "\t" ^ classes_of c
  with Bad m -> "BAD-CASE " ^ m | Failure m -> "BAD-CASE " ^ m)

(* Generator helper (not a correspondence leg): "1" when the model's answer does not depend on the order in which
   the FILES contribute to the workspace map (a Go map iteration order in rebuidCreateTypeMap), else "0".
   The deciding leg only runs cases with "1". *)
let rec perms = function
  | [] -> [[]]
  | l -> List.concat_map (fun x -> List.map (fun p -> x :: p) (perms (List.filter (fun y -> y <> x) l))) l

let () = register "c15.stable" (fun line ->
  try
    let c = parse_case line in
    let files = List.sort_uniq compare (List.map (fun d -> int_of_n d.d_file) c.tm) in
    let base = model_obs c in
    let ok = List.for_all (fun p ->
        let rank f = let rec go i = function [] -> 0 | x :: r -> if x = f then i else go (i + 1) r in go 0 p in
        let tm' = List.stable_sort (fun a b -> compare (rank (int_of_n a.d_file)) (rank (int_of_n b.d_file))) c.tm in
        let tm' = List.mapi (fun i d -> { d with d_id = n_of_int i }) tm' in
        model_obs { c with tm = tm' } = base) (perms files) in
    (if ok then "1" else "0") ^ "\t-\t-"
  with Bad m -> "BAD-CASE " ^ m | Failure m -> "BAD-CASE " ^ m)

let () = main ()
