(* C17 driver. Case line (fields separated by one space):
     <ws> <root hex> <files> <json|-> <init cfg> <changes|->   [<re table> <mask> <raw>]
   files    = hex names (relative), comma separated
   cfg      = <flags 0/1, position k = switch documented as type k, 0 = AllEnable>;<IgnoreFileOrDir>;<IgnoreFileOrDirError>
              (the init cfg may carry a 4th component "L": the client also sends LocalRun = true)
   changes  = cfg|cfg|...                      (didChangeConfiguration notifications in order)
   json     = <ShowWarnFlag>;<IgnoreErrorTypes>;<OpenErrorTypes>;<IgnoreFileOrFloder>;<IgnoreFileErr>;<IgnoreFileErrTypes>;<entry 0/1>
              int lists "." separated ("_" empty); name lists "," separated hex ("_" empty list, "-" empty name);
              IgnoreFileErrTypes entries <name hex>=<ints>
   re table = oracle (Go regexp called directly): <pattern hex>=E | <bits over the canonical subject list>, comma separated
   mask     = 0/1 per file: analysed or not (model's own answer, leg c17.handled), or "-" if the session faults
   raw      = oracle: diagnostics of the everything-enabled run over the analysed files:
              <file hex>:<type>:<line>:<col>[:<ref file hex>] comma separated ("_" empty)
   Answer of c17.filter: <model>\t<spec>\t<classes>;  of c17.handled: <mask>;
   of c17.sites (case + re table): S=<mask> A=<mask> (per file: scanned by the directory walk / accepted by the per-file
   predicate) for model and spec, class ignore_sites;
   of c17.live: case = <ws> <root> <files> <json|-> <init cfg> <changes|-> <script> <re table> <raws> <syn>
     script = steps separated by ",": b<i>.<k> / B<i>.<k> edit of file i (index into files) to probe text k (b: didOpen
              first), g<i> / G<i> edit to a text without syntax error, c<j> settings notification j of <changes>; "-" none
     raws   = <mask>=<raw> separated by "/" (oracle: the everything-enabled run for every set of analysed files the
              history meets; the masks are the answer of c17.live.masks)
     syn    = <k>=<line>:<col>.<line>:<col>... separated by "," (oracle: the syntax errors of probe text k)
     answer: the client's view after initialize and after every step ("=" where it did not change) joined by "|",
     for model and spec; class live_stale;
   of c17.variant (any line): the seven booleans of the model variant in use (regexp gate coupled dead dup sites live);
   of c17.tojson (a client cfg): the same intent written as luahelper.json (Config.to_json of the variant in use) *)

let split c s = String.split_on_char c s
let plist f s = if s = "_" then [] else List.map f (split ',' s)
let pints s = if s = "_" then [] else List.map (fun x -> n_of_int (int_of_string x)) (split '.' s)

let parse_client s =
  match split ';' s with
  | [fl; ih; ie] | [fl; ih; ie; "L"] ->
    { c_flags = List.init (String.length fl) (fun i -> fl.[i] = '1');
      c_ignore_handle = plist bytes_of_hex ih; c_ignore_err = plist bytes_of_hex ie }
  | _ -> failwith "bad client cfg"

let parse_json s =
  if s = "-" then None else
  match split ';' s with
  | [show; ign; op; ih; ie; ft; en] ->
    let pft e = match split '=' e with
      | [k; v] -> (bytes_of_hex k, pints v)
      | _ -> failwith "bad file-type rule" in
    Some { j_show = n_of_int (int_of_string show); j_ignore_types = pints ign; j_open_types = pints op;
           j_ignore_handle = plist bytes_of_hex ih; j_ignore_err = plist bytes_of_hex ie;
           j_file_types = plist pft ft; j_has_entry = (en = "1") }
  | _ -> failwith "bad json cfg"

let slash = n_of_int 47
(* canonical subject list shared with the Go oracle leg c17.re: absolute names, relative names, "/" ^ relative names,
   relative folders *)
let ancestors_of (rel : n list) : n list list =
  let rec go pre rest acc = match rest with
    | [] -> List.rev acc
    | c :: r -> let pre' = pre @ [c] in if c = slash then go pre' r (pre' :: acc) else go pre' r acc in
  go [] rel []
let subjects root files =
  let abs = List.map (fun f -> root @ (slash :: f)) files in
  let dirs = List.fold_left (fun acc f -> List.fold_left (fun a d -> if List.mem d a then a else a @ [d]) acc (ancestors_of f)) [] files in
  abs @ files @ List.map (fun f -> slash :: f) files @ dirs

let parse_re root files s =
  let subs = Array.of_list (subjects root files) in
  let rows = plist (fun e -> match split '=' e with
      | [p; v] -> (bytes_of_hex p, v)
      | _ -> failwith "bad re row") s in
  let find p = try List.assoc p rows with Not_found -> failwith ("pattern missing in oracle table: " ^ hex_of_bytes p) in
  let re_ok p = find p <> "E" in
  let re_match p subj =
    let v = find p in
    if v = "E" then false else begin
      let idx = ref (-1) in
      Array.iteri (fun i x -> if !idx < 0 && x = subj then idx := i) subs;
      if !idx < 0 then failwith ("subject missing in oracle table: " ^ hex_of_bytes subj) else v.[!idx] = '1'
    end in
  (re_ok, re_match)

let parse_diag e =
  match split ':' e with
  | [f; t; l; c] -> { d_file = bytes_of_hex f; d_type = n_of_int (int_of_string t); d_line = n_of_int (int_of_string l);
                      d_col = n_of_int (int_of_string c); d_ref = None }
  | [f; t; l; c; r] -> { d_file = bytes_of_hex f; d_type = n_of_int (int_of_string t); d_line = n_of_int (int_of_string l);
                         d_col = n_of_int (int_of_string c); d_ref = Some (bytes_of_hex r) }
  | _ -> failwith "bad diag"
let show_diags l =
  if l = [] then "_" else
  String.concat "," (List.map (fun d -> Printf.sprintf "%s:%d:%d:%d" (hex_of_bytes d.d_file) (int_of_n d.d_type)
                                  (int_of_n d.d_line) (int_of_n d.d_col)) l)

(* which variant of the model: by default the one the translator derived from the code (Tie.fixes_now: one boolean per
   fix: commit, each read off the Go sources on every run).  C17_FIXED overrides: "1" = deployed (all repairs),
   "0" = the original code, "r1" = the code after round 1, "r2" = after round 2 (before the two ignore sites were made
   one), "r3" = before a settings change cleared the live syntax errors, or seven 0/1 characters (regexp gate coupled
   dead dup sites live; six = live as in the code) *)
let fx =
  match (try Some (Sys.getenv "C17_FIXED") with Not_found -> None) with
  | None -> fixes_now
  | Some "1" -> deployed
  | Some "0" -> code_original
  | Some "r1" -> code_round1
  | Some "r2" -> code_round2
  | Some "r3" -> code_round3
  | Some s when String.length s = 6 || String.length s = 7 ->
    { fx_regexp = (s.[0] = '1'); fx_gate = (if s.[1] = '1' then gate_types_fixed else special_types); fx_coupled = (s.[2] = '1'); fx_dead = (s.[3] = '1');
      fx_dup = (s.[4] = '1'); fx_sites = (s.[5] = '1');
      fx_live = (if String.length s = 7 then s.[6] = '1' else fixes_now.fx_live) }
  | Some s -> failwith ("bad C17_FIXED " ^ s)
(* the analysed set and the spec column are computed with the regexp repair in (it never faults and agrees with the
   code whenever the code does not fault), so that they are meaningful for crash cases too *)
let fx_nofault = { fx with fx_regexp = true }

type parsed = { root : n list; files : n list list; json : json_cfg option; c0 : client_cfg; lr : bool;
                cs : client_cfg list; rest : string list }
let parse line =
  match split_ws line with
  | _ws :: root :: files :: json :: c0 :: cs :: rest ->
    { root = bytes_of_hex root; files = plist bytes_of_hex files; json = parse_json json; c0 = parse_client c0;
      lr = (match split ';' c0 with [_; _; _; "L"] -> true | _ -> false);
      cs = (if cs = "-" then [] else List.map parse_client (split '|' cs)); rest }
  | _ -> failwith "bad case"

let mask_of re_ok re_match p =
  match session fx_nofault re_ok p.json p.c0 false p.cs with
  | Ok s -> String.concat "" (List.map (fun f -> if is_handled fx_nofault re_ok re_match s.s_g f then "1" else "0") p.files)
  | _ -> "-"

let () = register "c17.handled" (fun line ->
  let p = parse line in
  match p.rest with
  | re :: _ -> let (re_ok, re_match) = parse_re p.root p.files re in mask_of re_ok re_match p
  | _ -> "BAD-CASE")

let () = register "c17.filter" (fun line ->
  let p = parse line in
  match p.rest with
  | [re; mask; raws] ->
    let (re_ok, re_match) = parse_re p.root p.files re in
    if mask_of re_ok re_match p <> mask then "BAD-CASE mask" else
    let rawl = plist parse_diag raws in
    let raw = (fun _ -> rawl) in
    let i = session_intent p.json p.c0 p.cs in   (* LocalRun is not part of the intent *)
    (* the raw oracle ran over the files the MODEL analyses; where the intent wants another set of files analysed the
       demanded diagnostics cannot be read off it: the spec column names the demanded set instead (a deviation of the
       class ignore_sites: "... or their analysis altogether") *)
    let smask = String.concat "" (List.map (fun f -> if spec_handled re_ok re_match i f then "1" else "0") p.files) in
    let spec = if smask = mask then show_diags (spec_shown re_ok re_match raw i p.root p.files)
      else "ANALYSED=" ^ smask in
    (match session fx re_ok p.json p.c0 p.lr p.cs with
     | Ok s ->
       let g = s.s_g in
       let model = (match run fx re_ok re_match raw p.root p.files p.json p.c0 p.lr p.cs with
           | Ok l -> show_diags l | _ -> "MODEL-INCONSISTENT") in
       let cls = ref [] in
       let add c = if not (List.mem c !cls) then cls := !cls @ [c] in
       List.iter (fun d ->
           if cls_special_gate fx re_ok re_match g i p.root d then add "special_gate";
           if cls_coupled fx re_ok re_match g i p.root d then add "coupled_type";
           if cls_dead_flag re_ok re_match g i p.root d then add "dead_flag") rawl;
       if not (json_wf fx p.json) then add "dup_file_rule";
       if cls_ignore_sites fx re_ok re_match g i p.files then add "ignore_sites";
       model ^ "\t" ^ spec ^ "\t" ^ (if !cls = [] then "-" else String.concat "," !cls)
     | Fault Regexp -> "CRASH regexp\t" ^ spec ^ "\tbad_regex"
     | Fault NilDeref -> "CRASH nil-map\t" ^ spec ^ "\tlocal_master_off"
     | Fault _ -> "CRASH other\t" ^ spec ^ "\t-"
     | OutOfFuel -> "OUT-OF-FUEL\t" ^ spec ^ "\t-")
  | _ -> "BAD-CASE")

(* the two ignore-for-analysis sites: per file, scanned by the walk (S) and accepted by the per-file predicate (A) *)
let () = register "c17.sites" (fun line ->
  let p = parse line in
  match p.rest with
  | re :: _ ->
    let (re_ok, re_match) = parse_re p.root p.files re in
    let bits f = String.concat "" (List.map (fun x -> if f x then "1" else "0") p.files) in
    let i = session_intent p.json p.c0 p.cs in
    let sm = bits (spec_handled re_ok re_match i) in
    let spec = "S=" ^ sm ^ " A=" ^ sm in
    (match session fx re_ok p.json p.c0 p.lr p.cs with
     | Ok s ->
       let g = s.s_g in
       let model = "S=" ^ bits (is_handled fx re_ok re_match g) ^ " A=" ^ bits (need_handle fx re_ok re_match g) in
       model ^ "\t" ^ spec ^ "\t" ^ (if cls_ignore_sites fx re_ok re_match g i p.files then "ignore_sites" else "-")
     | Fault Regexp -> "CRASH regexp\t" ^ spec ^ "\tbad_regex"
     | Fault NilDeref -> "CRASH nil-map\t" ^ spec ^ "\tlocal_master_off"
     | Fault _ -> "CRASH other\t" ^ spec ^ "\t-"
     | OutOfFuel -> "OUT-OF-FUEL\t" ^ spec ^ "\t-")
  | _ -> "BAD-CASE")

(* ---- unsaved buffers: leg c17.live ---- *)

type live_step = LEdit of n list * int option | LSet of int
let parse_script (files : n list list) s : live_step list =
  if s = "-" then [] else
  List.map (fun st ->
      let arg = String.sub st 1 (String.length st - 1) in
      match st.[0] with
      | 'b' | 'B' -> (match split '.' arg with
          | [i; k] -> LEdit (List.nth files (int_of_string i), Some (int_of_string k))
          | _ -> failwith "bad step")
      | 'g' | 'G' -> LEdit (List.nth files (int_of_string arg), None)
      | 'c' -> LSet (int_of_string arg)
      | _ -> failwith "bad step") (split ',' s)

let mask_of_set (files : n list list) (fs : n list list) =
  String.concat "" (List.map (fun f -> if List.mem f fs then "1" else "0") files)

(* the sets of analysed files a history meets: after initialize and after every settings notification, as the model
   (regexp repair in: it never faults) and as the intent see them *)
let () = register "c17.live.masks" (fun line ->
  let p = parse line in
  match p.rest with
  | script :: re :: _ ->
    let (re_ok, re_match) = parse_re p.root p.files re in
    let steps = parse_script p.files script in
    let css = List.fold_left (fun acc st -> match st with
        | LSet j -> (List.hd acc @ [List.nth p.cs j]) :: acc
        | _ -> acc) [[]] steps in
    let masks = ref [] in
    let add m = if not (List.mem m !masks) then masks := !masks @ [m] in
    List.iter (fun cs ->
        (match session fx_nofault re_ok p.json p.c0 false cs with
         | Ok s -> add (mask_of_set p.files (List.filter (is_handled fx_nofault re_ok re_match s.s_g) p.files))
         | _ -> ());
        let i = session_intent p.json p.c0 cs in
        add (mask_of_set p.files (List.filter (spec_handled re_ok re_match i) p.files))) (List.rev css);
    String.concat "," !masks
  | _ -> "BAD-CASE")

let () = register "c17.live" (fun line ->
  let p = parse line in
  match p.rest with
  | [script; re; raws; syn] ->
    let (re_ok, re_match) = parse_re p.root p.files re in
    let steps = parse_script p.files script in
    let rawtab = List.map (fun e -> match split '=' e with
        | [m; r] -> (m, plist parse_diag r)
        | _ -> failwith "bad raw entry") (split '/' raws) in
    let raw fs = let m = mask_of_set p.files fs in
      (try List.assoc m rawtab with Not_found -> failwith ("raw run missing for mask " ^ m)) in
    let syntab = List.map (fun e -> match split '=' e with
        | [k; v] -> (int_of_string k, List.map (fun lc -> match split ':' lc with
            | [l; c] -> (int_of_string l, int_of_string c)
            | _ -> failwith "bad syn entry") (split '.' v))
        | _ -> failwith "bad syn entry") (split ',' syn) in
    let errs_of f k = List.map (fun (l, c) ->
        { d_file = f; d_type = n_of_int 1; d_line = n_of_int l; d_col = n_of_int c; d_ref = None }) (List.assoc k syntab) in
    let ev st = match st with
      | LEdit (f, Some k) -> EEdit (f, errs_of f k)
      | LEdit (f, None) -> EEdit (f, [])
      | LSet j -> ESettings (List.nth p.cs j) in
    let evs = List.map ev steps in
    let show view = show_diags (List.concat (List.map view p.files)) in
    let compress l =
      let rec go last = function
        | [] -> []
        | v :: r -> if Some v = last then "=" :: go last r else v :: go (Some v) r in
      String.concat "|" (go None l) in
    (* the demanded views *)
    let v0 = spec_file_view re_ok re_match raw (session_intent p.json p.c0 []) p.root p.files in
    let (_, _, sviews) = List.fold_left (fun (cs, v, acc) e ->
        let v' = spec_steps re_ok re_match raw p.json p.c0 p.root p.files cs v [e] in
        let cs' = (match e with ESettings c -> cs @ [c] | _ -> cs) in
        (cs', v', acc @ [show v'])) ([], v0, [show v0]) evs in
    let spec = compress sviews in
    if not (edits_wf evs) then "BAD-CASE edits" else
    (* the model *)
    let cls = ref [] in
    let add c = if not (List.mem c !cls) then cls := !cls @ [c] in
    let fault k = (match k with
        | Fault Regexp -> "CRASH regexp\t" ^ spec ^ "\tbad_regex"
        | Fault NilDeref -> "CRASH nil-map\t" ^ spec ^ "\tlocal_master_off"
        | Fault _ -> "CRASH other\t" ^ spec ^ "\t-"
        | _ -> "OUT-OF-FUEL\t" ^ spec ^ "\t-") in
    (match start fx re_ok re_match raw p.root p.files p.json p.c0 p.lr with
     | Ok st0 ->
       let rec go st acc = function
         | [] -> Ok (List.rev acc)
         | e :: r ->
           (match e with ESettings _ -> if cls_live_stale fx st then add "live_stale" | _ -> ());
           (match step fx re_ok re_match raw p.root p.files st e with
            | Ok st' -> go st' (show st'.l_view :: acc) r
            | Fault k -> Fault k
            | OutOfFuel -> OutOfFuel) in
       (match go st0 [show st0.l_view] evs with
        | Ok views -> compress views ^ "\t" ^ spec ^ "\t" ^ (if !cls = [] then "-" else String.concat "," !cls)
        | k -> fault k)
     | k -> fault k)
  | _ -> "BAD-CASE")

let () = register "c17.variant" (fun _ ->
  String.concat "" (List.map (fun b -> if b then "1" else "0")
                      [fx.fx_regexp; gate_covers fx; fx.fx_coupled; fx.fx_dead; fx.fx_dup; fx.fx_sites; fx.fx_live]))

let show_names l = if l = [] then "_" else String.concat "," (List.map (fun x -> if x = [] then "-" else hex_of_bytes x) l)
let show_ints l = if l = [] then "_" else String.concat "." (List.map (fun x -> string_of_int (int_of_n x)) l)
let () = register "c17.tojson" (fun line ->
  let j = to_json fx (parse_client (String.trim line)) in
  Printf.sprintf "%d;%s;%s;%s;%s;_;0" (int_of_n j.j_show) (show_ints j.j_ignore_types) (show_ints j.j_open_types)
    (show_names j.j_ignore_handle) (show_names j.j_ignore_err))

let () = main ()
