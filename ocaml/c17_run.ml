(* C17 driver. Case line (fields separated by one space):
     <ws> <root hex> <files> <json|-> <init cfg> <changes|->   [<re table> <mask> <raw>]
   files    = hex names (relative), comma separated
   cfg      = <flags 0/1, position k = switch documented as type k, 0 = AllEnable>;<IgnoreFileOrDir>;<IgnoreFileOrDirError>
              (the init cfg may carry a 4th component "L": the client also sends LocalRun = true)
   changes  = cfg|cfg|...                      (didChangeConfiguration notifications in order)
   json     = <ShowWarnFlag>;<IgnoreErrorTypes>;<OpenErrorTypes>;<IgnoreFileOrFloder>;<IgnoreFileErr>;<IgnoreFileErrTypes>;<entry 0/1>
              int lists "." separated ("_" empty); name lists "," separated hex ("_" empty list, "-" empty name);
              IgnoreFileErrTypes entries <name hex>=<ints>
   re table = oracle (Go regexp called directly): <pattern hex>=E | <bits over the canonical subject list>, comma separated
   mask     = 0/1 per file: analysed or not (model's own answer, leg c17.handled), or "-" if the session faults
   raw      = oracle: diagnostics of the everything-enabled run over the analysed files:
              <file hex>:<type>:<line>:<col>[:<ref file hex>] comma separated ("_" empty)
   Answer of c17.filter: <model>\t<spec>\t<classes>;  of c17.handled: <mask>;
   of c17.sites (case + re table): S=<mask> A=<mask> (per file: scanned by the directory walk / accepted by the per-file
   predicate) for model and spec, class ignore_sites;
   of c17.variant (any line): the six booleans of the model variant in use (regexp gate coupled dead dup sites);
   of c17.tojson (a client cfg): the same intent written as luahelper.json (Config.to_json of the variant in use) *)

let split c s = String.split_on_char c s
let plist f s = if s = "_" then [] else List.map f (split ',' s)
let pints s = if s = "_" then [] else List.map (fun x -> n_of_int (int_of_string x)) (split '.' s)

let parse_client s =
  match split ';' s with
  | [fl; ih; ie] | [fl; ih; ie; "L"] ->
    { c_flags = List.init (String.length fl) (fun i -> fl.[i] = '1');
      c_ignore_handle = plist bytes_of_hex ih; c_ignore_err = plist bytes_of_hex ie }
  | _ -> failwith "bad client cfg"

let parse_json s =
  if s = "-" then None else
  match split ';' s with
  | [show; ign; op; ih; ie; ft; en] ->
    let pft e = match split '=' e with
      | [k; v] -> (bytes_of_hex k, pints v)
      | _ -> failwith "bad file-type rule" in
    Some { j_show = n_of_int (int_of_string show); j_ignore_types = pints ign; j_open_types = pints op;
           j_ignore_handle = plist bytes_of_hex ih; j_ignore_err = plist bytes_of_hex ie;
           j_file_types = plist pft ft; j_has_entry = (en = "1") }
  | _ -> failwith "bad json cfg"

let slash = n_of_int 47
(* canonical subject list shared with the Go oracle leg c17.re: absolute names, relative names, "/" ^ relative names,
   relative folders *)
let ancestors_of (rel : n list) : n list list =
  let rec go pre rest acc = match rest with
    | [] -> List.rev acc
    | c :: r -> let pre' = pre @ [c] in if c = slash then go pre' r (pre' :: acc) else go pre' r acc in
  go [] rel []
let subjects root files =
  let abs = List.map (fun f -> root @ (slash :: f)) files in
  let dirs = List.fold_left (fun acc f -> List.fold_left (fun a d -> if List.mem d a then a else a @ [d]) acc (ancestors_of f)) [] files in
  abs @ files @ List.map (fun f -> slash :: f) files @ dirs

let parse_re root files s =
  let subs = Array.of_list (subjects root files) in
  let rows = plist (fun e -> match split '=' e with
      | [p; v] -> (bytes_of_hex p, v)
      | _ -> failwith "bad re row") s in
  let find p = try List.assoc p rows with Not_found -> failwith ("pattern missing in oracle table: " ^ hex_of_bytes p) in
  let re_ok p = find p <> "E" in
  let re_match p subj =
    let v = find p in
    if v = "E" then false else begin
      let idx = ref (-1) in
      Array.iteri (fun i x -> if !idx < 0 && x = subj then idx := i) subs;
      if !idx < 0 then failwith ("subject missing in oracle table: " ^ hex_of_bytes subj) else v.[!idx] = '1'
    end in
  (re_ok, re_match)

let parse_diag e =
  match split ':' e with
  | [f; t; l; c] -> { d_file = bytes_of_hex f; d_type = n_of_int (int_of_string t); d_line = n_of_int (int_of_string l);
                      d_col = n_of_int (int_of_string c); d_ref = None }
  | [f; t; l; c; r] -> { d_file = bytes_of_hex f; d_type = n_of_int (int_of_string t); d_line = n_of_int (int_of_string l);
                         d_col = n_of_int (int_of_string c); d_ref = Some (bytes_of_hex r) }
  | _ -> failwith "bad diag"
let show_diags l =
  if l = [] then "_" else
  String.concat "," (List.map (fun d -> Printf.sprintf "%s:%d:%d:%d" (hex_of_bytes d.d_file) (int_of_n d.d_type)
                                  (int_of_n d.d_line) (int_of_n d.d_col)) l)

(* which variant of the model: by default the one the translator derived from the code (Tie.fixes_now: one boolean per
   fix: commit, each read off the Go sources on every run).  C17_FIXED overrides: "1" = deployed (all repairs),
   "0" = the original code, "r1" = the code after round 1, "r2" = after round 2 (before the two ignore sites were made
   one), or six 0/1 characters (regexp gate coupled dead dup sites) *)
let fx =
  match (try Some (Sys.getenv "C17_FIXED") with Not_found -> None) with
  | None -> fixes_now
  | Some "1" -> deployed
  | Some "0" -> code_original
  | Some "r1" -> code_round1
  | Some "r2" -> code_round2
  | Some s when String.length s = 6 ->
    { fx_regexp = (s.[0] = '1'); fx_gate = (if s.[1] = '1' then gate_types_fixed else special_types); fx_coupled = (s.[2] = '1'); fx_dead = (s.[3] = '1');
      fx_dup = (s.[4] = '1'); fx_sites = (s.[5] = '1') }
  | Some s -> failwith ("bad C17_FIXED " ^ s)
(* the analysed set and the spec column are computed with the regexp repair in (it never faults and agrees with the
   code whenever the code does not fault), so that they are meaningful for crash cases too *)
let fx_nofault = { fx with fx_regexp = true }

type parsed = { root : n list; files : n list list; json : json_cfg option; c0 : client_cfg; lr : bool;
                cs : client_cfg list; rest : string list }
let parse line =
  match split_ws line with
  | _ws :: root :: files :: json :: c0 :: cs :: rest ->
    { root = bytes_of_hex root; files = plist bytes_of_hex files; json = parse_json json; c0 = parse_client c0;
      lr = (match split ';' c0 with [_; _; _; "L"] -> true | _ -> false);
      cs = (if cs = "-" then [] else List.map parse_client (split '|' cs)); rest }
  | _ -> failwith "bad case"

let mask_of re_ok re_match p =
  match session fx_nofault re_ok p.json p.c0 false p.cs with
  | Ok s -> String.concat "" (List.map (fun f -> if is_handled fx_nofault re_ok re_match s.s_g f then "1" else "0") p.files)
  | _ -> "-"

let () = register "c17.handled" (fun line ->
  let p = parse line in
  match p.rest with
  | re :: _ -> let (re_ok, re_match) = parse_re p.root p.files re in mask_of re_ok re_match p
  | _ -> "BAD-CASE")

let () = register "c17.filter" (fun line ->
  let p = parse line in
  match p.rest with
  | [re; mask; raws] ->
    let (re_ok, re_match) = parse_re p.root p.files re in
    if mask_of re_ok re_match p <> mask then "BAD-CASE mask" else
    let rawl = plist parse_diag raws in
    let raw = (fun _ -> rawl) in
    let i = session_intent p.json p.c0 p.cs in   (* LocalRun is not part of the intent *)
    (* the raw oracle ran over the files the MODEL analyses; where the intent wants another set of files analysed the
       demanded diagnostics cannot be read off it: the spec column names the demanded set instead (a deviation of the
       class ignore_sites: "... or their analysis altogether") *)
    let smask = String.concat "" (List.map (fun f -> if spec_handled re_ok re_match i f then "1" else "0") p.files) in
    let spec = if smask = mask then show_diags (spec_shown re_ok re_match raw i p.root p.files)
      else "ANALYSED=" ^ smask in
    (match session fx re_ok p.json p.c0 p.lr p.cs with
     | Ok s ->
       let g = s.s_g in
       let model = (match run fx re_ok re_match raw p.root p.files p.json p.c0 p.lr p.cs with
           | Ok l -> show_diags l | _ -> "MODEL-INCONSISTENT") in
       let cls = ref [] in
       let add c = if not (List.mem c !cls) then cls := !cls @ [c] in
       List.iter (fun d ->
           if cls_special_gate fx re_ok re_match g i p.root d then add "special_gate";
           if cls_coupled fx re_ok re_match g i p.root d then add "coupled_type";
           if cls_dead_flag re_ok re_match g i p.root d then add "dead_flag") rawl;
       if not (json_wf fx p.json) then add "dup_file_rule";
       if cls_ignore_sites fx re_ok re_match g i p.files then add "ignore_sites";
       model ^ "\t" ^ spec ^ "\t" ^ (if !cls = [] then "-" else String.concat "," !cls)
     | Fault Regexp -> "CRASH regexp\t" ^ spec ^ "\tbad_regex"
     | Fault NilDeref -> "CRASH nil-map\t" ^ spec ^ "\tlocal_master_off"
     | Fault _ -> "CRASH other\t" ^ spec ^ "\t-"
     | OutOfFuel -> "OUT-OF-FUEL\t" ^ spec ^ "\t-")
  | _ -> "BAD-CASE")

(* the two ignore-for-analysis sites: per file, scanned by the walk (S) and accepted by the per-file predicate (A) *)
let () = register "c17.sites" (fun line ->
  let p = parse line in
  match p.rest with
  | re :: _ ->
    let (re_ok, re_match) = parse_re p.root p.files re in
    let bits f = String.concat "" (List.map (fun x -> if f x then "1" else "0") p.files) in
    let i = session_intent p.json p.c0 p.cs in
    let sm = bits (spec_handled re_ok re_match i) in
    let spec = "S=" ^ sm ^ " A=" ^ sm in
    (match session fx re_ok p.json p.c0 p.lr p.cs with
     | Ok s ->
       let g = s.s_g in
       let model = "S=" ^ bits (is_handled fx re_ok re_match g) ^ " A=" ^ bits (need_handle fx re_ok re_match g) in
       model ^ "\t" ^ spec ^ "\t" ^ (if cls_ignore_sites fx re_ok re_match g i p.files then "ignore_sites" else "-")
     | Fault Regexp -> "CRASH regexp\t" ^ spec ^ "\tbad_regex"
     | Fault NilDeref -> "CRASH nil-map\t" ^ spec ^ "\tlocal_master_off"
     | Fault _ -> "CRASH other\t" ^ spec ^ "\t-"
     | OutOfFuel -> "OUT-OF-FUEL\t" ^ spec ^ "\t-")
  | _ -> "BAD-CASE")

let () = register "c17.variant" (fun _ ->
  String.concat "" (List.map (fun b -> if b then "1" else "0")
                      [fx.fx_regexp; gate_covers fx; fx.fx_coupled; fx.fx_dead; fx.fx_dup; fx.fx_sites]))

let show_names l = if l = [] then "_" else String.concat "," (List.map (fun x -> if x = [] then "-" else hex_of_bytes x) l)
let show_ints l = if l = [] then "_" else String.concat "." (List.map (fun x -> string_of_int (int_of_n x)) l)
let () = register "c17.tojson" (fun line ->
  let j = to_json fx (parse_client (String.trim line)) in
  Printf.sprintf "%d;%s;%s;%s;%s;_;0" (int_of_n j.j_show) (show_ints j.j_ignore_types) (show_ints j.j_open_types)
    (show_names j.j_ignore_handle) (show_names j.j_ignore_err))

let () = main ()
