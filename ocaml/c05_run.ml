(* include: lua_ser.inc.ml srv_case.inc.ml *)
(* Binder family driver (C05 C06 C11 C12 C14): case = scripted-server case (harness/srv_script.go).
   Answer line: <model>\t<spec>\t<classes>; each column holds one item per QUERY step, joined by " | ".
     model  : what Model/Scope.v + Model/Resolve.v predict the server answers (same canonical text as srv.script,
              hover projected to L|G + ":" + the identifier the label names, completion projected to the labels that are
              identifiers of the workspace)
     spec   : what Spec/LuaScope.v demands for the occurrence under the cursor ("-" = no demand)
     classes: refuted classes true of that query ("-" = none)
   Everything is recomputed from the file BYTES.
   The WIDE functions (Model/ResolveWide.v, Spec/LuaScopeWide.v) are used throughout: they coincide with the narrow ones
   on the narrow fragment (Proofs/WideNarrow.v), so the narrow legs are unaffected. *)

type pf = { fname : string; fnb : n list; bytes : n list; len : int; parsed : bool; frag : bool; tok : bool;
            fi : fileinfo; so : socc list; strs : (n list * loc) list;
            lends : (loc * n list list) list (* initialiser regions of the local statements, with their names *);
            rps : (n list * loc) list         (* re-pointing right-hand sides with their target names (B4 at the boundary) *);
            rends : loc list                  (* Locs of the repeat statements (adjacent_repeat_end) *) }

let dummy_fi = analyse (Block ([], None, zero_loc))

let prep (name, bs) : pf =
  oracle_used := false;
  let base = { fname = name; fnb = bytes_of_string name; bytes = bs; len = List.length bs; parsed = false;
               frag = false; tok = text_ok_wide bs; fi = dummy_fi; so = []; strs = []; lends = []; rps = []; rends = [] } in
  match parse_bytes gbk_oracle classify_tok bs with
  | Ok (PR (blk, [], [])) when not !oracle_used ->
    { base with parsed = true; frag = in_wide blk; fi = analyse_wide blk; so = bind_file_wide blk; strs = strs_block blk;
      lends = lends_block blk; rps = rp_block blk; rends = rends_block blk }
  | _ -> base

let zi = int_of_z
let range_s (l : loc) = Printf.sprintf "%d:%d-%d:%d" (zi l.sl - 1) (zi l.sc) (zi l.el - 1) (zi l.ec)
let floc_s ((f, l) : n list * loc) = string_of_bytes f ^ "@" ^ range_s l
let sorted l = List.sort compare l
let list_s l = "[" ^ String.concat "," (sorted l) ^ "]"
let locs_s l = list_s (List.map floc_s l)
let uniq l = List.sort_uniq compare l

type ctx = { files : pf array; mw : mws; sw : sws }

let mk_ctx (c : srv_case) : ctx =
  let files = List.map prep c.files in
  (* the member re-reading of getVarCommonFuncParam compares key positions without the file name (a global table's
     members come from every file): the string nodes of the whole workspace count *)
  let allstrs = List.concat_map (fun p -> p.strs) files in
  let files = Array.of_list (List.map (fun p -> { p with strs = allstrs }) files) in
  let fl = Array.to_list files in
  { files; mw = List.map (fun p -> (p.fnb, p.fi)) fl; sw = List.map (fun p -> (p.fnb, p.so)) fl }

(* the identifier a position request is about *)
type cur = CName of (bool * n list) (* written `_G.name`, name *) | CEmpty (* the server answers nothing *) | CSkip of string

let cursor (p : pf) ~(docend_empty : bool) line col : cur * bool (* doc end *) =
  if not p.parsed then (CSkip "PARSE", false)
  else if not p.frag then (CSkip "FRAGMENT", false)
  else if not p.tok then (CSkip "TEXT", false)
  else match offset_of p.bytes (n_of_int line) (n_of_int col) N0 with
    | None -> (CSkip "POS", false)
    | Some off ->
      let o = int_of_n off in
      if p.len = 0 then (CEmpty, true)
      else if o >= p.len && docend_empty then (CEmpty, true)
      else (match cut_name_wide p.bytes off with
          | WName s ->
            (* a same-named string key next to the cursor: the server re-reads the identifier as a table member *)
            if near_str p.strs s (z_of_int (line + 1)) (z_of_int col) then (CSkip "KEY", false)
            else (CName (false, s), o >= p.len)
          | WGName s -> (CName (true, s), o >= p.len)
          | WInvalid -> (CEmpty, o >= p.len)
          | WUnsupported -> (CSkip "CUT", false))

let z1 line = z_of_int (line + 1)

let tag_name = function CB1 -> "B1_own_table_constructor" | CB2 -> "B2_for_bounds" | CB3 -> "B3_multi_local" | CB4 -> "B4_forward_decl" | CB5 -> "B5_for_step_order"
let all_tags = [CB1; CB2; CB3; CB4; CB5]

(* classes of the occurrence under the cursor *)
let cursor_classes (o : socc option) = match o with
  | None -> []
  | Some o ->
    (* B3 lies inside B1's region (a later initialiser of the same statement): report the more specific class *)
    let tags = List.filter (fun t -> has_tag t o) all_tags in
    let tags = if List.mem CB3 tags then List.filter (fun t -> t <> CB1) tags else tags in
    List.map tag_name tags

(* classes that change what the fourth pass (references) collects for that NAME *)
let name_classes (cx : ctx) (o : socc option) = match o with
  | None -> []
  | Some o ->
    (if name_has_tag cx.sw CB3 o.s_name then ["B3_multi_local"] else [])
    @ (if name_has_tag cx.sw CB4 o.s_name then ["B4_forward_decl"] else [])
    @ (match o.s_bind with
        | BGlobal n ->
          (if global_writes cx.sw n = [] then ["undefined_global"] else [])
          @ (if split_global cx.sw n then ["split_global"] else [])
          @ (if global_mixed_levels cx.sw n then ["global_mixed_levels"] else [])
          (* same_pos_other_file: repaired (fixes/C06-same-pos-other-file.diff), no class any more *)
        | BLocal _ -> [])

let any_name_classes (cx : ctx) (o : socc option) = match o with
  | None -> []
  | Some o -> List.filter_map (fun t -> if name_has_tag cx.sw t o.s_name then Some (tag_name t) else None) all_tags

let cls_s l = match uniq l with [] -> "-" | l -> String.concat "," l

(* feature functions of the model as total functions (C12's relation is stated over such functions) *)
let find_file (cx : ctx) (f : n list) : pf option =
  let r = ref None in Array.iter (fun p -> if p.fnb = f then r := Some p) cx.files; !r

(* an answer that depends on the order-dependent workspace table (C09): the C12 relation makes no demand there *)
exception Ambig
let name_at (cx : ctx) ~docend_empty (f : n list) (line1 : z) (col : z) : (pf * (bool * n list)) option =
  match find_file cx f with
  | None -> None
  | Some p -> (match fst (cursor p ~docend_empty (zi line1 - 1) (zi col)) with
      | CName s -> Some (p, s)
      | _ -> None)

(* a position the model makes no prediction for (SKIP-...): no demand either *)
let skipped_at (cx : ctx) ~docend_empty (f : n list) (line1 : z) (col : z) : bool =
  match find_file cx f with
  | None -> false
  | Some p -> (match fst (cursor p ~docend_empty (zi line1 - 1) (zi col)) with CSkip _ -> true | _ -> false)
let name_at cx ~docend_empty f line1 col =
  if skipped_at cx ~docend_empty f line1 col then raise Ambig else name_at cx ~docend_empty f line1 col
let m_define cx f line1 col = match name_at cx ~docend_empty:false f line1 col with
  | Some (p, (g, s)) -> (match define_at_wide g cx.mw p.fnb p.fi s line1 col with Some l -> l | None -> raise Ambig)
  | None -> []
let m_refs mode cx f line1 col = match name_at cx ~docend_empty:false f line1 col with
  | Some (p, (g, s)) -> (match references_at_wide mode g cx.mw p.fnb p.fi s line1 col with Some l -> l | None -> raise Ambig)
  | None -> []
let m_highlight cx f line1 col = List.map snd (m_refs MHighlight cx f line1 col)
let m_hover_local cx f line1 col = match name_at cx ~docend_empty:false f line1 col with
  | Some (p, (g, s)) -> (match hover_at_wide g cx.mw p.fnb p.fi s line1 col with HLocal -> true | _ -> false)
  | None -> false

(* one query step -> (model, spec, classes) *)
let eval_step (leg : string) (cx : ctx) (st : srv_step) : (string * string * string) option =
  let pos_query op i line col (k : pf -> (bool * n list) -> socc option -> bool -> string * string * string list) =
    let p = cx.files.(i) in
    (* since fixes/C05-doc-end.diff no handler gives up at offset = len(contents) (before: all but hover did) *)
    let docend_empty = (ignore op; false) in
    let (c, docend) = cursor p ~docend_empty line col in
    let o = if p.parsed then occ_at p.so (z1 line) (z_of_int col) else None in
    match c with
    | CSkip why -> Some (op ^ "=SKIP-" ^ why, "-", "-")
    | CEmpty ->
      let empty = (match op with "hover" -> "hover=none" | _ -> op ^ "=[]") in
      (* the property still demands an answer when an occurrence is under the cursor *)
      let (_, s, cl) = (match o with Some _ -> k p (false, []) o true | None -> (empty, "-", [])) in
      Some (empty, s, cls_s ((ignore docend; cl)))
    | CName s ->
      let (m, sp, cl) = k p s o false in
      (* the first column of an identifier that starts right at the end of a `local` statement with initialisers lies
         inside the statement's InitLoc (inclusive end column): a name of that statement is not found there *)
      let adj = if after_local p.lends (snd s) (z1 line) (z_of_int col) then ["B1_adjacent_local_end"] else [] in
      (* C12 relates the answers at several positions: the class counts when ANY occurrence of the name stands there *)
      let adj = if adj = [] && leg = "c12.consist"
                   && List.exists (fun (o : socc) -> o.s_name = snd s && after_local p.lends o.s_name o.s_loc.sl o.s_loc.sc) p.so
                then ["B1_adjacent_local_end"] else adj in
      (* cursor at the END of an identifier glued to the first column of the Loc of a call that re-points the "empty"
         local of that name (`n = v[n]()`: the call's Loc starts at `]`): the point lies inside the ReferExp (class B4),
         although the identifier's Loc is not contained in it (no tag CB4 on the occurrence) *)
      let bnd = (match o with
          | Some o when b4_boundary p.rps o (z1 line) (z_of_int col) -> ["B4_forward_decl"]
          | _ -> []) in
      (* cursor on the first column of an identifier glued to the end of a `repeat ... until e` statement: the (inclusive)
         end column of the repeat scope - the name is looked up inside the block *)
      let rend = if at_repeat_end p.rends (z1 line) (z_of_int col) then ["adjacent_repeat_end"] else [] in
      let (bnd, rend) = if leg = "c12.consist" then
          ((if bnd = [] && List.exists (fun (o : socc) -> o.s_name = snd s && b4_boundary p.rps o o.s_loc.el o.s_loc.ec) p.so
            then ["B4_forward_decl"] else bnd),
           (if rend = [] && List.exists (fun (o : socc) -> o.s_name = snd s && at_repeat_end p.rends o.s_loc.sl o.s_loc.sc) p.so
            then ["adjacent_repeat_end"] else rend))
        else (bnd, rend) in
      Some (m, sp, cls_s ((ignore docend; cl @ adj @ bnd @ rend))) in
  match st with
  | StDefine (i, line, col) ->
    pos_query "define" i line col (fun p (g, s) o empty ->
        let ans = if empty then Some [] else define_at_wide g cx.mw p.fnb p.fi s (z1 line) (z_of_int col) in
        match ans with
        | None -> ("define=SKIP-AMBIG", "-", [])
        | Some l ->
          let m = "define=" ^ locs_s l in
          let sp = (match o with
              | None -> "-"
              | Some _ when leg = "c12.consist" -> "-"
              | Some o ->
                if define_ok cx.sw p.fnb o l then m
                else (match o.s_bind with
                    | BLocal d -> "define=" ^ locs_s [(p.fnb, d)]
                    | BGlobal n -> (match global_writes cx.sw n with
                        | [] -> "define=[]"
                        | ws -> "define=one-of" ^ locs_s ws))) in
          (m, sp, cursor_classes o))
  | StRefs (i, line, col) | StHighlight (i, line, col) | StRename (i, line, col, _) ->
    let (op, mode) = (match st with StRefs _ -> ("refs", MRefs) | StHighlight _ -> ("highlight", MHighlight) | _ -> ("rename", MRename)) in
    let nn = (match st with StRename (_, _, _, nn) -> hex_of_bytes nn | _ -> "") in
    let fmt (p : pf) (l : (n list * loc) list) =
      (match op with
       | "refs" -> "refs=" ^ locs_s l
       | "highlight" -> "highlight=" ^ list_s (List.map (fun x -> range_s (snd x)) l)
       | _ -> "rename=" ^ list_s (List.map (fun x -> floc_s x ^ "=>" ^ nn) l)) in
    pos_query op i line col (fun p (g, s) o empty ->
        let ans = if empty then Some [] else references_at_wide mode g cx.mw p.fnb p.fi s (z1 line) (z_of_int col) in
        match ans with
        | None -> (op ^ "=SKIP-AMBIG", "-", [])
        | Some l ->
          let m = fmt p l in
          let c12 = (leg = "c12.consist") in
          let sp = lazy (match o with
              | None -> "-"
              | Some o ->
                if not c12 then
                  (match op with
                   | "highlight" -> fmt p (List.map (fun x -> (p.fnb, x)) (spec_highlight cx.sw p.fnb o))
                   | _ -> fmt p (spec_refs cx.sw p.fnb o))
                else begin
                  let l1 = z1 line and c = z_of_int col in
                  let bad = (match op with
                      | "refs" ->
                        (if c12_refs_same_decl (m_define cx) (m_refs MRefs cx) p.fnb l1 c then [] else ["refs-resolve-elsewhere"])
                        @ (if c12_self_in_refs (m_define cx) (m_refs MRefs cx) p.fnb l1 c o.s_loc then [] else ["not-in-refs-of-own-definition"])
                      | "highlight" ->
                        if c12_highlight (m_refs MRefs cx) (m_highlight cx) p.fnb l1 c then [] else ["highlight-differs-from-refs-in-file"]
                      | _ -> []) in
                  if bad = [] then m else op ^ "=INCONSISTENT:" ^ String.concat "+" bad
                end) in
          let sp = (try Lazy.force sp with Ambig -> "-") in
          (m, sp, cursor_classes o @ name_classes cx o @ (if c12 then any_name_classes cx o else [])))
  | StHover (i, line, col) ->
    pos_query "hover" i line col (fun p (g, s) o empty ->
        if empty then ("hover=none", (match o with Some o -> (if spec_hover_local o then "hover=L:" else "hover=G:") ^ string_of_bytes o.s_name | None -> "-"), cursor_classes o)
        else match hover_at_wide g cx.mw p.fnb p.fi s (z1 line) (z_of_int col) with
          | HSkip -> ("hover=SKIP-AMBIG", "-", [])
          | h ->
            let m = (match h with HLocal -> "hover=L:" | _ -> "hover=G:") ^ string_of_bytes s in
            let sp = (match o with
                | None -> "-"
                | Some o ->
                  if leg = "c12.consist" then (try
                    (if c12_hover (m_define cx) (m_hover_local cx) (is_local_decl_of cx.sw) p.fnb (z1 line) (z_of_int col)
                     then (match h with HLocal -> "hover=L:" | _ -> "hover=G:") ^ string_of_bytes o.s_name
                     else "hover=INCONSISTENT:local-flag-differs-from-definition") with Ambig -> "-")
                  else (if spec_hover_local o then "hover=L:" else "hover=G:") ^ string_of_bytes o.s_name) in
            (m, sp, cursor_classes o @ (if leg = "c12.consist" then any_name_classes cx o else [])))
  | StComplete (i, line, col) ->
    let p = cx.files.(i) in
    if not p.parsed then Some ("complete=SKIP-PARSE", "-", "-")
    else if not p.frag then Some ("complete=SKIP-FRAGMENT", "-", "-")
    else if not p.tok then Some ("complete=SKIP-TEXT", "-", "-")
    else (match offset_of p.bytes (n_of_int line) (n_of_int col) N0 with
        | None -> Some ("complete=SKIP-POS", "-", "-")
        | Some off ->
          (match complete_prefix_wide p.bytes off with
           | CutUnsupported -> Some ("complete=SKIP-CUT", "-", "-")
           | CutInvalid -> Some ("complete=[]", "-", "-")
           | CutName pre ->
             (* `self` never occurs in the text of a wide program (frag_name); the synthetic parameter of
                `function t:m()` is not a name of the workspace (the implementation side keeps workspace names only) *)
             let not_self n = (string_of_bytes n <> "self" && string_of_bytes n <> "_G" (* a keyword for the server: offered everywhere; dropped on both sides *)) in
             let labels = List.filter not_self (complete_at_wide cx.mw p.fi pre (z1 line) (z_of_int col)) in
             let m = "complete=[" ^ String.concat "," (uniq (List.map string_of_bytes labels)) ^ "]" in
             let o = occ_at p.so (z1 line) (z_of_int col) in
             let sp = (match o with
                 | None -> "-"
                 | Some _ when leg = "c14.corr" -> "-"
                 (* a cursor INSIDE a declaring identifier (`local function na|me`, a parameter being written) is not the
                    completion of a bare identifier prefix at a use site: the theorems (C14_complete_bytes_partial,
                    is_decl (s_role o) = false) make no demand there, so neither does the leg. Found by the thorough tier:
                    with the declaring keyword on the previous line the server offers the name being declared *)
                 | Some o when is_decl o.s_role -> "-"
                 | Some o ->
                   let visible = List.filter not_self (env_names o.s_env []) in
                   if complete_ok cx.sw p.fnb visible pre (z1 line) (z_of_int col) labels then m
                   else begin
                     let must = List.filter (fun n -> starts_with pre n) (visible @ global_names cx.sw) in
                     let forb = List.filter_map (fun (d : socc) ->
                         if decl_later_or_outside (z1 line) (z_of_int col) d && not (List.mem d.s_name (visible @ global_used_names cx.sw))
                         then Some d.s_name else None) p.so in
                     "complete=must" ^ list_s (uniq (List.map string_of_bytes must)) ^ "never" ^ list_s (uniq (List.map string_of_bytes forb))
                   end) in
             (* OPEN class own_initialiser_completion: completion (GetCompleteVar) does not use the initialiser region that
                go-to-definition uses since fix 1031f4f: inside the initialiser list of `local a, b = <here>` the names being
                declared are offered. The class holds when the cursor lies in the region of a declaration whose name is among
                the labels. Found by the thorough tier (leg c14.then) *)
             let own_init = List.exists (fun (d : socc) ->
                 is_decl d.s_role && in_location d.s_region (z1 line) (z_of_int col) && List.mem d.s_name labels) p.so in
             Some (m, sp, cls_s (cursor_classes o @ (if own_init then ["own_initialiser_completion"] else [])))))
  | _ -> None

let run_case leg line =
  let c = parse_srv_case line in
  let cx = mk_ctx c in
  let rs = List.filter_map (eval_step leg cx) c.steps in
  let col f = String.concat " | " (List.map f rs) in
  col (fun (m, _, _) -> m) ^ "\t" ^ col (fun (_, s, _) -> s) ^ "\t" ^ col (fun (_, _, k) -> k)

let () = List.iter (fun leg -> register leg (run_case leg))
    ["c05.define"; "c06.refs"; "c11.rename"; "c12.consist"; "c14.complete"; "c14.corr"; "c05.any"]

(* validation of the layout hypothesis of the theorems on the generated programs: Laid with W = 100000 *)
let () = register "c05.laid" (fun line ->
    let c = parse_srv_case line in
    let rs = List.map (fun (name, bs) ->
        oracle_used := false;
        match parse_bytes gbk_oracle classify_tok bs with
        | Ok (PR (blk, [], [])) ->
          (* the guards of the positive theorems (Properties/C05.v, C14.v): fragment, Laid2 layout, no re-pointing *)
          String.concat "+" [ (if in_fragment blk then "frag" else "NOFRAG"); (if laid_b (z_of_int 100000) blk then "laid" else "NOT-LAID");
                              (if laid2_b (z_of_int 100000) blk then "laid2" else "NOT-LAID2");
                              (if no_repoint blk then "norepoint" else "REPOINT") ]
        | _ -> "noparse") c.files in
    String.concat "," rs ^ "\t-\t-")

let () = main ()
