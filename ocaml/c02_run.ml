(* C02 driver. Answer line: <model>\t<spec>\t<classes> *)
(* which variant of the model is compared with the implementation: Model/TextSync.v deployed_fixed;
   VERIF_C02_FIXED=1|0 overrides it (to try the repaired model against a patched scratch copy: VERIF_REPO=...) *)
let fx = match Sys.getenv_opt "VERIF_C02_FIXED" with Some "1" -> true | Some "0" -> false | _ -> deployed_fixed
let nz s = n_of_int (int_of_string s)

let off_err_s = function
  | EBeyond (ch, line) -> Printf.sprintf "ERR beyond %d %d" (int_of_n ch) (int_of_n line)
  | EFirst ch -> Printf.sprintf "ERR first %d" (int_of_n ch)
  | ELines k -> Printf.sprintf "ERR lines %d" (int_of_n k)
let off_s = function
  | OffOk (s, e) -> Printf.sprintf "OK %d %d" (int_of_n s) (int_of_n e)
  | OffErr e -> off_err_s e

(* dot-separated hex code points; "-" = empty *)
let cps_of s = if s = "-" then [] else List.map (fun h -> n_of_int (int_of_string ("0x" ^ h))) (String.split_on_char '.' s)

let mkr a b c d = { r_start = { p_line = nz a; p_ch = nz b }; r_end = { p_line = nz c; p_ch = nz d } }

let classes l = match List.filter (fun (_, b) -> b) l with [] -> "-" | l -> String.concat "," (List.map fst l)

(* case: <doc hex> <code points | !> <sl> <sc> <el> <ec> *)
let () = register "c02.offsets" (fun line ->
  match split_ws line with
  | [h; c; sl; sc; el; ec] ->
    let bs = bytes_of_hex h in
    let r = mkr sl sc el ec in
    let m = off_s (offset_gen fx bs r) in
    if c = "!" then m ^ "\t-\t-" else begin
      let cps = cps_of c in
      if utf8_of cps <> bs || not (List.for_all scalar cps) then "BAD-CASE" else
      let s = match spec_offsets cps r with
        | Some (a, b) -> Printf.sprintf "OK %d %d" (int_of_n a) (int_of_n b)
        | None -> "-" in       (* not a range of this document: outside the property's quantifier *)
      let cl = if fx then "-" else classes ["astral", List.exists is_astral cps; "lone_cr", not (no_lone_cr cps)] in
      m ^ "\t" ^ s ^ "\t" ^ cl
    end
  | _ -> "BAD-CASE")

let parse_change dec s =
  let i = String.index s ':' in
  let head = String.split_on_char '.' (String.sub s 0 i) in
  let text = dec (String.sub s (i + 1) (String.length s - i - 1)) in
  match head with
  | ["F"; rl] -> { c_range = None; c_rlen = nz rl; c_text = text }
  | [a; b; c; d; rl] -> { c_range = Some (mkr a b c d); c_rlen = nz rl; c_text = text }
  | _ -> failwith "bad change"
let parse_changes dec s = if s = "" then [] else List.map (parse_change dec) (String.split_on_char ';' s)

(* case: <doc hex> <changes, texts in hex>   (bytes level; no spec) *)
let () = register "c02.apply" (fun line ->
  let f = split_ws line in
  let bs = bytes_of_hex (List.hd f) in
  let chs = match f with [_; c] -> parse_changes bytes_of_hex c | _ -> [] in
  (match apply_changes fx bs chs with
   | Ok (Inl out) -> "OK " ^ hex_of_bytes out
   | Ok (Inr (APos _)) -> "ERR pos"
   | Ok (Inr ARange) -> "ERR range"
   | Fault NilDeref -> "PANIC runtime error: invalid memory address or nil pointer dereference"
   | Fault _ -> "PANIC other"
   | OutOfFuel -> "FUEL") ^ "\t-\t-")

(* which decode / which didSave the model uses: Model/TextSyncUri.v deployed_uri_fixed / deployed_save_fixed;
   VERIF_C02_URI=1|0 and VERIF_C02_SAVE=1|0 override them (to run the model of the code before the repairs) *)
let envb name dflt = match Sys.getenv_opt name with Some "1" -> true | Some "0" -> false | _ -> dflt
let ux = envb "VERIF_C02_URI" deployed_uri_fixed
let sx = envb "VERIF_C02_SAVE" deployed_save_fixed

(* the URIs of a history: first token "U:<hex name>,<hex name>,..." (names as they stand in the URI behind
   file://<root>/, percent-encoding included); without it the four documents of the old case format.
   The model puts them under the root /R: the real root is a temporary directory made of letters, digits, '-', '_'
   and '/', which every variant of the decode leaves alone. *)
let default_names = ["d0.lua"; "d1.lua"; "d2.lua"; "d3.txt"]
let mk_uri name = prefix2 @ bytes_of_string "/R/" @ name
let split_table toks = match toks with
  | t :: rest when String.length t >= 2 && String.sub t 0 2 = "U:" ->
    List.map bytes_of_hex (String.split_on_char ',' (String.sub t 2 (String.length t - 2))), rest
  | _ -> List.map bytes_of_string default_names, toks

let parse_note tab tok =
  let u = tab.(Char.code tok.[1] - 48) in
  let rest () = String.sub tok 3 (String.length tok - 3) in
  match tok.[0] with
  | 'O' | 'P' -> UOpen (u, cps_of (rest ()))      (* P: didOpen whose text is not the file's (the model has no disk) *)
  | 'C' -> UChange (u, parse_changes cps_of (rest ()))
  | 'S' -> let r = rest () in USave (u, if r = "nil" then None else Some (cps_of r))
  | 'X' -> UClose u
  | _ -> failwith "bad note"

let note_texts = function
  | UOpen (_, t) -> [t]
  | UChange (_, chs) -> List.map (fun ch -> ch.c_text) chs
  | USave (_, Some t) -> [t]
  | _ -> []

let cell = function None -> "~" | Some l -> hex_of_bytes l

(* case: [U:<names>] notifications separated by blanks, texts as code points.
   model = server cache at the key of every URI of the table after every notification;
   spec = client text of every URI of the table after every notification *)
let history line =
  let names, toks = split_table (split_ws line) in
  let tab = Array.of_list (List.map mk_uri names) in
  let ul = Array.to_list tab in
  let notes = List.map (parse_note tab) toks in
  if not (List.for_all (fun n -> List.for_all (List.for_all scalar) (note_texts n)) notes) then "BAD-CASE" else
  let key u = uri_key ux prefix2 u in
  let mstate (c : kcache) = String.concat "," (List.map (fun u -> cell (c (key u))) ul) in
  let sstate (c : kcache) = String.concat "," (List.map (fun u -> cell (c u)) ul) in
  let m = List.map (function Ok c -> mstate c | Fault _ -> "PANIC" | OutOfFuel -> "FUEL")
      (utrace fx ux sx prefix2 kempty (List.map enc_unote notes)) in
  let m = if m = [] then "-" else String.concat " " m in
  (* outside the property's quantifier: a non-conformant history; a table in which two URIs name one resource
     (equal after RFC 3986 percent-decoding) *)
  if not (uconformant_from (fun u -> is_lua_key (key u)) kempty notes && inj_on true prefix2 ul) then m ^ "\t-\t-" else begin
    let _, sp = List.fold_left (fun (cs, acc) n -> let cs' = uspec_step cs n in (cs', sstate (enc_kcache cs') :: acc))
        (kempty, []) notes in
    let s = if sp = [] then "-" else String.concat " " (List.rev sp) in
    let cl = classes (["uri_plus", not (inj_on ux prefix2 ul); "save_nil", (not sx) && save_nil notes] @
                      (if fx then [] else
                         ["stale", ustale fx ux sx prefix2 notes;
                          "astral", not (uclass_ok_from no_astral kempty notes);
                          "lone_cr", not (uclass_ok_from no_lone_cr kempty notes)])) in
    m ^ "\t" ^ s ^ "\t" ^ cl
  end
let () = register "c02.history" history

(* leg c02.analysed: the same histories over documents made of lines `NAME = 1`; every cell of an open document is
   `<text hex>/<sorted names of its lines joined by +>`: what the server holds AND what it analyses (observed through the
   outline of the real handler). Model: the analysed text IS the cached text (TextDocumentDidChange hands the cached
   bytes to the analysis), so the names are those of the lines of the model's cache; spec: those of the client's text.
   The line reader below is driver code (trusted): a line counts when it is `<identifier> = 1`. *)
let line_names (bs : n list) : string =
  let s = string_of_bytes bs in
  let lines = String.split_on_char '\n' s in
  let is_id c = (c >= 'a' && c <= 'z') || (c >= 'A' && c <= 'Z') || (c >= '0' && c <= '9') || c = '_' in
  let names = List.filter_map (fun l ->
      let l = if l <> "" && l.[String.length l - 1] = '\r' then String.sub l 0 (String.length l - 1) else l in
      let n = String.length l in
      if n > 4 && String.sub l (n - 4) 4 = " = 1" then begin
        let id = String.sub l 0 (n - 4) in
        let ok = ref (id <> "" && not (id.[0] >= '0' && id.[0] <= '9')) in
        String.iter (fun c -> if not (is_id c) then ok := false) id;
        if !ok then Some id else None end
      else None) lines in
  let names = List.sort_uniq compare names in
  if names = [] then "-" else String.concat "+" names
(* finding C02-open-text-not-analysed (REPAIRED): the unrepaired didOpen caches the text it carries but does not analyse it;
   the analysis stays the FILE's until the next didChange / didSave of the document. The Coq model has no disk; the driver keeps one
   (what the harness writes: the text of note O, of a didSave, the cached text at a didSave without text; note P =
   didOpen that leaves the disk alone) and predicts which text the outline is computed from. didopen_fixed = true =
   the repaired code (fixes/C02-didopen-analysed.diff, in /repo): analysed text = cached text after every notification;
   VERIF_C02_DIDOPEN=0 = the model of the code before the repair.
   Class open_text_not_disk: the history contains a note P whose text is not the text of the file at that moment. *)
let didopen_fixed = envb "VERIF_C02_DIDOPEN" true
let analysed line =
  let names, toks = split_table (split_ws line) in
  let tab = Array.of_list (List.map mk_uri names) in
  let ul = Array.to_list tab in
  let notes = List.map (parse_note tab) toks in
  if not (List.for_all (fun n -> List.for_all (List.for_all scalar) (note_texts n)) notes) then "BAD-CASE" else
  let key u = uri_key ux prefix2 u in
  let cellf an (c : kcache) u = match c (key u) with
    | None -> "~"
    | Some l -> hex_of_bytes l ^ "/" ^ (match an u with None -> "-" | Some a -> line_names a) in
  let sstate (c : kcache) = String.concat "," (List.map (fun u -> match c u with None -> "~" | Some l -> hex_of_bytes l ^ "/" ^ line_names l) ul) in
  let upd f u v = fun x -> if x = u then v else f x in
  let states = utrace fx ux sx prefix2 kempty (List.map enc_unote notes) in
  let rec walk toks notes states disk an cls acc = match toks, notes, states with
    | tok :: tt, n :: nt, st :: stt ->
      (match st with
       | Ok c ->
         let disk, an, cls = match n with
           | UOpen (u, t) when tok.[0] = 'P' ->
             let differs = (match disk u with Some d -> d <> utf8_of t | None -> true) in
             disk, (if didopen_fixed then upd an u (Some (utf8_of t)) else upd an u (disk u)), cls || differs
           | UOpen (u, t) -> upd disk u (Some (utf8_of t)), upd an u (Some (utf8_of t)), cls
           | UChange (u, _) -> disk, upd an u (c (key u)), cls
           | USave (u, Some t) -> upd disk u (Some (utf8_of t)), upd an u (Some (utf8_of t)), cls
           | USave (u, None) -> upd disk u (c (key u)), upd an u (c (key u)), cls
           | UClose _ -> disk, an, cls in
         walk tt nt stt disk an cls (String.concat "," (List.map (cellf an c) ul) :: acc)
       | Fault _ -> List.rev ("PANIC" :: acc), cls
       | OutOfFuel -> List.rev ("FUEL" :: acc), cls)
    | _ -> List.rev acc, cls in
  let m, cls = walk toks notes states (fun _ -> None) (fun _ -> None) false [] in
  let m = if m = [] then "-" else String.concat " " m in
  if not (uconformant_from (fun u -> is_lua_key (key u)) kempty notes && inj_on true prefix2 ul) then m ^ "\t-\t-" else begin
    let _, sp = List.fold_left (fun (cs, acc) n -> let cs' = uspec_step cs n in (cs', sstate (enc_kcache cs') :: acc))
        (kempty, []) notes in
    let s = if sp = [] then "-" else String.concat " " (List.rev sp) in
    m ^ "\t" ^ s ^ "\t" ^ (if cls && not didopen_fixed then "open_text_not_disk" else "-")
  end
let () = register "c02.analysed" analysed
let () = register "c02.history_bad" history

(* case: the URI in hex.  model = VscodeURIToString; spec = the RFC 3986 reading (prefix removed, percent-decoded,
   '+' is '+'; the server's backslash normalisation kept) where the URI starts with the prefix and is well formed *)
let uri_leg prefix line =
  let u = bytes_of_hex line in
  let m = hex_of_bytes (uri_key ux prefix u) in
  let wf = match strip_prefix prefix u with
    | Some r -> (match unescape true r with Some _ -> true | None -> false)
    | None -> false in
  let s = if wf then hex_of_bytes (uri_key true prefix u) else "-" in
  let cl = if wf && m <> s then "uri_plus" else "-" in
  m ^ "\t" ^ s ^ "\t" ^ cl
let () = register "c02.uri" (uri_leg prefix2)
let () = register "c02.uri3" (uri_leg prefix3)

(* case: <root URI hex> <root path hex>.  model = InitialRootURIAndPath starting from "file:///": 2 = the prefix becomes
   "file://", 3 = it stays.  spec = 2 where the root URI is file:// followed by a well-formed encoding of the root path
   (RFC 3986 reading; the server's backslash normalisation kept), nothing demanded otherwise *)
let () = register "c02.rootprefix" (fun line ->
  match split_ws line with
  | [a; b] ->
    let ru = bytes_of_hex a and rp = bytes_of_hex b in
    let p = init_prefix ux prefix3 ru rp in
    let m = if p = prefix2 then "2" else "3" in
    let s = if rp <> [] && init_prefix true prefix3 ru rp = prefix2 then "2" else "-" in
    let cl = if s <> "-" && m <> s then "uri_plus" else "-" in
    m ^ "\t" ^ s ^ "\t" ^ cl
  | _ -> "BAD-CASE")

let () = main ()
