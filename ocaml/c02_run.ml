(* C02 driver. Answer line: <model>\t<spec>\t<classes> *)
(* which variant of the model is compared with the implementation: Model/TextSync.v deployed_fixed;
   VERIF_C02_FIXED=1|0 overrides it (to try the repaired model against a patched scratch copy: VERIF_REPO=...) *)
let fx = match Sys.getenv_opt "VERIF_C02_FIXED" with Some "1" -> true | Some "0" -> false | _ -> deployed_fixed
let nz s = n_of_int (int_of_string s)

let off_err_s = function
  | EBeyond (ch, line) -> Printf.sprintf "ERR beyond %d %d" (int_of_n ch) (int_of_n line)
  | EFirst ch -> Printf.sprintf "ERR first %d" (int_of_n ch)
  | ELines k -> Printf.sprintf "ERR lines %d" (int_of_n k)
let off_s = function
  | OffOk (s, e) -> Printf.sprintf "OK %d %d" (int_of_n s) (int_of_n e)
  | OffErr e -> off_err_s e

(* dot-separated hex code points; "-" = empty *)
let cps_of s = if s = "-" then [] else List.map (fun h -> n_of_int (int_of_string ("0x" ^ h))) (String.split_on_char '.' s)

let mkr a b c d = { r_start = { p_line = nz a; p_ch = nz b }; r_end = { p_line = nz c; p_ch = nz d } }

let classes l = match List.filter (fun (_, b) -> b) l with [] -> "-" | l -> String.concat "," (List.map fst l)

(* case: <doc hex> <code points | !> <sl> <sc> <el> <ec> *)
let () = register "c02.offsets" (fun line ->
  match split_ws line with
  | [h; c; sl; sc; el; ec] ->
    let bs = bytes_of_hex h in
    let r = mkr sl sc el ec in
    let m = off_s (offset_gen fx bs r) in
    if c = "!" then m ^ "\t-\t-" else begin
      let cps = cps_of c in
      if utf8_of cps <> bs || not (List.for_all scalar cps) then "BAD-CASE" else
      let s = match spec_offsets cps r with
        | Some (a, b) -> Printf.sprintf "OK %d %d" (int_of_n a) (int_of_n b)
        | None -> "-" in       (* not a range of this document: outside the property's quantifier *)
      let cl = if fx then "-" else classes ["astral", List.exists is_astral cps; "lone_cr", not (no_lone_cr cps)] in
      m ^ "\t" ^ s ^ "\t" ^ cl
    end
  | _ -> "BAD-CASE")

let parse_change dec s =
  let i = String.index s ':' in
  let head = String.split_on_char '.' (String.sub s 0 i) in
  let text = dec (String.sub s (i + 1) (String.length s - i - 1)) in
  match head with
  | ["F"; rl] -> { c_range = None; c_rlen = nz rl; c_text = text }
  | [a; b; c; d; rl] -> { c_range = Some (mkr a b c d); c_rlen = nz rl; c_text = text }
  | _ -> failwith "bad change"
let parse_changes dec s = if s = "" then [] else List.map (parse_change dec) (String.split_on_char ';' s)

(* case: <doc hex> <changes, texts in hex>   (bytes level; no spec) *)
let () = register "c02.apply" (fun line ->
  let f = split_ws line in
  let bs = bytes_of_hex (List.hd f) in
  let chs = match f with [_; c] -> parse_changes bytes_of_hex c | _ -> [] in
  (match apply_changes fx bs chs with
   | Ok (Inl out) -> "OK " ^ hex_of_bytes out
   | Ok (Inr (APos _)) -> "ERR pos"
   | Ok (Inr ARange) -> "ERR range"
   | Fault NilDeref -> "PANIC runtime error: invalid memory address or nil pointer dereference"
   | Fault _ -> "PANIC other"
   | OutOfFuel -> "FUEL") ^ "\t-\t-")

let parse_note tok =
  let d = n_of_int (Char.code tok.[1] - 48) in
  let rest () = String.sub tok 3 (String.length tok - 3) in
  match tok.[0] with
  | 'O' -> DidOpen (d, cps_of (rest ()))
  | 'C' -> DidChange (d, parse_changes cps_of (rest ()))
  | 'S' -> let r = rest () in DidSave (d, if r = "nil" then None else Some (cps_of r))
  | 'X' -> DidClose d
  | _ -> failwith "bad note"

let note_texts = function
  | DidOpen (_, t) -> [t]
  | DidChange (_, chs) -> List.map (fun ch -> ch.c_text) chs
  | DidSave (_, Some t) -> [t]
  | _ -> []

let state_s (c : cache) =
  String.concat "," (List.map (fun d -> match c (n_of_int d) with None -> "~" | Some l -> hex_of_bytes l) [0; 1; 2; 3])

(* case: notifications separated by blanks, texts as code points.
   model = server cache after every notification; spec = client texts (UTF-8) after every notification *)
let history line =
  let notes = List.map parse_note (split_ws line) in
  if not (List.for_all (fun n -> List.for_all (List.for_all scalar) (note_texts n)) notes) then "BAD-CASE" else
  let m = List.map (function Ok c -> state_s c | Fault _ -> "PANIC" | OutOfFuel -> "FUEL")
      (trace fx empty_cache (List.map enc_note notes)) in
  let m = if m = [] then "-" else String.concat " " m in
  if not (conformant_from empty_cache notes) then m ^ "\t-\t-" else begin
    let _, sp = List.fold_left (fun (cs, acc) n -> let cs' = spec_step cs n in (cs', state_s (enc_cache cs') :: acc))
        (empty_cache, []) notes in
    let s = if sp = [] then "-" else String.concat " " (List.rev sp) in
    let cl = if fx then "-" else classes ["stale", stale fx notes; "astral", astral notes; "lone_cr", lone_cr notes] in
    m ^ "\t" ^ s ^ "\t" ^ cl
  end
let () = register "c02.history" history
let () = register "c02.history_bad" history

let () = main ()
