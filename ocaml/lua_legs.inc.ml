(* ---- lua_legs.inc.ml: model observables of the Lua front end shared by the C01/C03/C04 drivers ---- *)
(* Model/Lexer.v: the lexer takes the variant of readEscapeSequence as its first argument (class FxEscape; extracted as a
   bool). The drivers run the variant that is in /repo, fx_deployed - the one parse_bytes uses as well. *)
let lex_all gbk bs = lex_all fx_deployed gbk bs

let parse_model ?(nolocs = false) (bs : n list) : string =
  oracle_used := false;
  let r = parse_bytes gbk_oracle classify_tok bs in
  (* the GBK oracle only influences positions: without Locs the observable does not depend on it *)
  if !oracle_used && not nolocs then "SKIP-ORACLE" else
  match r with
  | OutOfFuel -> "MODEL-OUT-OF-FUEL"
  | Fault _ -> "MODEL-FAULT"
  | Ok PRTooMany -> "TOOMANY"
  | Ok (PR (blk, le, pe)) ->
    let b = Buffer.create 1024 in
    let lex = List.sort compare (List.map lexerr_s le) in
    Buffer.add_string b ("OK L:" ^ String.concat "," lex ^ " P:" ^ String.concat "," (List.map perr_s pe) ^ " AST:");
    block_s (le = [] && not nolocs) b blk;
    Buffer.contents b

(* token stream of the stand-alone lexer; also returns the tokens *)
let lex_model ?(always = false) (bs : n list) : string * ltok list =
  oracle_used := false;
  match lex_all gbk_oracle bs with
  | OutOfFuel -> ("MODEL-OUT-OF-FUEL", [])
  | Fault _ -> ("MODEL-FAULT", [])
  | Ok lts ->
    if !oracle_used then ("SKIP-ORACLE", []) else
    let errs = List.concat_map (fun (t : ltok) -> t.lerrs) lts in
    let lex = List.sort compare (List.map lexerr_s errs) in
    let wl = (errs = []) || always in
    let b = Buffer.create 1024 in
    Buffer.add_string b ("L:" ^ String.concat "," lex ^ " T:");
    let prev = ref zero_tok in
    List.iter (fun (t : ltok) ->
      let l = tok_loc !prev t.lt in
      Buffer.add_string b (Printf.sprintf " %s:%s%s" (kind_s t.lt.tk) (hex_of_bytes t.lt.tstr)
                             (loc_s (wl && not (always && kind_s t.lt.tk = "59")) l));
      prev := t.lt) lts;
    (Buffer.contents b, lts)
