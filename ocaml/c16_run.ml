(* C16 driver.  Answer line: <model>\t<spec>\t<classes>.
   Serialisation = the one of harness/legs_c16.go (see the grammar in its header), byte for byte. *)

let hx (l : n list) = hex_of_bytes l
let b01 b = if b then "1" else "0"
let si (x : n) = string_of_int (int_of_n x)

let rec ser_type (t : atype) : string =
  match t with
  | ANormal (nm, c) -> "N:" ^ hx nm ^ ":" ^ b01 c
  | AMulti ts -> "M[" ^ String.concat "|" (List.map ser_type ts) ^ "]"
  | AArray i -> "A(" ^ ser_type i ^ ")"
  | ATableEmpty -> "T0"
  | ATable (k, v) -> "T(" ^ ser_type k ^ "," ^ ser_type v ^ ")"
  | AFun (ps, rs) ->
    "F(" ^ String.concat ";" (List.map (fun ((nm, o), ty) -> hx nm ^ ":" ^ b01 o ^ ":" ^ ser_type ty) ps) ^ ")->("
    ^ String.concat ";" (List.map ser_type rs) ^ ")"
  | AConst (nm, q, c) -> "C:" ^ hx nm ^ ":" ^ b01 q ^ ":" ^ hx c

let ser_opt_type = function None -> "nil" | Some t -> ser_type t

let ser_stat (s : astat) : string =
  match s with
  | SType (items, c) ->
    "type{" ^ String.concat ";" (List.map (fun ((co, en), t) -> b01 co ^ b01 en ^ ser_type t) items) ^ "}@" ^ hx c
  | SAlias (nm, t, c) -> "alias:" ^ hx nm ^ "=" ^ ser_opt_type t ^ "@" ^ hx c
  | SClass (nm, ps, c) -> "class:" ^ hx nm ^ ":" ^ String.concat "," (List.map hx ps) ^ "@" ^ hx c
  | SOverload (t, c) -> "overload:" ^ ser_type t ^ "@" ^ hx c
  | SField (sc, co, nm, t, c) -> "field:" ^ si sc ^ ":" ^ si co ^ ":" ^ hx nm ^ "=" ^ ser_type t ^ "@" ^ hx c
  | SParam (isc, opt, nm, t, c) -> "param:" ^ b01 isc ^ b01 opt ^ ":" ^ hx nm ^ "=" ^ ser_type t ^ "@" ^ hx c
  | SReturn (items, c) -> "return{" ^ String.concat ";" (List.map (fun (t, o) -> b01 o ^ ser_type t) items) ^ "}@" ^ hx c
  | SGeneric (items, c) -> "generic{" ^ String.concat ";" (List.map (fun (a, p) -> hx a ^ ":" ^ hx p) items) ^ "}@" ^ hx c
  | SVararg (t, c) -> "vararg:" ^ ser_type t ^ "@" ^ hx c
  | SEnum (ty, c) -> "enum:" ^ si ty ^ "@" ^ hx c
  | SNotValid -> "notvalid"

let ser_err (((lno, len), e) : (n * nat) * aerr) : string =
  let len = int_of_nat len and rest = int_of_nat e.e_rest in
  Printf.sprintf "%d:%d:%d:%s:%d:%d" (int_of_n lno) (int_of_n e.e_type) (int_of_n (kind_code e.e_need)) (hx e.e_msg)
    (len - rest) len

let ser_frag (fr : frag) : string =
  "stats=[" ^ String.concat ";;" (List.map ser_stat fr.f_stats) ^ "] lines=["
  ^ String.concat "," (List.map si fr.f_lines) ^ "] errs=[" ^ String.concat ";" (List.map ser_err fr.f_errs) ^ "]"

let ser_res (r : frag res) : string =
  match r with
  | Ok fr -> ser_frag fr
  | Fault _ -> "PANIC"
  | OutOfFuel -> "TIMEOUT"

(* the documented type a tree denotes (abs), for the printer leg; same format as c16Norm in the harness *)
let rec ser_dtype (t : dtype) : string =
  match t with
  | DName nm -> "n:" ^ hx nm
  | DConst (s, q) -> "c:" ^ hx s ^ ":" ^ b01 q
  | DArray i -> "a(" ^ ser_dtype i ^ ")"
  | DTable0 -> "t0"
  | DTable (k, v) -> "t(" ^ ser_dtype k ^ "," ^ ser_dtype v ^ ")"
  | DFun (ps, rs) ->
    "f(" ^ String.concat ";" (List.map (fun ((nm, o), ot) -> hx nm ^ ":" ^ b01 o ^ ":" ^ (match ot with None -> "_" | Some t -> ser_dtype t)) ps)
    ^ ")->(" ^ String.concat ";" (List.map ser_dtype rs) ^ ")"
  | DUnion ts -> "u[" ^ String.concat "|" (List.map ser_dtype ts) ^ "]"

(* ---- decoding the comma-separated prefix encoding of spec trees produced by checks/c16.py *)
exception Bad of string
let rd_hex s = bytes_of_hex s
let rd_bool s = match s with "1" -> true | "0" -> false | _ -> raise (Bad ("bool " ^ s))
let rec rd_n k f toks = if k = 0 then ([], toks) else let (x, r) = f toks in let (xs, r') = rd_n (k - 1) f r in (x :: xs, r')
let rec rd_type toks : dtype * string list =
  match toks with
  | "N" :: h :: r -> (DName (rd_hex h), r)
  | "C" :: h :: q :: r -> (DConst (rd_hex h, rd_bool q), r)
  | "A" :: r -> let (i, r) = rd_type r in (DArray i, r)
  | "T0" :: r -> (DTable0, r)
  | "T" :: r -> let (k, r) = rd_type r in let (v, r) = rd_type r in (DTable (k, v), r)
  | "F" :: r -> let (ps, rs, r) = rd_fun r in (DFun (ps, rs), r)
  | "U" :: k :: r -> let (ts, r) = rd_n (int_of_string k) rd_type r in (DUnion ts, r)
  | t :: _ -> raise (Bad ("type " ^ t))
  | [] -> raise (Bad "type eof")
and rd_fun toks =
  match toks with
  | np :: r ->
    let rd_param toks = (match toks with
      | h :: o :: "1" :: r -> let (t, r) = rd_type r in (((rd_hex h, rd_bool o), Some t), r)
      | h :: o :: "0" :: r -> (((rd_hex h, rd_bool o), None), r)
      | _ -> raise (Bad "param")) in
    let (ps, r) = rd_n (int_of_string np) rd_param r in
    (match r with
     | nr :: r -> let (rs, r) = rd_n (int_of_string nr) rd_type r in (ps, rs, r)
     | [] -> raise (Bad "fun eof"))
  | [] -> raise (Bad "fun eof")
let rd_cmt toks = match toks with
  | "_" :: r -> (None, r)
  | c :: r when String.length c >= 1 && c.[0] = 'c' -> (Some (rd_hex (String.sub c 1 (String.length c - 1))), r)
  | _ -> raise (Bad "comment")
let rd_stat (toks : string list) : dstat =
  let fin (s, r) = if r <> [] then raise (Bad "trailing") else s in
  match toks with
  | "type" :: k :: r ->
    let item toks = (match toks with c :: e :: r -> let (t, r) = rd_type r in (((rd_bool c, rd_bool e), t), r) | _ -> raise (Bad "item")) in
    let (items, r) = rd_n (int_of_string k) item r in let (c, r) = rd_cmt r in fin (DSType (items, c), r)
  | "alias" :: h :: r -> let (t, r) = rd_type r in let (c, r) = rd_cmt r in fin (DSAlias (rd_hex h, t, c), r)
  | "class" :: h :: k :: r ->
    let (ps, r) = rd_n (int_of_string k) (fun toks -> match toks with p :: r -> (rd_hex p, r) | [] -> raise (Bad "parent")) r in
    let (c, r) = rd_cmt r in fin (DSClass (rd_hex h, ps, c), r)
  | "overload" :: r -> let (ps, rs, r) = rd_fun r in let (c, r) = rd_cmt r in fin (DSOverload (ps, rs, c), r)
  | "field" :: sc :: co :: h :: r ->
    let sc = if sc = "_" then None else Some (n_of_int (int_of_string sc)) in
    let (t, r) = rd_type r in let (c, r) = rd_cmt r in fin (DSField (sc, rd_bool co, rd_hex h, t, c), r)
  | "param" :: isc :: h :: o :: r ->
    let (t, r) = rd_type r in let (c, r) = rd_cmt r in fin (DSParam (rd_bool isc, rd_hex h, rd_bool o, t, c), r)
  | "return" :: k :: r ->
    let item toks = (let (t, r) = rd_type toks in match r with o :: r -> ((t, rd_bool o), r) | [] -> raise (Bad "ret")) in
    let (items, r) = rd_n (int_of_string k) item r in let (c, r) = rd_cmt r in fin (DSReturn (items, c), r)
  | "generic" :: k :: r ->
    let item toks = (match toks with
      | h :: "_" :: r -> ((rd_hex h, None), r)
      | h :: p :: r when String.length p >= 1 && p.[0] = 'p' -> ((rd_hex h, Some (rd_hex (String.sub p 1 (String.length p - 1)))), r)
      | _ -> raise (Bad "generic")) in
    let (items, r) = rd_n (int_of_string k) item r in let (c, r) = rd_cmt r in fin (DSGeneric (items, c), r)
  | "vararg" :: r -> let (t, r) = rd_type r in let (c, r) = rd_cmt r in fin (DSVararg (t, c), r)
  | "enum" :: st :: r -> let (c, r) = rd_cmt r in fin (DSEnum (rd_bool st, c), r)
  | _ -> raise (Bad "stat")

let toks_of s = String.split_on_char ',' s
let head2 : n list = bytes_of_string "-@"

(* lines of a case: comma separated hex, numbered 1.. *)
let lines_of (f : string) : (n * n list) list =
  List.mapi (fun i h -> (n_of_int (i + 1), bytes_of_hex h)) (String.split_on_char ',' f)

let classes l = match List.filter (fun (_, b) -> b) l with [] -> "-" | xs -> String.concat "," (List.map fst xs)

(* generator helper: "<spec> <c|p>" -> "<hex of the comment line> <doc_stat>" *)
let () = register "c16.show" (fun line ->
  match split_ws line with
  | [sp; pr] ->
    let s = rd_stat (toks_of sp) in
    let txt = if pr = "p" then show_line_plain s else show_line s in
    hx (head2 @ txt) ^ " " ^ b01 (doc_stat s)
  | _ -> "BAD-CASE")

(* generator helper: "<type spec> <c|p>" -> "<hex of the type text> <doc_type>" *)
let () = register "c16.showtype" (fun line ->
  match split_ws line with
  | [sp; pr] ->
    let (t, r) = rd_type (toks_of sp) in
    if r <> [] then "BAD-CASE" else
    hx (if pr = "p" then show_type_plain t else show_type t) ^ " " ^ b01 (doc_type t)
  | _ -> "BAD-CASE")

(* case: "<hex line> <spec | -> <c|p>"; the class labels nested_array / enum_comment (and printer_union, alias_lines
   below) belong to repaired findings: they only tag the cases, no deviation is accepted for them any more *)
let () = register "c16.line" (fun line ->
  match split_ws line with
  | h :: rest ->
    let ls = lines_of h in
    let m = ser_res (parse_fragment ls) in
    (match rest with
     | sp :: pr :: _ when sp <> "-" ->
       let s = rd_stat (toks_of sp) in
       let txt = head2 @ (if pr = "p" then show_line_plain s else show_line s) in
       if not (doc_stat s) || ls <> [(n_of_int 1, txt)] then "BAD-CASE\tBAD-CASE\t-" else
       (* the plain text `T[][]` is read as ArrayType{ArrayType T}, the canonical `(T[])[]` as ArrayType{MultiType{ArrayType T}} *)
       let spec = ser_frag { f_stats = [if pr = "p" then embed_line_plain s else embed_line s]; f_lines = [n_of_int 1]; f_errs = [] } in
       m ^ "\t" ^ spec ^ "\t" ^ classes [("nested_array", pr = "p" && stat_nested_array s); ("enum_comment", enum_with_comment s)]
     | _ -> m ^ "\t-\t-")
  | _ -> "BAD-CASE")

(* case: "<hex lines>"; spec = every unit (line + its continuation lines) read on its own, lines aligned.
   cont_after_bad / alias_lines tag the cases of the repaired findings (no deviation is accepted for them) *)
let () = register "c16.fragment" (fun line ->
  match split_ws line with
  | h :: _ ->
    let ls = lines_of h in
    ser_res (parse_fragment ls) ^ "\t" ^ ser_res (parse_fragment_spec ls) ^ "\t"
    ^ classes [("cont_after_bad", frag_cont_after_bad ls); ("alias_lines", frag_has_empty_alias ls)]
  | _ -> "BAD-CASE")

(* the same lines embedded in a Lua file: one comment block, same result as ParseCommentFragment on the lines *)
let () = register "c16.file" (fun line ->
  match split_ws line with
  | h :: _ -> ser_res (parse_fragment (lines_of h)) ^ "\t-\t-"
  | _ -> "BAD-CASE")

(* an example line of the manual must be accepted: exactly one statement, no error *)
let () = register "c16.doc" (fun line ->
  match split_ws line with
  | h :: _ ->
    (match parse_fragment (lines_of h) with
     | Ok { f_stats = [_]; f_lines = [_]; f_errs = [] } -> "accepted"
     | Ok fr -> Printf.sprintf "rejected stats=%d errs=%d" (List.length fr.f_stats) (List.length fr.f_errs)
     | Fault _ -> "PANIC"
     | OutOfFuel -> "TIMEOUT") ^ "\taccepted\t-"
  | _ -> "BAD-CASE")

let () = register "c16.total" (fun line ->
  match split_ws line with
  | h :: _ ->
    (match parse_fragment (lines_of h) with
     | Ok fr -> Printf.sprintf "ok %d %d %d" (List.length fr.f_stats) (List.length fr.f_lines) (List.length fr.f_errs)
     | Fault _ -> "PANIC"
     | OutOfFuel -> "TIMEOUT") ^ "\t-\t-"
  | _ -> "BAD-CASE")

(* printer: case "<hex type text>" *)
let type_line = bytes_of_string "-@type "
let first_type (txt : n list) : (atype * n list * int) option =
  match parse_fragment [(n_of_int 1, type_line @ txt)] with
  | Ok { f_stats = [SType (items, c)]; f_errs = []; _ } ->
    (match items with ((_, t) :: _) -> Some (t, c, List.length items) | [] -> None)
  | _ -> None
(* model = TypeConvertStr of the code as it is (Model/AnnAst.v: deployed), the printed text read again;
   spec = the re-read type is the documented type the tree denotes, nothing left as comment -- demanded for every
   tree that denotes a documented type (doc_type; the only parser outputs outside are string constants that
   contain a quote character).  Classes: printer_fun is the open finding; printer_const / printer_union /
   printer_nested_union tag the cases of the repaired ones. *)
let () = register "c16.print" (fun line ->
  match split_ws line with
  | h :: _ ->
    (match first_type (bytes_of_hex h) with
     | None -> "SRC-ERR\tSRC-ERR\t-"
     | Some (a, _, _) ->
       let printed = type_convert_str a in
       let d = abs a in
       let cls = classes [("printer_fun", has_fun d); ("printer_const", has_const d); ("printer_union", has_paren_item d);
                          ("printer_nested_union", has_union_in_union d)] in
       let spec = if doc_type d then hx printed ^ " " ^ ser_dtype d ^ " -" else "-" in
       let model =
         (match parse_fragment [(n_of_int 1, type_line @ printed)] with
          | Ok { f_errs = _ :: _; _ } -> hx printed ^ " ERR -"
          | Ok { f_stats = [SType ([(_, t)], c)]; _ } -> hx printed ^ " " ^ ser_dtype (abs t) ^ " " ^ hx c
          | Ok _ -> hx printed ^ " NONE -"
          | Fault _ -> "PANIC"
          | OutOfFuel -> "TIMEOUT") in
       model ^ "\t" ^ spec ^ "\t" ^ cls)
  | _ -> "BAD-CASE")

(* which repairs the model has: "const=1 union=1 fun=0 cont=1" (recorded by checks/c16.py in the evidence) *)
let () = register "c16.fixes" (fun _ ->
  Printf.sprintf "const=%s union=%s fun=%s cont=%s" (b01 deployed.fx_const) (b01 deployed.fx_union)
    (b01 deployed.fx_fun) (b01 deployed.fx_cont))

(* server-level leg (harness/legs_c16.go c16.server): the real server on a comment block with a malformed line against the
   real server on the same block with that line turned into a remark; there is no model of the glue after
   ParseCommentFragment (hover / completion), the demanded observable "=" is a constant (like c08.query) *)
let () = register "c16.server" (fun _ -> "=\t=\t-")

let () = main ()
