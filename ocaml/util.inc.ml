(* ---- util.inc.ml: textually appended after the extracted model (types nat, positive, n, z in scope) ---- *)
let rec pos_of_int (i : int) : positive =
  if i <= 1 then XH else if i land 1 = 0 then XO (pos_of_int (i lsr 1)) else XI (pos_of_int (i lsr 1))
let rec int_of_pos (p : positive) : int =
  match p with XH -> 1 | XO q -> 2 * int_of_pos q | XI q -> 2 * int_of_pos q + 1
let n_of_int (i : int) : n = if i <= 0 then N0 else Npos (pos_of_int i)
let int_of_n (x : n) : int = match x with N0 -> 0 | Npos p -> int_of_pos p
let z_of_int (i : int) : z = if i = 0 then Z0 else if i > 0 then Zpos (pos_of_int i) else Zneg (pos_of_int (-i))
let int_of_z (x : z) : int = match x with Z0 -> 0 | Zpos p -> int_of_pos p | Zneg p -> - (int_of_pos p)
(* arbitrary-size decimal printing (OCaml ints are 63-bit; int64 values such as 2^63-1 must print exactly) *)
let dec_of_pos (p : positive) : string =
  let rec bits p acc = match p with XH -> 1 :: acc | XO q -> bits q (0 :: acc) | XI q -> bits q (1 :: acc) in
  let digits = ref [0] in    (* little endian decimal digits *)
  List.iter (fun b ->
    let carry = ref b in
    digits := List.map (fun d -> let v = d * 2 + !carry in carry := v / 10; v mod 10) !digits;
    if !carry > 0 then digits := !digits @ [!carry]) (bits p []);
  String.concat "" (List.rev_map string_of_int !digits)
let dec_of_n (x : n) : string = match x with N0 -> "0" | Npos p -> dec_of_pos p
let dec_of_z (x : z) : string = match x with Z0 -> "0" | Zpos p -> dec_of_pos p | Zneg p -> "-" ^ dec_of_pos p
let rec nat_of_int (i : int) : nat = if i <= 0 then O else S (nat_of_int (i - 1))
let int_of_nat (x : nat) : int = let rec go acc = function O -> acc | S k -> go (acc + 1) k in go 0 x

let hexval c = match c with
  | '0'..'9' -> Char.code c - 48 | 'a'..'f' -> Char.code c - 87 | 'A'..'F' -> Char.code c - 55
  | _ -> failwith "bad hex"
(* "-" encodes the empty string *)
let bytes_of_hex (s : string) : n list =
  if s = "-" then [] else begin
    let len = String.length s / 2 in
    let rec go i acc = if i < 0 then acc else go (i - 1) (n_of_int (hexval s.[2*i] * 16 + hexval s.[2*i+1]) :: acc) in
    go (len - 1) []
  end
let hex_of_bytes (l : n list) : string =
  if l = [] then "-" else begin
    let b = Buffer.create 64 in
    List.iter (fun x -> Buffer.add_string b (Printf.sprintf "%02x" (int_of_n x))) l; Buffer.contents b
  end
let string_of_bytes (l : n list) : string =
  let b = Buffer.create 64 in List.iter (fun x -> Buffer.add_char b (Char.chr ((int_of_n x) land 255))) l; Buffer.contents b
let bytes_of_string (s : string) : n list =
  List.init (String.length s) (fun i -> n_of_int (Char.code s.[i]))
let split_ws (s : string) : string list =
  List.filter (fun x -> x <> "") (String.split_on_char ' ' s)
let bool_s b = if b then "1" else "0"

let legs : (string, string -> string) Hashtbl.t = Hashtbl.create 16
let register name f = Hashtbl.replace legs name f
(* protocol: argv[1] = leg name; one case per stdin line; one answer line per case (flushed) *)
let main () =
  let leg = Sys.argv.(1) in
  let f = try Hashtbl.find legs leg with Not_found -> (prerr_endline ("unknown leg " ^ leg); exit 2) in
  (try while true do
      let line = input_line stdin in
      let out = (try f line with e -> "MODEL-EXN " ^ Printexc.to_string e) in
      print_string out; print_char '\n'; flush stdout
    done with End_of_file -> ())
