(* include: lua_ser.inc.ml srv_case.inc.ml *)
(* C07 driver. Answer line: <model>\t<spec>\t<classes>
   case = the scripted-server format (F:<hex path>:<hex content> ... S:diags). *)

let nm (s : string) : n list = bytes_of_string s

(* the name sets of common/global_conf.go in the configuration the harness fixes (client mode, LocalRun, all checks on);
   tied to the running server by leg c07.conf *)
let ignored_names = ["debug"; "math"; "os"; "io"; "coroutine"; "utf8"; "table"; "string"; "package"; "bit"; "bit32"; "jit";
  "arg"; "_G"; "_VERSION"; "assert"; "collectgarbage"; "dofile"; "error"; "getfenv"; "getmetatable"; "ipairs"; "load";
  "loadfile"; "loadstring"; "module"; "next"; "pairs"; "pcall"; "print"; "rawequal"; "rawget"; "rawlen"; "rawset";
  "require"; "select"; "setfenv"; "setmetatable"; "tonumber"; "tostring"; "type"; "warn"; "xpcall"; "unpack"]
let luain_names = ["_VERSION"; "_ENV"; "_env"; "self"; "assert"; "collectgarbage"; "dofile"; "error"; "getmetatable"; "ipairs";
  "load"; "loadfile"; "next"; "pairs"; "pcall"; "print"; "rawequal"; "rawget"; "rawlen"; "rawset"; "require"; "select";
  "setmetatable"; "tonumber"; "tostring"; "type"; "xpcall"; "loadstring"; "import"; "_G"; "coroutine"; "debug"; "io"; "file";
  "math"; "os"; "package"; "string"; "table"; "utf8"]
let sysnouse_names = ["assert"; "collectgarbage"; "dofile"; "error"; "getmetatable"; "ipairs"; "load"; "loadfile"; "next";
  "pairs"; "pcall"; "print"; "rawequal"; "rawget"; "rawlen"; "rawset"; "require"; "select"; "setmetatable"; "tonumber";
  "tostring"; "type"; "xpcall"; "coroutine"; "debug"; "io"; "file"; "math"; "os"; "package"; "string"; "table"; "utf8"]
let locnouse_names : string list = []

let the_cfg : cfg = { c_ignored = List.map nm ignored_names; c_luain = List.map nm luain_names;
                      c_sysnouse = List.map nm sysnouse_names; c_locnouse = List.map nm locnouse_names }

let diag_s ((t, l) : diag) : string =
  Printf.sprintf "%d@%d:%d-%d:%d" (int_of_n t) (int_of_z l.sl - 1) (int_of_z l.sc) (int_of_z l.el - 1) (int_of_z l.ec)

let file_s (path : string) (ds : diag list) : string option =
  let l = List.sort_uniq compare (List.map diag_s ds) in
  if l = [] then None else Some (path ^ "{" ^ String.concat "," l ^ "}")

let render (per_file : (string * diag list) list) : string =
  let sorted = List.sort (fun (a, _) (b, _) -> compare a b) per_file in
  "diags=[" ^ String.concat ";" (List.filter_map (fun (p, ds) -> file_s p ds) sorted) ^ "]"

let rec remove_nth i = function [] -> [] | x :: r -> if i = 0 then r else x :: remove_nth (i - 1) r

(* the luahelper.json route: the case carries the file `luahelper.json` for the server (F: item) and, for this side, the same
   settings as G: items (checks/c07.py writes both from one description):
     G:f:<hex File text>:<hex name>,<hex name>...   one IgnoreFileVars entry: the names are configured-ignored in every file whose
                                                    path CONTAINS the File text (the workspace root never does: checks/c07.py)
     G:m:<hex name>,...                             IgnoreModules: configured-ignored in every file
     G:l:<hex name>,...                             IgnoreLocalNoUseVars
   The name sets are parameters of the theorems; every file is evaluated with ITS sets: IsIgnoreFileDefineVar is asked
   directly after IsIgnoreNameVar at each of its three call sites, so "ignored name" of file p = the global list + the
   names of ALL entries that match p. *)
type c07_conf = { per_file : (string * string list) list; modules : string list; locnouse : string list }

let contains (s : string) (sub : string) : bool =
  let n = String.length s and m = String.length sub in
  let rec go i = i + m <= n && (String.sub s i m = sub || go (i + 1)) in
  go 0

let parse_conf (line : string) : c07_conf =
  let names s = if s = "-" || s = "" then [] else List.map (fun h -> string_of_bytes (bytes_of_hex h)) (String.split_on_char ',' s) in
  List.fold_left (fun c it ->
    match String.split_on_char ':' it with
    | ["G"; "f"; pat; ns] -> { c with per_file = c.per_file @ [(string_of_bytes (bytes_of_hex pat), names ns)] }
    | ["G"; "m"; ns] -> { c with modules = c.modules @ names ns }
    | ["G"; "l"; ns] -> { c with locnouse = c.locnouse @ names ns }
    | _ -> c) { per_file = []; modules = []; locnouse = [] } (split_ws line)

let cfg_of (cf : c07_conf) (path : string) : cfg =
  let extra = List.concat (List.map (fun (pat, ns) -> if contains ("/" ^ path) pat then ns else []) cf.per_file) in
  { the_cfg with c_ignored = the_cfg.c_ignored @ List.map nm (cf.modules @ extra);
                 c_locnouse = the_cfg.c_locnouse @ List.map nm cf.locnouse }

let () = register "c07.diags" (fun line ->
  let cs = parse_srv_case line in
  let cf = parse_conf line in
  let cs = { cs with files = List.filter (fun (p, _) -> p <> "luahelper.json") cs.files } in
  oracle_used := false;
  let parsed = List.map (fun (p, bs) -> (p, parse_file gbk_oracle bs)) cs.files in
  if !oracle_used then "SKIP-ORACLE\t-\t-" else
  if List.exists (fun (_, r) -> match r with PSkip _ -> true | _ -> false) parsed then "SKIP-SYNTAX\t-\t-" else
  let blocks = List.map (fun (p, r) -> match r with PFile b -> (p, b) | PSkip _ -> assert false) parsed in
  if List.exists (fun (_, b) -> not (in_fragment b)) blocks then "SKIP-FRAGMENT\t-\t-" else
  let gn = List.map (fun (p, b) -> gnames (s1_gmap (first_pass (cfg_of cf p) b))) blocks in
  let all = List.concat gn in
  let others i = List.concat (remove_nth i gn) in
  let model = List.mapi (fun i (p, b) -> (p, go_diags (cfg_of cf p) b all (others i))) blocks in
  let spec = List.mapi (fun i (p, b) -> (p, spec_diags (cfg_of cf p) b (others i))) blocks in
  let cls = ref [] in
  (* class multi_local_order: repaired (fixes/C07-multi-local-order.diff) - `multi_local_order b` no longer excuses a deviation *)
  (* the guards of C07_diags_agree_partial that come from the layout of the Locs (all implied by Laid, theorem
     C07_laid_pos_clean / C07_laid_distinct): position filter clean, declaration Locs pairwise distinct, flags ok.
     They fail only through the lexer's column defects (C04 findings): one class, one finding *)
  if List.exists (fun (_, b) -> not (pos_clean b) || not (decl_locs_distinct b) || not (flags_ok b)) blocks then cls := "pos_filter" :: !cls;
  (* class later_elsewhere: repaired (fixes/C07-later-elsewhere.diff) - `later_elsewhere b others` no longer excuses a deviation *)
  render model ^ "\t" ^ render spec ^ "\t" ^ (if !cls = [] then "-" else String.concat "," (List.rev !cls)))

(* tie of the configured name sets: case = hex name; answer = four bits ignored/luain/sysnouse/locnouse *)
let () = register "c07.conf" (fun line ->
  let s = string_of_bytes (bytes_of_hex (List.hd (split_ws line))) in
  let b l = if List.mem s l then "1" else "0" in
  b ignored_names ^ b luain_names ^ b sysnouse_names ^ b locnouse_names ^ "\t-\t-")

(* debugging aid: the linearised traversal and the reference occurrences of one file *)
let () = register "c07.dump" (fun line ->
  let bs = bytes_of_hex (List.hd (split_ws line)) in
  match parse_file gbk_oracle bs with
  | PSkip _ -> "SKIP"
  | PFile b ->
    let buf = Buffer.create 256 in
    let ls (l : loc) = Printf.sprintf "%d:%d" (int_of_z l.sl - 1) (int_of_z l.sc) in
    List.iter (fun a -> Buffer.add_string buf (match a with
      | APush -> "{ " | APop -> "} "
      | AAdd v -> Printf.sprintf "+%s@%s " (string_of_bytes v.v_name) (ls v.v_loc)
      | ARead (n, l, flv, su, ci) -> Printf.sprintf "r:%s@%s/%d%s%s " (string_of_bytes n) (ls l) (int_of_n flv) (if su then "S" else "") (if ci then "C" else "")
      | AWrite (n, l, flv, slv, _) -> Printf.sprintf "w:%s@%s/%d.%d " (string_of_bytes n) (ls l) (int_of_n flv) (int_of_n slv))) (trace b);
    Buffer.add_string buf "|| ";
    List.iter (fun o -> Buffer.add_string buf (match o with
      | ORead (n, l, bd, _) -> Printf.sprintf "r:%s@%s->%s " (string_of_bytes n) (ls l) (match bd with BLocal d -> ls d | BGlobal -> "G")
      | OWrite (n, l, bd, _, _, _) -> Printf.sprintf "w:%s@%s->%s " (string_of_bytes n) (ls l) (match bd with BLocal d -> ls d | BGlobal -> "G"))) (file_occs b);
    Buffer.contents buf)

let () = main ()
