(* include: lua_ser.inc.ml srv_case.inc.ml *)
(* C20 driver: pattern checks. Case = scripted-server case with one file + S:diags.
   Answer line: <model R[type@range,...]>\t<spec R[...] or - for a file with syntax errors>\t<classes or -> *)

(* oracle behind the Section variable fclose: math.Abs(v1 - v2) < 0.000001 on the doubles denoted by two float
   tokens (strconv.ParseFloat is correctly rounded, like strtod); "" = the Val 0 of a rejected numeral *)
let float_of_tok (t : n list) : float =
  let s = String.lowercase_ascii (string_of_bytes t) in
  if s = "" then 0.0 else (try float_of_string s with _ -> 0.0)
let fclose_oracle (a : n list) (b : n list) : bool =
  abs_float (float_of_tok a -. float_of_tok b) < 0.000001

(* the variant of the model: [deployed] (= the state of /repo) decides; C20_MODEL_FIXES=none|all runs the model of the
   code as found / of all prepared repairs instead (to validate those variants against a tree in that state) *)
let fixes : fixes = match Sys.getenv_opt "C20_MODEL_FIXES" with
  | Some "none" -> no_fixes | Some "all" -> all_fixes | _ -> deployed

(* lspcommon.LocToRange: uint32(line) - 1, uint32(column) *)
let u32 (x : int) = x land 0xFFFFFFFF
let range_s (l : loc) =
  Printf.sprintf "%d:%d-%d:%d" (u32 (int_of_z l.sl - 1)) (u32 (int_of_z l.sc)) (u32 (int_of_z l.el - 1)) (u32 (int_of_z l.ec))
let show (items : (int * loc) list) : string =
  "R[" ^ String.concat "," (List.sort compare (List.map (fun (ty, l) -> Printf.sprintf "%d@%s" ty (range_s l)) items)) ^ "]"

let cls_s = function
  | CUnvisited -> "unvisited_local_surplus" | C14Collision -> "t14_name_collision" | C14Unnamed -> "t14_unnamed_operand"
  | C1516Nil -> "t15_t16_nil_operand" | C5IntPlace -> "t5_int_key_place" | C5Collision -> "t5_key_collision"
  | C5Empty -> "t5_empty_string_key" | C19Else -> "t19_else" | C19NilPlace -> "t19_nil_place"
  | C19Parens -> "t19_parens" | C20Parens -> "t20_parens" | CLocCollision -> "place_loc_collision" | CUnexplained -> "unexplained"

let () = register "c20.diags" (fun line ->
  let c = parse_srv_case line in
  let bs = match c.files with (_, b) :: _ -> b | [] -> [] in
  oracle_used := false;
  let r = check_bytes fixes fclose_oracle gbk_oracle classify_tok bs in
  if !oracle_used then "SKIP-ORACLE\t-\t-" else
  match r with
  | OutOfFuel -> "SKIP-MODEL-OUT-OF-FUEL\t-\t-"
  | Fault _ -> "SKIP-MODEL-FAULT\t-\t-"
  | Ok o when fixes.fx_else && not o.o_else_exact ->
    (* IfStat.HasElse cannot be told from the Locs of the `else` tokens (a Loc collision, or a stray `else` in a file
       with syntax errors): Model/Patterns.v has_else, PatternsClasses.else_exact *)
    "SKIP-ELSE-AMBIGUOUS\t-\t-"
  | Ok o ->
    let m = show (List.map (fun (r : report) -> (int_of_n r.r_ty, r.r_loc)) o.o_model) in
    if not o.o_valid then m ^ "\t-\t-" else
    let s = show (List.map (fun (ty, l) -> (int_of_n ty, l)) o.o_spec) in
    let cl = match o.o_classes with [] -> "-" | l -> String.concat "," (List.map cls_s l) in
    m ^ "\t" ^ s ^ "\t" ^ cl)

let () = main ()
