(* include: lua_ser.inc.ml lua_legs.inc.ml *)
(* C01 driver. c01.parse: the front end on arbitrary bytes (spec: the parser returns, i.e. no swallowed panic, crash or hang).
   c01.server: robustness leg over the whole server: no executable model of the whole server exists; the model line is the
   constant the property demands ("ALIVE"), the implementation line is projected to ALIVE / CRASH.. / TIMEOUT by the check. *)
let () = register "c01.parse" (fun line ->
  let bs = bytes_of_hex (List.hd (split_ws line)) in
  parse_model ~nolocs:true bs ^ "\tALIVE\t-")
let () = register "c01.server" (fun _ -> "ALIVE\tALIVE\t-")
let () = main ()
