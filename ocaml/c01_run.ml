(* include: lua_ser.inc.ml lua_legs.inc.ml *)
(* C01 driver. c01.parse: the front end on arbitrary bytes (spec: the parser returns, i.e. no swallowed panic, crash or hang).
   c01.server: robustness leg over the whole server: no executable model of the whole server exists; the model line is the
   constant the property demands ("ALIVE"), the implementation line is projected to ALIVE / CRASH.. / TIMEOUT by the check.
   c01.deep: deep-nesting cases `<construct> <depth> <route> <hex text or ->`. The model parser returns for EVERY input
   (theorem C01_parse_total) with a recursion depth linear in the input (C01_parse_depth_linear); the limit of the Go stack
   is outside the model (C01_parse_depth_unbounded_refuted: no constant depth suffices), so the model observable is ALIVE.
   When the check passes the text along (small depths) the extracted parser is really run on it: anything but Ok is
   printed and breaks the correspondence. *)
let () = register "c01.parse" (fun line ->
  let bs = bytes_of_hex (List.hd (split_ws line)) in
  parse_model ~nolocs:true bs ^ "\tALIVE\t-")
let () = register "c01.server" (fun _ -> "ALIVE\tALIVE\t-")
let () = register "c01.deep" (fun line ->
  let m = match split_ws line with
    | [_; _; _; h] when h <> "-" ->
      let r = parse_model ~nolocs:true (bytes_of_hex h) in
      if String.length r >= 5 && String.sub r 0 5 = "MODEL" then r else "ALIVE"
    | _ -> "ALIVE" in
  m ^ "\tALIVE\t-")
let () = main ()
