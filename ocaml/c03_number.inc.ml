(* ---- c03_number.inc.ml: legs c03.number / c03.hexfloat (numeral classification; fragment of the C03 driver, no main) ----
   case  : hex of the number token text
   answer: <model>\t<spec>\t-
     model   = classify_number (Model/Number.v):  "I <int64>" | "F" | "BAD" | "PANIC index" | "PANIC slice"
     spec    = spec_value (Spec/LuaNumeral.v):     "I <int64>" | "F" | "BAD";  "-" when the text is not num_clean
               (white space, underscore or a leading sign: never a token of the lexer, the grammar says nothing)
     no deviation classes since fix 8dd49c7 (theorem number_classify_exact: model = spec on every clean text) *)
let c03n_int64_of_pos (p : positive) : int64 =
  let rec go p = match p with
    | XH -> 1L
    | XO q -> Int64.mul 2L (go q)
    | XI q -> Int64.add (Int64.mul 2L (go q)) 1L in
  go p
let c03n_z_s (x : z) : string =
  match x with
  | Z0 -> "0"
  | Zpos p -> Int64.to_string (c03n_int64_of_pos p)
  | Zneg p -> Int64.to_string (Int64.neg (c03n_int64_of_pos p))   (* -2^63: 2^63 wraps to min_int, neg keeps it *)

let () = register "c03.number" (fun line ->
  match split_ws line with
  | h :: _ ->
    let s = bytes_of_hex h in
    let m = match classify_number s with
      | Ok (NumInt v) -> "I " ^ c03n_z_s v
      | Ok NumFloat -> "F"
      | Ok NumBad -> "BAD"
      | Fault IndexRange -> "PANIC index"
      | Fault SliceBounds -> "PANIC slice"
      | Fault _ -> "PANIC other"
      | OutOfFuel -> "OUTOFFUEL" in
    let sp = if not (num_clean s) then "-" else
      match spec_value s with
      | Some (IntegerValue v) -> "I " ^ c03n_z_s v
      | Some FloatValue -> "F"
      | None -> "BAD" in
    m ^ "\t" ^ sp ^ "\t-"
  | [] -> "BAD-CASE")

(* c03.hexfloat: case = hex of the text handed to parseHexFloat; answer "<re_hex_float> <parse_hex_float ok>".
   spec column: theorem parse_hex_float_char says both are always equal (and no fault), i.e. "<b> <b>". *)
let () = register "c03.hexfloat" (fun line ->
  match split_ws line with
  | h :: _ ->
    let s = bytes_of_hex h in
    let re = re_hex_float s in
    let m = match parse_hex_float s with
      | Ok b -> bool_s b
      | Fault IndexRange -> "PANIC index"
      | Fault SliceBounds -> "PANIC slice"
      | Fault _ -> "PANIC other"
      | OutOfFuel -> "OUTOFFUEL" in
    bool_s re ^ " " ^ m ^ "\t" ^ bool_s re ^ " " ^ bool_s re ^ "\t-"
  | [] -> "BAD-CASE")
