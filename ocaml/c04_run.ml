(* include: lua_ser.inc.ml lua_legs.inc.ml *)
(* C04 driver. case: "<hex bytes> <code points csv | ->". Answer: <token stream>\t<spec>\t<classes> *)
let () = register "c04.toks" (fun line ->
  match split_ws line with
  | h :: c :: _ ->
    let bs = bytes_of_hex h in
    let cps = if c = "-" then [] else List.map (fun x -> n_of_int (int_of_string x)) (String.split_on_char ',' c) in
    if utf8_of cps <> bs then "BAD-CASE" else
    let (obs, lts) = lex_model bs in
    if String.length obs >= 4 && String.sub obs 0 4 = "SKIP" then obs ^ "\t-\t-" else
    let cls = List.filter_map (fun (nm, b) -> if b then Some nm else None)
        [ ("escape", cls_escape cps); ("long_bracket", cls_long_bracket cps); ("astral", cls_astral cps);
          ("two_byte", cls_two_byte cps); ("lfcr", cls_lfcr cps); ("bom", cls_bom cps); ("lexerr", cls_lexerr lts) ] in
    let cov = all_tokens_covered cps lts in
    (* the spec demands that every raw token is covered by its range; "gcov" = Gallina's own verdict on the model's Locs *)
    obs ^ "\tCOVERED\t" ^ String.concat "," ((if cov then "gcov1" else "gcov0") :: cls)
  | _ -> "BAD-CASE")

(* names leg: the parser's AST with every Loc; the spec (every name-bearing node's range covers exactly its identifier)
   is read off the observable by checks/c04.py; classes = the refuted file classes of C04_tok_range_exact *)
let () = register "c04.names" (fun line ->
  match split_ws line with
  | h :: c :: _ ->
    let bs = bytes_of_hex h in
    let cps = if c = "-" then [] else List.map (fun x -> n_of_int (int_of_string x)) (String.split_on_char ',' c) in
    if utf8_of cps <> bs then "BAD-CASE" else
    let obs = parse_model bs in
    if String.length obs >= 4 && String.sub obs 0 4 = "SKIP" then obs ^ "\t-\t-" else
    let cls = List.filter_map (fun (nm, b) -> if b then Some nm else None)
        [ ("escape", cls_escape cps); ("long_bracket", cls_long_bracket cps); ("astral", cls_astral cps);
          ("two_byte", cls_two_byte cps); ("lfcr", cls_lfcr cps); ("bom", cls_bom cps) ] in
    obs ^ "\tNAMESCOVERED\t" ^ (match cls with [] -> "-" | l -> String.concat "," l)
  | _ -> "BAD-CASE")

let () = register "c04.errlocs" (fun line ->
  match split_ws line with
  | h :: _ -> fst (lex_model ~always:true (bytes_of_hex h)) ^ "\t-\t-"
  | _ -> "BAD-CASE")

let () = main ()
