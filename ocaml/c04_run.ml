(* include: lua_ser.inc.ml lua_legs.inc.ml srv_case.inc.ml *)
(* C04 driver. case: "<hex bytes> <code points csv | ->". Answer: <token stream>\t<spec>\t<classes> *)
let () = register "c04.toks" (fun line ->
  match split_ws line with
  | h :: c :: _ ->
    let bs = bytes_of_hex h in
    let cps = if c = "-" then [] else List.map (fun x -> n_of_int (int_of_string x)) (String.split_on_char ',' c) in
    if utf8_of cps <> bs then "BAD-CASE" else
    let (obs, lts) = lex_model bs in
    if String.length obs >= 4 && String.sub obs 0 4 = "SKIP" then obs ^ "\t-\t-" else
    let cls = List.filter_map (fun (nm, b) -> if b then Some nm else None)
        [ ("escape", cls_escape cps); ("long_bracket", cls_long_bracket cps); ("astral", cls_astral cps);
          ("two_byte", cls_two_byte cps); ("lfcr", cls_lfcr cps); ("bom", cls_bom cps); ("lexerr", cls_lexerr lts) ] in
    let cov = all_tokens_covered cps lts in
    (* the spec demands that every raw token is covered by its range; "gcov" = Gallina's own verdict on the model's Locs *)
    obs ^ "\tCOVERED\t" ^ String.concat "," ((if cov then "gcov1" else "gcov0") :: cls)
  | _ -> "BAD-CASE")

(* names leg: the parser's AST with every Loc; the spec (every name-bearing node's range covers exactly its identifier)
   is read off the observable by checks/c04.py; classes = the refuted file classes of C04_tok_range_exact *)
let () = register "c04.names" (fun line ->
  match split_ws line with
  | h :: c :: _ ->
    let bs = bytes_of_hex h in
    let cps = if c = "-" then [] else List.map (fun x -> n_of_int (int_of_string x)) (String.split_on_char ',' c) in
    if utf8_of cps <> bs then "BAD-CASE" else
    let obs = parse_model bs in
    if String.length obs >= 4 && String.sub obs 0 4 = "SKIP" then obs ^ "\t-\t-" else
    let cls = List.filter_map (fun (nm, b) -> if b then Some nm else None)
        [ ("escape", cls_escape cps); ("long_bracket", cls_long_bracket cps); ("astral", cls_astral cps);
          ("two_byte", cls_two_byte cps); ("lfcr", cls_lfcr cps); ("bom", cls_bom cps) ] in
    obs ^ "\tNAMESCOVERED\t" ^ (match cls with [] -> "-" | l -> String.concat "," l)
  | _ -> "BAD-CASE")

let () = register "c04.errlocs" (fun line ->
  match split_ws line with
  | h :: _ -> fst (lex_model ~always:true (bytes_of_hex h)) ^ "\t-\t-"
  | _ -> "BAD-CASE")

(* ------------------------------------------------------------------ c04.ranges: the ranges the REAL server sends.
   case = scripted-server case (F: files, S: steps) + the field "A:<answer of the server>" appended by the oracle leg
   c04.srvans.  There is no model of the handlers here: the model observable is the answer itself; the SPEC column is the
   answer again iff every range in it passes the judgement extracted from Coq (Proofs/ServerRange.v:
   range_in_doc for clause (i), range_designates / ranges_designate for clause (ii), proved sound by C04_designate_sound),
   otherwise "VIOL n: ..." listing the offending ranges.  Classes: the exact class predicates (also extracted) of the
   offending ranges when EVERY offending range of the case has one, else "-" (an unlisted deviation).
   Names written in COMMENTS (---@class / ---@alias / ---@field names, type names inside annotation types) are no tokens
   of the Lua lexer: ranges that designate them (documentSymbol / workspace symbol entries of kind Interface, definition
   answers for a cursor on an annotation type name or on a member resolved to a ---@field) are judged by the TEXT
   predicate text_designates (Proofs/ServerRangeText.v: the text under the range, LSP reading, is the name; sound for
   every document: C04_text_designate_sound); the name under a cursor that stands on no Lua identifier is word_at. *)
let utf8_decode (bs : n list) : n list option =
  let a = Array.of_list (List.map int_of_n bs) in
  let len = Array.length a in
  let out = ref [] and i = ref 0 and ok = ref true in
  let cont k = !i + k < len && a.(!i + k) land 0xC0 = 0x80 in
  while !ok && !i < len do
    let b = a.(!i) in
    if b < 0x80 then (out := b :: !out; incr i)
    else if b land 0xE0 = 0xC0 && cont 1 then (out := ((b land 0x1F) lsl 6) lor (a.(!i+1) land 0x3F) :: !out; i := !i + 2)
    else if b land 0xF0 = 0xE0 && cont 1 && cont 2 then
      (out := ((b land 0x0F) lsl 12) lor ((a.(!i+1) land 0x3F) lsl 6) lor (a.(!i+2) land 0x3F) :: !out; i := !i + 3)
    else if b land 0xF8 = 0xF0 && cont 1 && cont 2 && cont 3 then
      (out := ((b land 0x07) lsl 18) lor ((a.(!i+1) land 0x3F) lsl 12) lor ((a.(!i+2) land 0x3F) lsl 6) lor (a.(!i+3) land 0x3F) :: !out;
       i := !i + 4)
    else ok := false
  done;
  if !ok then Some (List.rev_map n_of_int !out) else None

type c04file = { rel : string; cps : n list; lts : ltok list; guard : bool; fcls : string list }

let c04_file (rel, bs) : c04file option =
  match utf8_decode bs with
  | None -> None
  | Some cps ->
    if utf8_of cps <> bs || not (List.for_all scalar cps) then None else begin
      oracle_used := false;
      let lts, lexok = (match lex_all gbk_oracle bs with Ok l -> (l, true) | _ -> ([], false)) in
      let cls = List.filter_map (fun (nm, b) -> if b then Some nm else None)
          [ ("escape", cls_escape cps); ("long_bracket", cls_long_bracket cps); ("astral", cls_astral cps);
            ("two_byte", cls_two_byte cps); ("lfcr", cls_lfcr cps); ("bom", cls_bom cps);
            ("lexerr", (not lexok) || cls_lexerr lts) ] in
      (* the guard of C04_designate_sound; a file that needed the GBK oracle is in class two_byte.  Clause (ii) is
         demanded of the files that also PARSE without error (what the server makes of the AST fragments of a file with
         syntax errors - entries named "]" or "(" - names no identifier) *)
      let parses = lexok && (match parse_bytes gbk_oracle classify_tok bs with Ok (PR (_, [], [])) -> true | _ -> false) in
      let guard = lexok && parses && (not !oracle_used) && file_class_ok cps && not (cls_lexerr lts) in
      Some { rel; cps; lts; guard; fcls = (if !oracle_used && not (List.mem "two_byte" cls) then "two_byte" :: cls else cls) }
    end

let parse_range (s : string) : range option =
  try Scanf.sscanf s "%d:%d-%d:%d%!" (fun a b c d ->
      if a < 0 || b < 0 || c < 0 || d < 0 then None else
      Some { r_start = { p_line = n_of_int a; p_ch = n_of_int b }; r_end = { p_line = n_of_int c; p_ch = n_of_int d } })
  with _ -> None

(* split "x,y[z,w],u" at top-level commas *)
let split_top (s : string) : string list =
  let out = ref [] and depth = ref 0 and cur = Buffer.create 64 in
  String.iter (fun ch ->
    if ch = ',' && !depth = 0 then (out := Buffer.contents cur :: !out; Buffer.clear cur)
    else begin
      if ch = '[' || ch = '{' then incr depth;
      if ch = ']' || ch = '}' then decr depth;
      Buffer.add_char cur ch
    end) s;
  if Buffer.length cur > 0 then out := Buffer.contents cur :: !out;
  List.rev !out

let strip_brackets (s : string) : string option =
  let l = String.length s in
  if l >= 2 && s.[0] = '[' && s.[l-1] = ']' then Some (String.sub s 1 (l - 2)) else None

(* last component of a symbol name: "local x" -> x, "M.bar(a, b)" -> bar, "M:foo" -> foo, "a.b.c" -> c *)
let last_component (name : string) : string =
  let name = (match String.index_opt name '(' with Some i -> String.sub name 0 i | None -> name) in
  let name = if String.length name > 6 && String.sub name 0 6 = "local " then String.sub name 6 (String.length name - 6) else name in
  let cut c s = (match String.rindex_opt s c with Some i -> String.sub s (i + 1) (String.length s - i - 1) | None -> s) in
  String.trim (cut ':' (cut '.' name))

type docent = { dname : string; dkind : int; drange : string; dsel : string; dkids : bool }
(* "name/kind@r/r[children],..." flattened *)
let rec parse_docsyms (s : string) (acc : docent list ref) : unit =
  List.iter (fun it ->
    let head, kids = (match String.index_opt it '[' with
        | Some i -> (String.sub it 0 i, Some (String.sub it i (String.length it - i)))
        | None -> (it, None)) in
    (match String.split_on_char '@' head with
     | [nk; rr] ->
       (match String.split_on_char '/' nk, String.split_on_char '/' rr with
        | [nm; k], [r; sel] ->
          acc := { dname = string_of_bytes (bytes_of_hex nm); dkind = (try int_of_string k with _ -> -1); drange = r; dsel = sel;
                   dkids = (kids <> None) } :: !acc
        | _ -> acc := { dname = "?"; dkind = -1; drange = "?"; dsel = "?"; dkids = false } :: !acc)
     | _ -> acc := { dname = "?"; dkind = -1; drange = "?"; dsel = "?"; dkids = false } :: !acc);
    (match kids with
     | Some k -> (match strip_brackets k with Some inner -> parse_docsyms inner acc | None -> ())
     | None -> ())) (split_top s)

let () = register "c04.ranges" (fun line ->
  let fields = split_ws line in
  let ans = List.fold_left (fun a f -> if String.length f >= 2 && String.sub f 0 2 = "A:" then Some f else a) None fields in
  match ans with
  | None -> "NO-ANSWER\t-\t-"
  | Some ans ->
    let case = parse_srv_case line in
    let files = List.map c04_file case.files in
    if List.exists (fun f -> f = None) files then "BAD-CASE\t-\t-" else
    let files = Array.of_list (List.filter_map (fun f -> f) files) in
    let by_rel rel = (let r = ref None in Array.iter (fun f -> if f.rel = rel then r := Some f) files; !r) in
    let body = String.sub ans 2 (String.length ans - 2) in
    let parts = String.split_on_char '|' body in
    let qsteps = List.filter (fun st -> match st with StOpen _ | StChange _ | StSave _ | StClose _ -> false | _ -> true) case.steps in
    if List.length parts <> List.length qsteps then
      (* crash / timeout / init error: not an answer; the server's liveness is property C01's business *)
      ans ^ "\t" ^ ans ^ "\t-"
    else begin
      let viols = ref [] in          (* (description, class option) *)
      let nranges = ref 0 and ndemand = ref 0 in
      let viol k op what cls = viols := (Printf.sprintf "%d:%s:%s" k op what, cls) :: !viols in
      (* clause (i) for every range; returns the parsed range when it passes *)
      let in_doc ?(other = fun (_ : range) -> false) k op (f : c04file) (rs : string) : range option =
        incr nranges;
        match parse_range rs with
        | None -> viol k op (f.rel ^ "@" ^ rs ^ ":unparsed") None; None
        | Some r ->
          if range_in_doc f.cps r then Some r
          else begin
            (* outside the guard the six file classes / lexical errors explain a displaced position; a range that is
               right for ANOTHER file of the workspace is class wrong_file *)
            viol k op (f.rel ^ "@" ^ rs ^ ":outside-document")
              (match f.fcls with
               | c :: _ -> Some c
               | [] -> if other r then Some "wrong_file"
                       else if op = "define" && Array.exists (fun (g : c04file) -> g.rel <> f.rel && cls_ann_type_word g.cps r) files
                       then Some "value_type_file"
                       else if op = "diag" && cls_eof_comment f.cps then Some "eof_comment"
                       else if op = "diag" && cls_ann_bytes_doc f.cps r then Some "ann_bytes" else None); None
          end in
      (* clause (ii): r designates `name` in file f (only demanded inside the guard).  q = the query (file, line,
         character) for the answers of define / refs / highlight / rename *)
      let acceptable (g : c04file) (name : n list) (r : range) q =
        range_designates_any g.cps g.lts name r || cls_string_key g.lts name r || cls_self_alias g.lts name r
        || (match q with Some ((qf : c04file), l, c) -> cls_prefix_fallback qf.lts l c g.lts r | None -> false) in
      let elsewhere (f : c04file) (name : n list) (r : range) q =
        Array.exists (fun (g : c04file) -> g.rel <> f.rel && range_in_doc g.cps r && ((not g.guard) || acceptable g name r q)) files in
      let designate k op (f : c04file) (rs : string) (r : range) (name : n list) ~(span_ok : bool) q =
        if f.guard then begin
          incr ndemand;
          if not (range_designates_any f.cps f.lts name r) then begin
            let cls =
              if cls_ann_bytes f.cps name r then Some "ann_bytes"
              else if cls_string_key f.lts name r then Some "string_key"
              else if cls_self_alias f.lts name r then Some "self_alias"
              else if span_ok && cls_outline_span f.lts name r then Some "outline_span"
              else if (match q with Some ((qf : c04file), l, c) -> cls_prefix_fallback qf.lts l c f.lts r | None -> false)
              then Some (if op = "define" then "define_prefix" else "prefix_fallback")
              else if op = "define" && cls_ann_type_word f.cps r then Some "member_value_type"
              else if op = "define" && Array.exists (fun (g : c04file) -> g.rel <> f.rel && cls_ann_type_word g.cps r) files
              then Some "value_type_file"
              else if (match q with Some ((qf : c04file), l, c) -> cls_other_entity qf.lts l c (qf.rel = f.rel) f.lts name r | None -> false)
              then Some "other_entity"
              else if q <> None && elsewhere f name r q then Some "wrong_file"
              else if (match q with Some ((qf : c04file), l, c) -> qf.rel = f.rel && cls_later_member qf.lts l c r | None -> false)
              then Some "later_member"
              else None in
            let under = (match ident_text_at f.lts r with Some t -> "ident:" ^ string_of_bytes t | None -> "no-ident-token") in
            viol k op (Printf.sprintf "%s@%s:want=%s:%s" f.rel rs (string_of_bytes name) under) cls
          end
        end in
      (* clause (ii) for a name written in a comment: the TEXT under r is `name`.  The judgement needs no guard; the
         demand is made for the files outside the six column classes and without lexical error (the comment's own
         start column comes from the Lua lexer) *)
      let designate_text k op (f : c04file) (rs : string) (r : range) (name : n list) ~(others : bool) =
        if f.fcls = [] then begin
          incr ndemand;
          if not (text_designates f.cps name r) then begin
            let cls =
              if cls_ann_bytes f.cps name r then Some "ann_bytes"
              else if others && Array.exists (fun (g : c04file) -> g.rel <> f.rel && (g.fcls <> [] || text_designates g.cps name r)) files
              then Some "wrong_file"
              else None in
            let under = (match ann_unbyte f.cps r with Some _ -> "bytecols-in-doc" | None -> "no-bytecols") in
            viol k op (Printf.sprintf "%s@%s:want-text=%s:%s" f.rel rs (string_of_bytes name) under) cls
          end
        end in
      let locs_of k op (v : string) : (c04file * string) list =
        match strip_brackets v with
        | None -> []          (* RPCERR / UNPARSED: no ranges *)
        | Some inner ->
          List.filter_map (fun it ->
            match String.index_opt it '@' with
            | Some i ->
              let rel = String.sub it 0 i and rest = String.sub it (i + 1) (String.length it - i - 1) in
              let rs = (match String.index_opt rest '=' with Some j -> String.sub rest 0 j | None -> rest) in
              (match by_rel rel with
               | Some f -> Some (f, rs)
               | None -> viol k op (rel ^ "@" ^ rs ^ ":unknown-file") None; None)
            | None -> None) (split_top inner) in
      List.iteri (fun k (st, part) ->
        let key, v = (match String.index_opt part '=' with
            | Some i -> (String.sub part 0 i, String.sub part (i + 1) (String.length part - i - 1))
            | None -> (part, "")) in
        let query op i l c (targets : (c04file * string) list) =
          let qf = files.(i) in
          let name = if qf.guard then ident_at qf.lts (n_of_int l) (n_of_int c) else None in
          let q = Some (qf, n_of_int l, n_of_int c) in
          (* the cursor stands on no Lua identifier token: the word under it (an annotation type name) *)
          let wname = if name = None && qf.guard then word_at qf.cps (n_of_int l) (n_of_int c) else None in
          List.iter (fun (f, rs) ->
            let other r = (match name with
                | Some nm -> elsewhere f nm r q
                | None -> Array.exists (fun (g : c04file) -> g.rel <> f.rel && range_in_doc g.cps r) files) in
            match in_doc ~other k op f rs with
            | Some r -> (match name, wname with
                | Some nm, _ -> designate k op f rs r nm ~span_ok:false q
                | None, Some w -> designate_text k op f rs r w ~others:true
                | None, None -> ())
            | None -> ()) targets in
        match st with
        | StDefine (i, l, c) when key = "define" -> query "define" i l c (locs_of k "define" v)
        | StRefs (i, l, c) when key = "refs" -> query "refs" i l c (locs_of k "refs" v)
        | StRename (i, l, c, _) when key = "rename" -> query "rename" i l c (locs_of k "rename" v)
        | StHighlight (i, l, c) when key = "highlight" ->
          (match strip_brackets v with
           | Some inner -> query "highlight" i l c (List.map (fun rs -> (files.(i), rs)) (split_top inner))
           | None -> ())
        | StDocsym i when key = "docsym" ->
          (match strip_brackets v with
           | Some inner ->
             let acc = ref [] in
             parse_docsyms inner acc;
             let f = files.(i) in
             List.iter (fun d ->
               ignore (in_doc k "docsym" f d.drange);
               match in_doc k "docsym-sel" f d.dsel with
               | Some r when d.dkind <> 11 ->
                 designate k "docsym-sel" f d.dsel r (bytes_of_string (last_component d.dname)) ~span_ok:(d.dkids || d.dkind = 12) None
               | Some r ->
                 (* kind Interface: an annotation class / alias; its name (dots included) is written in a comment.
                    Range and selectionRange are both the name *)
                 designate_text k "docsym-ann-sel" f d.dsel r (bytes_of_string d.dname) ~others:false;
                 (match parse_range d.drange with
                  | Some r2 when d.drange <> d.dsel && range_in_doc f.cps r2 ->
                    designate_text k "docsym-ann" f d.drange r2 (bytes_of_string d.dname) ~others:false
                  | _ -> ())
               | _ -> ()) (List.rev !acc)
           | None -> ())
        | StWssym _ when key = "wssym" ->
          (match strip_brackets v with
           | Some inner ->
             List.iter (fun it ->
               match String.split_on_char '@' it with
               | [nk; rel; rs] ->
                 (match String.split_on_char '/' nk, by_rel rel with
                  | [nm; kind], Some f ->
                    (match in_doc k "wssym" f rs with
                     | Some r when kind <> "11" ->
                       designate k "wssym" f rs r (bytes_of_string (last_component (string_of_bytes (bytes_of_hex nm)))) ~span_ok:false None
                     | Some r -> designate_text k "wssym-ann" f rs r (bytes_of_hex nm) ~others:false
                     | _ -> ())
                  | _, None -> viol k "wssym" (rel ^ "@" ^ rs ^ ":unknown-file") None
                  | _ -> ())
               | _ -> ()) (split_top inner)
           | None -> ())
        | StDiags when key = "diags" ->
          (match strip_brackets v with
           | Some inner ->
             List.iter (fun grp ->
               match String.index_opt grp '{' with
               | Some i when String.length grp > i + 1 ->
                 let rel = String.sub grp 0 i and inner = String.sub grp (i + 1) (String.length grp - i - 2) in
                 (match by_rel rel with
                  | Some f ->
                    List.iter (fun d ->
                      match String.index_opt d '@' with
                      | Some j -> ignore (in_doc k "diag" f (String.sub d (j + 1) (String.length d - j - 1)))
                      | None -> ()) (String.split_on_char ',' inner)
                  | None -> ())      (* luahelper.json etc. *)
               | _ -> ()) (String.split_on_char ';' inner)
           | None -> ())
        | _ -> ()) (List.combine qsteps parts);
      let viols = List.rev !viols in
      match viols with
      | [] -> ans ^ "\t" ^ ans ^ "\t-"
      | _ ->
        let shown = List.filteri (fun i _ -> i < 8) (List.filter (fun (_, c) -> c = None) viols @ List.filter (fun (_, c) -> c <> None) viols) in
        let spec = Printf.sprintf "VIOL_%d_of_%d_ranges:%s" (List.length viols) !nranges
            (String.concat ";" (List.map (fun (d, c) -> d ^ (match c with Some c -> "#" ^ c | None -> "#UNLISTED")) shown)) in
        let spec = String.concat "_" (split_ws spec) in
        let cls = if List.for_all (fun (_, c) -> c <> None) viols
          then String.concat "," (List.sort_uniq compare (List.filter_map snd viols)) else "-" in
        ans ^ "\t" ^ spec ^ "\t" ^ cls
    end)

let () = main ()
