# Shared machinery of /verif/bin/check (python3 stdlib only).
#
# A property check =  build (translator -> coq make -> Properties/<id>.v re-checked -> extraction -> OCaml driver
#                     -> Go harness rebuilt from /repo with -tags verif)
#                  +  legs (generated cases run through implementation and extracted model/spec, diffed)
#                  +  decision (DESIGN.md 2.2) + evidence/<id>.json.
import fcntl, glob, hashlib, json, os, random, re, shutil, subprocess, sys, time
from concurrent.futures import ThreadPoolExecutor

VERIF = os.path.dirname(os.path.dirname(os.path.abspath(__file__)))
REPO = os.environ.get("VERIF_REPO", "/repo")
WORK = os.path.join(VERIF, "work")
# VERIF_REPO=<scratch copy of the repository> runs a check against that copy without touching /repo and without
# disturbing the build products, evidence or replays of the real run (used for mutation testing in parallel).
ALT = os.path.realpath(REPO) != "/repo"
if ALT:
    ALTDIR = os.path.join(WORK, "alt-" + hashlib.sha1(os.path.realpath(REPO).encode()).hexdigest()[:10])
    COQ = os.path.join(ALTDIR, "coq")
    OUTDIR = ALTDIR
else:
    ALTDIR = None
    COQ = os.path.join(VERIF, "coq")
    OUTDIR = VERIF
OCAML_BUILD = os.path.join(OUTDIR, "ocaml", "build") if not ALT else os.path.join(ALTDIR, "ocaml-build")
GOENV = dict(os.environ, GOFLAGS="-mod=mod", GOPROXY="off", GOSUMDB="off", GOTOOLCHAIN="local",
             CGO_ENABLED=os.environ.get("CGO_ENABLED", "1"))
NCPU = os.cpu_count() or 4

FORBIDDEN = re.compile(r"\b(Admitted|admit|Axiom|Axioms|Parameter|Parameters|Conjecture|Conjectures|Hypothesis|Hypotheses|Variable|Variables)\b|Unset\s+Guard|bypass_check|type-in-type|impredicative-set|Admit\s+Obligations|native_compute")
# axioms of the standard library that may appear under Print Assumptions (named in DESIGN 8 when they do)
STDLIB_AXIOMS = {"functional_extensionality_dep", "proof_irrelevance", "JMeq_eq", "classic", "eq_rect_eq",
                 "FunctionalExtensionality.functional_extensionality_dep", "Eqdep.Eq_rect_eq.eq_rect_eq",
                 "ClassicalDedekindReals.sig_forall_dec", "ClassicalDedekindReals.sig_not_dec"}


def log(*a):
    print(*a, file=sys.stderr, flush=True)


def sh(cmd, cwd=None, env=None, timeout=None, inp=None):
    t0 = time.time()
    try:
        p = subprocess.run(cmd, cwd=cwd, env=env, timeout=timeout, input=inp, stdout=subprocess.PIPE,
                           stderr=subprocess.STDOUT, shell=isinstance(cmd, str), text=True, errors="replace")
        return p.returncode, p.stdout, time.time() - t0
    except subprocess.TimeoutExpired as e:
        out = e.stdout if isinstance(e.stdout, str) else (e.stdout or b"").decode("utf8", "replace")
        return 124, out + "\n[timeout]", time.time() - t0


class Lock:
    def __init__(self, name):
        os.makedirs(WORK, exist_ok=True)
        self.path = os.path.join(WORK, name)

    def __enter__(self):
        self.f = open(self.path, "w")
        fcntl.flock(self.f, fcntl.LOCK_EX)
        return self

    def __exit__(self, *a):
        fcntl.flock(self.f, fcntl.LOCK_UN)
        self.f.close()


# ----------------------------------------------------------------------------- build

def write_if_changed(path, content):
    try:
        if open(path).read() == content:
            return False
    except OSError:
        pass
    os.makedirs(os.path.dirname(path), exist_ok=True)
    with open(path, "w") as f:
        f.write(content)
    return True


def coq_sources():
    out = []
    for root, _, files in os.walk(COQ):
        for fn in files:
            if fn.endswith(".v"):
                out.append(os.path.relpath(os.path.join(root, fn), COQ))
    return sorted(out)


def alt_sync():
    if not ALT:
        return
    os.makedirs(ALTDIR, exist_ok=True)
    sh(["rsync", "-a", "--delete", "--exclude", "Generated/*.v", os.path.join(VERIF, "coq") + "/", COQ + "/"], timeout=600)


def run_translator():
    """Regenerate coq/Generated/*.v from /repo's working tree. Returns (ok, log)."""
    alt_sync()
    tdir = os.path.join(VERIF, "translator")
    if not os.path.exists(os.path.join(tdir, "main.go")):
        return True, "no translator"
    rc, out, _ = sh(["go", "build", "-o", "bin/translator", "."], cwd=tdir, env=GOENV, timeout=300)
    if rc != 0:
        return False, "translator build failed:\n" + out
    rc, out, _ = sh([os.path.join(tdir, "bin/translator"), "-repo", REPO, "-out", os.path.join(COQ, "Generated")],
                    cwd=tdir, env=GOENV, timeout=300)
    return rc == 0, out


def coq_prepare():
    srcs = coq_sources()
    proj = "-Q . LH\n" + "\n".join(srcs) + "\n"
    changed = write_if_changed(os.path.join(COQ, "_CoqProject"), proj)
    if changed or not os.path.exists(os.path.join(COQ, "Makefile")):
        rc, out, _ = sh(["coq_makefile", "-f", "_CoqProject", "-o", "Makefile"], cwd=COQ, timeout=120)
        if rc != 0:
            raise RuntimeError("coq_makefile failed: " + out)


def coq_make(targets, timeout=3000):
    """Full .vo build of the given targets (and their dependency closure)."""
    coq_prepare()
    cmd = ["make", "-j%d" % NCPU, "-k"] + targets
    rc, out, dt = sh(cmd, cwd=COQ, timeout=timeout)
    os.makedirs(WORK, exist_ok=True)
    with open(os.path.join(WORK, "make.log"), "a") as f:
        f.write("\n==== %s\n%s" % (" ".join(cmd), out))
    return rc, out, dt


def vo_fresh(rel_v):
    """the .vo exists and is up to date with respect to ALL its dependencies (make -q)"""
    v = os.path.join(COQ, rel_v)
    vo = v[:-2] + ".vo"
    if not (os.path.exists(vo) and os.path.getmtime(vo) >= os.path.getmtime(v)):
        return False
    rc, out, _ = sh(["make", "-q", rel_v[:-2] + ".vo"], cwd=COQ, timeout=300)
    return rc == 0


def dep_closure(rel_files):
    """transitive closure of `From LH Require ...` dependencies (relative .v paths under coq/)"""
    seen, todo = set(), list(rel_files)
    while todo:
        rel = todo.pop()
        if rel in seen or not os.path.exists(os.path.join(COQ, rel)):
            continue
        seen.add(rel)
        txt = open(os.path.join(COQ, rel), errors="replace").read()
        for m in re.finditer(r"From\s+LH\s+Require\s+(?:Import\s+|Export\s+)?(.*?)\.(?:\s|$)", txt, flags=re.S):
            for mod in m.group(1).split():
                todo.append(mod.replace(".", "/") + ".v")
    return sorted(seen)


def forbidden_scan(files=None):
    bad = []
    for rel in (files if files is not None else coq_sources()):
        txt = open(os.path.join(COQ, rel), errors="replace").read()
        # strip comments (non-nested approximation is enough: nested comments are also comments)
        depth, i, buf = 0, 0, []
        while i < len(txt):
            if txt.startswith("(*", i):
                depth += 1; i += 2; continue
            if txt.startswith("*)", i) and depth > 0:
                depth -= 1; i += 2; continue
            if depth == 0:
                buf.append(txt[i])
            i += 1
        code = "".join(buf)
        # Section-local Variable/Hypothesis are allowed: remove Section ... End blocks before scanning those words
        nosec = re.sub(r"\bSection\s+(\w+)\s*\..*?\bEnd\s+\1\s*\.", "", code, flags=re.S)
        for m in FORBIDDEN.finditer(code):
            w = m.group(0)
            if re.match(r"Variable|Variables|Hypothesis|Hypotheses", w):
                continue
            bad.append("%s: %s" % (rel, w))
        for m in re.finditer(r"\b(Variable|Variables|Hypothesis|Hypotheses)\b", nosec):
            bad.append("%s: %s outside a Section" % (rel, m.group(0)))
    return bad


def check_property_file(pid):
    """Re-run coqc on Properties/<pid>.v, parse theorem names and Print Assumptions output."""
    rel = "Properties/%s.v" % pid
    src = open(os.path.join(COQ, rel)).read()
    thms = re.findall(r"^\s*(?:Theorem|Corollary)\s+(\w+)", src, flags=re.M)
    rc, out, dt = sh(["coqc", "-Q", ".", "LH", rel], cwd=COQ, timeout=1200)
    res = {"file": rel, "theorems": thms, "compiled": rc == 0, "wall_s": round(dt, 1), "axioms": [], "closed": 0,
           "log": out[-4000:] if rc != 0 else ""}
    if rc == 0:
        res["closed"] = out.count("Closed under the global context")
        axs = []
        for blk in re.findall(r"Axioms:\n((?:.+\n?)+?)(?=\n\S|\Z)", out):
            for m in re.finditer(r"^(\S+)\s*:", blk, flags=re.M):
                axs.append(m.group(1))
        res["axioms"] = sorted(set(axs))
        res["printed"] = res["closed"] + len(re.findall(r"^Axioms:", out, flags=re.M))
    return res


def build_ocaml(pid):
    low = pid.lower()
    ml = os.path.join(COQ, low + "model.ml")
    drv = os.path.join(VERIF, "ocaml", low + "_run.ml")
    util = os.path.join(VERIF, "ocaml", "util.inc.ml")
    bdir = OCAML_BUILD
    os.makedirs(bdir, exist_ok=True)
    exe = os.path.join(bdir, low + "_run")
    if not (os.path.exists(ml) and os.path.exists(drv)):
        return False, "missing %s or %s" % (ml, drv), exe
    incs = []
    m = re.match(r"\(\*\s*include:\s*([^*]*)\*\)", open(drv).read())       # first line: (* include: a.inc.ml b.inc.ml *)
    if m:
        incs += [os.path.join(VERIF, "ocaml", x) for x in m.group(1).split()]
    incs += sorted(glob.glob(os.path.join(VERIF, "ocaml", low + "_*.inc.ml")))   # fragments owned by sub-parts
    newest = max(os.path.getmtime(p) for p in [ml, drv, util] + incs)
    if os.path.exists(exe) and os.path.getmtime(exe) >= newest:
        return True, "up to date", exe
    allml = os.path.join(bdir, low + "_all.ml")
    with open(allml, "w") as f:
        for p in [ml, util] + incs + [drv]:
            f.write(open(p).read()); f.write("\n")
    rc, out, _ = sh(["ocamlfind", "ocamlopt", "-inline", "100", "-w", "-a", low + "_all.ml", "-o", exe],
                    cwd=bdir, timeout=900)
    return rc == 0, out, exe


def build_harness(race=False):
    hdir = os.path.join(VERIF, "harness")
    name = "lhimpl_race" if race else "lhimpl"
    if ALT:
        modfile = os.path.join(ALTDIR, "go.mod")
        gm = open(os.path.join(hdir, "go.mod")).read().replace("/repo/luahelper-lsp", os.path.join(os.path.realpath(REPO), "luahelper-lsp"))
        write_if_changed(modfile, gm)
        shutil.copyfile(os.path.join(REPO, "luahelper-lsp", "go.sum"), os.path.join(ALTDIR, "go.sum"))
        exe = os.path.join(ALTDIR, name)
        cmd = ["go", "build", "-modfile", modfile, "-tags", "verif"] + (["-race"] if race else []) + ["-o", exe, "."]
    else:
        shutil.copyfile(os.path.join(REPO, "luahelper-lsp", "go.sum"), os.path.join(hdir, "go.sum"))
        exe = os.path.join(hdir, "bin", name)
        cmd = ["go", "build", "-tags", "verif"] + (["-race"] if race else []) + ["-o", exe, "."]
    # build to a private name and rename atomically: a worker of a concurrently running check may be re-executing the binary
    tmp = exe + ".tmp.%d" % os.getpid()
    cmd[cmd.index("-o") + 1] = tmp
    rc, out, _ = sh(cmd, cwd=hdir, env=GOENV, timeout=900)
    if rc == 0:
        os.replace(tmp, exe)
    elif os.path.exists(tmp):
        os.remove(tmp)
    return rc == 0, out, exe


# ----------------------------------------------------------------------------- workers

def _run_chunk(cmd, cases, per_case_s, env=None, crash_word="CRASH"):
    """Feed cases to a line-protocol worker; a worker that dies or hangs marks the case it was on."""
    res = []
    i = 0
    while i < len(cases):
        batch = cases[i:]
        inp = "".join(c + "\n" for c in batch)
        tmo = 20 + per_case_s * len(batch)
        try:
            p = subprocess.run(cmd, input=inp.encode(), stdout=subprocess.PIPE, stderr=subprocess.PIPE, timeout=tmo, env=env)
            out = p.stdout.decode("utf8", "replace")
            lines = out.split("\n")
            if lines and lines[-1] == "":
                lines.pop()
            died = len(lines) < len(batch)
            word = crash_word
            if died:
                err = p.stderr.decode("utf8", "replace")
                if "stack overflow" in err or "goroutine stack exceeds" in err:
                    word = crash_word + " stack-overflow"
                elif "concurrent map" in err:
                    word = crash_word + " concurrent-map"
                elif "fatal error" in err:
                    word = crash_word + " fatal"
                elif "panic:" in err:
                    m = re.search(r"panic: (.*)", err)
                    word = crash_word + " panic " + (m.group(1)[:80] if m else "")
                else:
                    word = crash_word + " exit=%s" % p.returncode
        except subprocess.TimeoutExpired as e:
            out = (e.stdout or b"").decode("utf8", "replace")
            lines = out.split("\n")
            if lines and not out.endswith("\n"):
                lines.pop()  # partial line
            elif lines and lines[-1] == "":
                lines.pop()
            died = True
            word = "TIMEOUT"
        lines = lines[:len(batch)]
        res.extend(lines)
        i += len(lines)
        if died and i < len(cases):
            res.append(word)
            i += 1
    return res


def run_worker(cmd, cases, per_case_s=0.05, jobs=None, env=None):
    if not cases:
        return []
    jobs = jobs or min(NCPU, max(1, len(cases) // 50))
    size = (len(cases) + jobs - 1) // jobs
    chunks = [cases[k:k + size] for k in range(0, len(cases), size)]
    # every worker (and the children it spawns) creates its scratch workspaces under a private TMPDIR that is removed
    # here, whatever happened to the worker (fatal Go errors and watchdog kills leave their directories behind)
    import tempfile
    td = tempfile.mkdtemp(prefix="lhv-")
    wenv = dict(env if env is not None else os.environ, TMPDIR=td)
    try:
        with ThreadPoolExecutor(max_workers=jobs) as ex:
            outs = list(ex.map(lambda ch: _run_chunk(cmd, ch, per_case_s, wenv), chunks))
    finally:
        shutil.rmtree(td, ignore_errors=True)
    return [x for ch in outs for x in ch]


# ----------------------------------------------------------------------------- legs and decision

class Leg:
    """One correspondence leg.
    name        leg name understood by harness/bin/lhimpl and ocaml/build/<pid>_run
    gen         function(rng, tier) -> list of case lines (no newlines)
    oracle      optional harness leg whose answer is appended (space separated) to each case before impl/model run
    nontrivial  function(case) -> bool, for the evidence
    deciding    False = exploratory leg: deviations go to the evidence only (outside the proved fragment)
    shrink      optional function(case) -> iterable of smaller candidate cases
    canon_impl  optional function(impl_line) -> canonical line
    per_case_s  time allowance per case for the implementation worker
    """
    def __init__(self, name, gen, oracle=None, nontrivial=None, deciding=True, shrink=None, canon_impl=None,
                 per_case_s=0.05, jobs=None, race=False, describe=None, impl_env=None, py_spec=None, spec_proj=None,
                 skip_model=None):
        # py_spec(case) -> spec observable computed by an independent Python oracle (overrides the model's spec column)
        # spec_proj(observable) -> projection of an impl/model observable into the domain of the spec observable
        # skip_model(model_observable) -> True when the model declares the case outside its domain (e.g. an oracle
        #   value would be needed); such cases are counted as skipped, never as agreement
        self.py_spec, self.spec_proj, self.skip_model = py_spec, spec_proj, skip_model
        self.name, self.gen, self.oracle = name, gen, oracle
        self.nontrivial = nontrivial or (lambda c: True)
        self.deciding, self.shrink, self.canon_impl = deciding, shrink, canon_impl
        self.per_case_s, self.jobs, self.race = per_case_s, jobs, race
        self.describe = describe or (lambda c: c if len(c) < 200 else c[:200] + "...")
        self.impl_env = impl_env


def load_findings(pid):
    p = os.path.join(VERIF, "known_findings", pid + ".json")
    if not os.path.exists(p):
        return []
    return json.load(open(p))["findings"]


class Runner:
    def __init__(self, pid, tier, seed):
        self.pid, self.tier, self.seed = pid, tier, seed
        self.t0 = time.time()
        self.impl_exe = self.impl_race_exe = self.model_exe = None
        self.build_problems = []      # list of (kind, name, detail): kind in theorem|tie|corr-build|translator|forbidden
        self.prop_info = None
        self.leg_stats = []
        self.violations = []          # dicts
        self.corr_breaks = []         # dicts (impl != model)
        self.known_hits = {}          # finding id -> count
        self.known_lines = []
        self.unclassified = []
        self.samples = []
        self.findings = load_findings(pid)
        self.open_classes = {f["class"]: f for f in self.findings if f.get("status") == "open" and f.get("class")}

    # ---- build phase
    def build(self, coq_targets=None, need_model=True, need_race=False, ties=()):
        pid = self.pid
        with Lock("build.lock" if not ALT else "build-" + os.path.basename(ALTDIR) + ".lock"):
            ok, out = run_translator()
            self.translator_log = out[-3000:]
            if not ok and "GENERATOR-FAILED" not in out:
                # the translator itself could not be built/run; a single failed generator instead leaves a
                # Generated file that does not compile, so only the ties/theorems that depend on it stop checking
                self.build_problems.append(("translator", "translator", out[-3000:]))
            targets = ["Properties/%s.vo" % pid] + ["Tie/%s.vo" % t for t in ties]
            if need_model:
                targets.append("Extract/Extract%s.vo" % pid)
            targets += list(coq_targets or [])
            rc, out, dt = coq_make(targets)
            self.make_s = round(dt, 1)
            for t in targets:
                rel = t[:-1]
                if not vo_fresh(rel):
                    kind = "tie" if rel.startswith("Tie/") else ("theorem" if rel.startswith("Properties/") else "model-build")
                    errs = re.findall(r'File "\./([^"]+)", line (\d+).*?\n(?:.*\n){0,6}?Error:?(.*(?:\n.*){0,3})', out)
                    self.build_problems.append((kind, rel, "\n".join("%s:%s %s" % e for e in errs)[-3000:] or out[-3000:]))
            # this property's development = dependency closure of its targets; the rest of the tree is scanned too
            # but only reported (another property's unfinished file must not fail this check)
            mine = dep_closure([t[:-1] for t in targets])
            bad = forbidden_scan(mine)
            if bad:
                self.build_problems.append(("forbidden", "forbidden-token", "; ".join(bad)))
            self.forbidden_elsewhere = [b for b in forbidden_scan() if b not in bad]
            self.closure = mine
        # the shared .vo tree is built; everything below writes only files owned by this property (or uses
        # private temporary names), so other checks need not wait for it
        if vo_fresh("Properties/%s.v" % pid):
            self.prop_info = check_property_file(pid)
            if not self.prop_info["compiled"]:
                self.build_problems.append(("theorem", self.prop_info["file"], self.prop_info["log"]))
            else:
                extra = [a for a in self.prop_info["axioms"] if a.split(".")[-1] not in {x.split(".")[-1] for x in STDLIB_AXIOMS}]
                if extra:
                    self.build_problems.append(("forbidden", "non-stdlib axiom", ", ".join(extra)))
        elif not any(k == "theorem" for k, _, _ in self.build_problems):
            # the property file was built a moment ago but is stale again (a dependency changed under us):
            # no theorem was re-checked in this run, which must never read as OK
            self.build_problems.append(("theorem", "Properties/%s.v" % pid, "compiled property file is not up to date with its dependencies"))
        # thorough tier: the independent checker re-checks the compiled property file and everything it depends on
        self.coqchk = None
        if self.tier == "thorough" and self.prop_info and self.prop_info.get("compiled") and os.environ.get("VERIF_NO_COQCHK") != "1":
            rc, out, dt = sh(["coqchk", "-silent", "-o", "-Q", ".", "LH", "LH.Properties.%s" % pid], cwd=COQ, timeout=5400)
            tail = out[-2500:]
            m = re.search(r"\* Axioms:\s*(.*?)\n\s*\n\* Constants/Inductives relying on type-in-type:\s*(.*?)\n\s*\n"
                          r"\* Constants/Inductives relying on unsafe \(co\)fixpoints:\s*(.*?)\n\s*\n"
                          r"\* Inductives whose positivity is assumed:\s*(.*?)\n", out, flags=re.S)
            groups = [g.strip() for g in m.groups()] if m else None
            clean = rc == 0 and groups is not None and all(g == "<none>" for g in groups[1:])
            axioms = [] if (groups and groups[0] == "<none>") else ([a.strip() for a in groups[0].split("\n") if a.strip()] if groups else ["?"])
            extra = [a for a in axioms if a.split(".")[-1] not in {x.split(".")[-1] for x in STDLIB_AXIOMS}]
            self.coqchk = {"cmd": "coqchk -silent -o -Q . LH LH.Properties.%s" % pid, "exit": rc, "wall_s": round(dt),
                           "axioms": axioms, "clean": bool(clean and not extra)}
            if not (clean and not extra):
                self.build_problems.append(("theorem", "coqchk LH.Properties.%s" % pid, tail))
        if need_model:
            ok, out, exe = build_ocaml(pid)
            if not ok:
                self.build_problems.append(("model-build", "ocaml driver", out[-3000:]))
            self.model_exe = exe
        ok, out, exe = build_harness(False)
        if not ok:
            self.build_problems.append(("corr-build", "harness (go build -tags verif from %s)" % REPO, out[-3000:]))
        self.impl_exe = exe
        if need_race:
            ok, out, exe = build_harness(True)
            if not ok:
                self.build_problems.append(("corr-build", "harness -race", out[-3000:]))
            self.impl_race_exe = exe
        return not self.build_problems

    def can_run(self, race=False):
        """may the legs run?  Needs both binaries.  When only the model's re-extraction failed (a broken tie / theorem stops
        `make` before Extract/*.vo) the model binary of the last successful extraction is used: the verdict is a VIOLATION
        already, the legs then only look for a concrete failing input (stale_model is recorded in the evidence)."""
        impl = self.impl_race_exe if race else self.impl_exe
        if not (impl and os.path.exists(impl) and self.model_exe and os.path.exists(self.model_exe)):
            return False
        if any(k == "corr-build" for k, _, _ in self.build_problems):
            return False
        if any(k == "model-build" for k, _, _ in self.build_problems):
            self.stale_model = True
        return True

    # ---- running one leg
    def eval_cases(self, leg, cases):
        """returns list of (case_with_oracle, impl, model, spec, cls)"""
        if leg.oracle:
            orc = run_worker([self.impl_exe, leg.oracle], cases, leg.per_case_s)
            cases = [c + " " + o for c, o in zip(cases, orc)]
        exe = self.impl_race_exe if leg.race else self.impl_exe
        env = dict(os.environ, **leg.impl_env) if leg.impl_env else None
        impl = run_worker([exe, leg.name], cases, leg.per_case_s, leg.jobs, env=env)
        if leg.canon_impl:
            impl = [leg.canon_impl(x) for x in impl]
        mexe = self.model_exe
        for pre, e in getattr(self, "model_exes_by_prefix", {}).items():
            if leg.name.startswith(pre):
                mexe = e
        mod = run_worker([mexe, leg.name], cases, 0.05)
        rows = []
        for c, i, m in zip(cases, impl, mod):
            parts = m.split("\t")
            while len(parts) < 3:
                parts.append("-")
            rows.append((c, i, parts[0], parts[1], parts[2]))
        return rows

    def add_model(self, prefix, pid):
        """legs whose name starts with `prefix` are evaluated by the extracted model of property `pid`"""
        with Lock("build.lock" if not ALT else "build-" + os.path.basename(ALTDIR) + ".lock"):
            rc, out, dt = coq_make(["Extract/Extract%s.vo" % pid])
            ok, out2, exe = build_ocaml(pid)
        if rc != 0 or not ok:
            self.build_problems.append(("model-build", "ocaml driver of %s" % pid, (out + out2)[-3000:]))
        if not hasattr(self, "model_exes_by_prefix"):
            self.model_exes_by_prefix = {}
        self.model_exes_by_prefix[prefix] = exe

    def classify(self, leg, row):
        """-> ('ok'|'known'|'violation'|'corr'|'corr+violation'|'unlisted', finding_or_None)"""
        c, i, m, s, cls = row
        classes = [x for x in cls.split(",") if x and x != "-"]
        if leg.skip_model and leg.skip_model(m):
            return "skipped", None
        if leg.py_spec:
            s = leg.py_spec(c)
        proj = leg.spec_proj or (lambda x: x)
        if i == m:
            if s == "-" or proj(m) == s:
                return "ok", None
            if getattr(leg, "all_classes", False):
                # every class of the row names ONE of several independent deviations (e.g. one per offending range):
                # the row is known only if ALL of them are open (a repaired class must not hide behind an open one)
                if classes and all(k in self.open_classes for k in classes):
                    return "known", self.open_classes[classes[0]]
                return "unlisted", None
            for k in classes:
                if k in self.open_classes:
                    return "known", self.open_classes[k]
            return "unlisted", None
        # implementation differs from the faithful model: correspondence broken on this case
        if s != "-" and proj(i) != s:
            return "corr+violation", None
        return "corr", None

    def run_leg(self, leg, n_extra_search=0):
        rng = random.Random((self.seed * 1000003) ^ int(hashlib.sha256(leg.name.encode()).hexdigest()[:8], 16))
        t0 = time.time()
        corpus = []
        cpath = os.path.join(VERIF, "corpus", leg.name + ".txt")
        if os.path.exists(cpath):
            corpus = [l.rstrip("\n") for l in open(cpath) if l.strip() and not l.startswith("#")]
        gen = leg.gen(rng, self.tier)
        cases = corpus + [g for g in gen]
        rows = self.eval_cases(leg, cases)
        st = {"leg": leg.name, "deciding": leg.deciding, "cases": len(rows), "corpus": len(corpus), "agree": 0,
              "known_class_instances": 0, "corr_breaks": 0, "violations": 0, "unclassified": 0}
        seen = set()
        nontriv = 0
        for row in rows:
            c0 = row[0]
            if c0 not in seen:
                seen.add(c0)
                if leg.nontrivial(c0):
                    nontriv += 1
            kind, f = self.classify(leg, row)
            rec = {"leg": leg.name, "case": row[0], "impl": row[1], "model": row[2], "spec": row[3], "class": row[4], "kind": kind}
            if kind == "ok":
                st["agree"] += 1
            elif kind == "skipped":
                st["skipped"] = st.get("skipped", 0) + 1
            elif kind == "known":
                st["agree"] += 1
                st["known_class_instances"] += 1
                self.known_hits[f["id"]] = self.known_hits.get(f["id"], 0) + 1
            elif not leg.deciding:
                st["unclassified"] += 1
                if len(self.unclassified) < 20:
                    self.unclassified.append(rec)
            elif kind == "unlisted":
                st["violations"] += 1
                self.violations.append(rec)
            elif kind == "corr+violation":
                st["corr_breaks"] += 1
                st["violations"] += 1
                self.corr_breaks.append(rec)
                self.violations.append(rec)
            else:
                st["corr_breaks"] += 1
                self.corr_breaks.append(rec)
        st["distinct"] = len(seen)
        st["distinct_nontrivial"] = nontriv
        st["wall_s"] = round(time.time() - t0, 1)
        self.leg_stats.append(st)
        for row in rows[:2] + rows[len(corpus):len(corpus) + 2]:
            if len(self.samples) < 12:
                self.samples.append({"leg": leg.name, "case": leg.describe(row[0]), "impl": row[1][:300], "model": row[2][:300]})
        return rows

    # ---- failing-input search after a break (DESIGN 2.2 step 5)
    def search(self, legs, budget_s=120):
        """Correspondence or proof broke but no case so far violates the spec: look for one."""
        t0 = time.time()
        rnd = 1
        while time.time() - t0 < budget_s and rnd <= 6:
            for leg in legs:
                if not leg.deciding:
                    continue
                rng = random.Random(self.seed * 7919 + rnd * 104729 + len(leg.name))
                cases = list(leg.gen(rng, "search"))
                rows = self.eval_cases(leg, cases)
                for row in rows:
                    kind, _ = self.classify(leg, row)
                    if kind in ("corr+violation", "unlisted"):
                        rec = {"leg": leg.name, "case": row[0], "impl": row[1], "model": row[2], "spec": row[3],
                               "class": row[4], "kind": kind, "found_by": "search round %d" % rnd}
                        self.violations.append(rec)
                        return rec
                if time.time() - t0 > budget_s:
                    break
            rnd += 1
        return None

    def shrink(self, leg, rec, budget_s=60):
        if not leg.shrink:
            return rec
        t0 = time.time()
        cur = rec
        improved = True
        while improved and time.time() - t0 < budget_s:
            improved = False
            base = cur["case"]
            if leg.oracle:
                base = base.rsplit(" ", 1)[0]
            cands = [c for c in leg.shrink(base)][:400]
            if not cands:
                break
            rows = self.eval_cases(leg, cands)
            for row in rows:
                kind, _ = self.classify(leg, row)
                if kind == cur["kind"] or (cur["kind"] == "corr+violation" and kind == "unlisted"):
                    if len(row[0]) < len(cur["case"]):
                        cur = {"leg": leg.name, "case": row[0], "impl": row[1], "model": row[2], "spec": row[3],
                               "class": row[4], "kind": kind, "shrunk_from": rec["case"][:2000]}
                        improved = True
                        break
        return cur

    # ---- known findings: replay each committed witness
    def replay_findings(self, legs_by_name):
        for f in self.findings:
            if f.get("status") != "open":
                continue
            leg = legs_by_name.get(f.get("leg"))
            if leg is None or "case" not in f:
                continue
            base = f["case"]
            rows = self.eval_cases(leg, [base])
            c, i, m, s, cls = rows[0]
            f["_replay"] = {"impl": i, "model": m, "spec": s, "class": cls}
            kind, ff = self.classify(leg, rows[0])
            if kind == "known" and ff is f or (kind == "known" and ff["id"] == f["id"]):
                self.known_lines.append("KNOWN-FINDING: property=%s %s [%s] witness leg=%s impl=%s spec=%s" %
                                        (self.pid, f["what"], f["id"], leg.name, i[:80], s[:80]))
                self.known_hits[f["id"]] = self.known_hits.get(f["id"], 0) + 1
            elif kind == "ok":
                # the witness no longer deviates from the spec and the model agrees: finding gone (model was updated)
                pass
            else:
                rec = {"leg": leg.name, "case": c, "impl": i, "model": m, "spec": s, "class": cls, "kind": kind,
                       "note": "witness of known finding %s no longer behaves as recorded" % f["id"]}
                if kind in ("corr", "corr+violation"):
                    self.corr_breaks.append(rec)
                if kind in ("corr+violation", "unlisted"):
                    self.violations.append(rec)

    # ---- decision + evidence
    def finish(self, legs, extra_cov=None, assumptions=None, trusted=None, level="proof"):
        pid = self.pid
        legs_by_name = {l.name: l for l in legs}
        replay_path = None
        verdict = "ok"
        broken = [("%s:%s" % (k, n)) for k, n, _ in self.build_problems]
        if self.corr_breaks:
            broken += sorted({"corr:" + r["leg"] for r in self.corr_breaks})
        if broken and not self.violations and self.can_run():
            self.search(legs, 90 if self.tier == "quick" else 600)
        if self.violations or broken:
            verdict = "violation"
            os.makedirs(os.path.join(OUTDIR, "replays"), exist_ok=True)
            replay_path = os.path.join(OUTDIR, "replays", "%s-%s-%d.json" % (pid, self.tier, self.seed))
            rep = {"property": pid, "tier": self.tier, "seed": self.seed, "no_longer_checks": broken}
            if self.violations:
                v = self.violations[0]
                leg = legs_by_name.get(v["leg"])
                if leg is not None:
                    try:
                        v = self.shrink(leg, v)
                    except Exception as e:  # shrinking is best effort
                        v["shrink_error"] = str(e)
                rep["kind"] = "failing-input"
                rep["failing_input"] = v
                rep["how_to_replay"] = "echo '<case>' | harness/bin/lhimpl %s   (implementation)  and  | ocaml/build/%s_run %s   (model<TAB>spec<TAB>class)" % (v["leg"], pid.lower(), v["leg"])
                rep["other_violations"] = self.violations[1:10]
            else:
                rep["kind"] = "no-failing-input-found"
                rep["corr_breaks"] = self.corr_breaks[:10]
                rep["build_problems"] = [{"kind": k, "name": n, "detail": d} for k, n, d in self.build_problems]
            json.dump(rep, open(replay_path, "w"), indent=1)
        try:
            os.makedirs(WORK, exist_ok=True)
            json.dump({"corr_breaks": self.corr_breaks[:200], "violations": self.violations[:200]},
                      open(os.path.join(WORK, "last-%s-%s.json" % (pid, self.tier)), "w"), indent=1)
        except Exception:
            pass
        wall = round(time.time() - self.t0, 1)
        pi = self.prop_info or {"theorems": [], "compiled": False, "closed": 0, "axioms": []}
        n_obl = len(pi["theorems"])
        n_dis = n_obl if pi.get("compiled") and not any(k in ("theorem", "tie", "forbidden") for k, _, _ in self.build_problems) else 0
        evals = sum(s["cases"] for s in self.leg_stats)
        cov = {
            "obligations": n_obl, "discharged": n_dis,
            "theorems": pi["theorems"],
            "print_assumptions": {"closed_under_global_context": pi.get("closed", 0), "axioms": pi.get("axioms", [])},
            "checker_cmd": "cd /verif/coq && make Properties/%s.vo (coq_makefile full .vo build) && coqc -Q . LH Properties/%s.v" % (pid, pid),
            "trusted_base": trusted or [],
            "evaluations": evals,
            "distinct_nontrivial": sum(s.get("distinct_nontrivial", 0) for s in self.leg_stats),
            "rule": "correspondence legs: generated cases run through the implementation (harness rebuilt from /repo, -tags verif) and the model/spec extracted from Coq; a case is non-trivial by the leg's own predicate (see legs[].rule)",
            "legs": self.leg_stats,
            "samples": self.samples or [{"note": "no correspondence case ran"}],
            "known_finding_instances": self.known_hits,
            "unclassified_outside_fragment": self.unclassified,
            "no_longer_checks": broken,
            "make_s": getattr(self, "make_s", None),
            "coq_files_in_closure": getattr(self, "closure", []),
            "forbidden_tokens_outside_closure": getattr(self, "forbidden_elsewhere", []),
            "coqchk": getattr(self, "coqchk", None) or "thorough tier only",
            "stale_model": bool(getattr(self, "stale_model", False)),
        }
        if extra_cov:
            cov.update(extra_cov)
        ev = {"property_id": pid, "tier": self.tier, "seed": self.seed, "level": level, "coverage": cov,
              "assumptions": assumptions or [], "wall_s": wall, "violations": len(self.violations) + (1 if broken and not self.violations else 0)}
        os.makedirs(os.path.join(OUTDIR, "evidence"), exist_ok=True)
        json.dump(ev, open(os.path.join(OUTDIR, "evidence", pid + ".json"), "w"), indent=1)
        for l in self.known_lines:
            print(l)
        for s in self.leg_stats:
            log("  leg %-24s cases=%d agree=%d known=%d corr_breaks=%d viol=%d unclassified=%d (%.1fs)" %
                (s["leg"], s["cases"], s["agree"], s["known_class_instances"], s["corr_breaks"], s["violations"], s["unclassified"], s["wall_s"]))
        if verdict == "ok":
            print("OK property=%s tier=%s theorems=%d cases=%d wall=%.0fs" % (pid, self.tier, n_obl, evals, wall))
            return 0
        if self.violations:
            print("VIOLATION property=%s replay=%s" % (pid, replay_path))
        else:
            print("VIOLATION property=%s replay=%s no-failing-input-found" % (pid, replay_path))
        return 1


def standard_main(pid, legs, tier, seed, ties=(), need_race=False, trusted=None, assumptions=None, extra=None,
                  coq_targets=None, other_models=None):
    r = Runner(pid, tier, seed)
    ok = r.build(ties=ties, need_race=need_race, coq_targets=coq_targets)
    for pre, opid in (other_models or {}).items():
        r.add_model(pre, opid)
    can_run = r.can_run()
    if can_run:
        legs_by_name = {l.name: l for l in legs}
        r.replay_findings(legs_by_name)
        for leg in legs:
            r.run_leg(leg)
        if extra:
            extra(r)
    return r.finish(legs, trusted=trusted, assumptions=assumptions)


# ----------------------------------------------------------------------------- small helpers for generators

def hexs(b):
    return b.hex() if b else "-"


TRUSTED_COMMON = [
    "Coq 8.16.1 kernel (coqc; vm_compute used for witnesses, ties and finite sweeps; no native_compute)",
    "extraction: Require Extraction + ExtrOcamlBasic only (Extract Inductive bool/option/unit/list/prod/sumbool/sumor); no Extract Constant; OCaml 4.13.1",
    "ocaml/util.inc.ml + per-property driver (hex decoding, printing)",
    "Go harness (verif build tag hooks are add-only accessors) and the Python generators/differ; correspondence is sampled",
]
