#!/usr/bin/env python3
# Regenerates /verif/MANIFEST.json from the table below (run by hand after editing; never at check time).
import json, os
HERE = os.path.dirname(os.path.dirname(os.path.abspath(__file__)))
ALL = ["C%02d" % i for i in range(1, 21)]

COMMON_NOTE = ("Trusted: Coq 8.16.1 kernel (+ vm_compute), extraction with ExtrOcamlBasic only, the OCaml drivers, the Go harness "
               "(build tag verif, add-only hooks), the Python generators; the model is tied to /repo by the translator "
               "(coq/Generated regenerated each run) and/or by the sampled correspondence check. See DESIGN.md 8.")

CLAIMS = {
 "C01": dict(
    text="Coq theorems (all inputs, no bound): the model lexer returns a token list for every byte string; the model parser returns a result (never Fault, never out of fuel; recursion depth linear in the input) for every byte string; the numeral classifier, the annotation line/fragment parser, the class traversal and alias/element-type resolution terminate without fault for every input/workspace (the crashes repaired by fix: commits are regression theorems). Every modelled core is tied to the code inside THIS check: parser legs, annotation leg (garbage and deeply nested lines, quote-edge constants), class-hierarchy leg (cycles, diamonds, alias chains through the real server). "
         "Models tied to the code by differential correspondence (tokens, ASTs with every Loc, error lists) plus a server robustness leg (real server in a subprocess, crash/timeout watchdog; regex-hostile settings, odd statement shapes, unsaved damage) - that leg is a search, not a proof; it found two further crashes (ReferFrameFiles names in regexps, (\"_G\").x = 1), both repaired. Partial: Go stack limits, handlers outside the modelled cores and wall-clock time are not in the model (DESIGN 5/C01, 9).",
    design="5/C01", technique="Coq proof (fuel/measure arguments, Hoare-style post-conditions over the parser monad) + extracted-model correspondence + subprocess robustness leg"),
 "C02": dict(
    text="Coq theorems about an executable model of offsetForStartAndEnd / ApplyContentChanges / the didOpen-didChange-didSave-didClose cache machine: "
         "for all valid-UTF-8 documents and all conformant multi-document histories the server cache equals the client's text (C02_sync_history_fixed: the full statement, unguarded, for the repaired code now in /repo; "
         "the pre-fix code is kept in the model under fx=false with its exact guard and refutation witnesses); model tied to the code by differential correspondence through the real handlers on every run.",
    design="5/C02", technique="Coq proof (induction over code points and over notification histories; byte sweeps by vm_compute) + extracted-model correspondence through the real LSP handlers"),
 "C03": dict(
    text="Coq theorems: numerals - the model of parser_number.go accepts exactly the numerals of the Lua 5.3/5.4 + LuaJIT grammar (C03_number_ok_iff, value exactness, Integer/Float node iff, no fault), keyword table distinct (tied to the generated token table). "
         "Token-level parser: totality/no-fault (C01) and the model parser is run against the real parser on every case (AST incl. every Loc, error list) together with an independent reference recogniser of the manual's grammar; the grammar completeness/soundness theorems for the full parser are work in progress (coq/WIP, not claimed). Known deviations (bad escapes accepted etc.) are listed findings.",
    design="5/C03", technique="Coq proof (numeral grammar iff, induction over digit strings) + extracted-model correspondence (model parser = Go parser = reference recogniser on generated programs and mutants)"),
 "C04": dict(
    text="Coq theorem C04_tok_range_exact: for every valid-UTF-8 file in the guarded class (no backslash, long-bracket opener, astral/2-byte character, LF-CR pair, BOM) that lexes without lexical error, every token's reported range lies in the document, has start<=end and covers exactly the token text under the LSP reading (UTF-16 columns, LF/CRLF/CR); each excluded class is refuted with a vm_compute witness and listed as a finding. "
         "Model lexer tied to the Go lexer by correspondence (every token Loc, cross-read by an independent Python slicer). Partial: AST Locs and handler-composed ranges are covered by correspondence legs of C03/C05/C06/C19, not by this theorem.",
    design="5/C04", technique="Coq proof (induction over the scan with a position invariant; UTF-8/UTF-16 lemmas) + extracted-model correspondence on token ranges"),
 "C05": dict(
    text="Coq theorem C05_define_local_partial, for ALL programs of the fragment: with the Laid2 layout (Locs are token spans incl. empty if-branches; no function in a numeric-for step = class B5) and no re-pointing assignment (no_repoint = class B4), go-to-definition at EVERY cursor column of every occurrence that Lua binds to a local and that carries no class tag (B1-B3, per occurrence) returns exactly Lua's declaration; intermediate theorems: the scope tree of the analysis is the syntactic skeleton (C05_scope_tree_is_skeleton), FindMinScope's chain contains every binder-visible declaration (C05_chain_covers_binder_env). "
         "The full statement and the originally planned guard are refuted (6 class witnesses from source bytes; Laid alone is too weak for hand-built ASTs), non-vacuity examples (33 and 43 occurrences; the evidence reports which share of generated programs satisfies the guards). Model = code and the global part are decided by correspondence over every identifier cursor of generated workspaces through the real server. Partial: B4/B5 are excluded program-wide, globals by correspondence.",
    design="5/binder, 11", technique="Coq proof (skeleton of the scope tree, position keys, FindMinScope scan, main induction over the traversal) + refutation witnesses + correspondence through the real language server (all cursors)"),
 "C06": dict(
    text="Coq theorems for every workspace: every location find-references returns is the target's declaration or a visited occurrence spelled with the queried name (C06_references_shape); full statement (answer = occurrences of the same variable per the reference binder) stated over file bytes and refuted with a witness per class (B1-B5, doc_end, undefined/split/mixed-level global, same position other file); guard non-vacuity example. Correspondence through the real server at every identifier cursor, deviations must fall in a listed class.",
    design="5/binder", technique="Coq proof (shape theorem) + refutation witnesses by vm_compute + extracted model/reference correspondence through the real server"),
 "C07": dict(
    text="Executable Coq models of the usage marking / unused sweep / undefined-global lookup (Model/Usage.v) and of the reference (Spec/LuaUsage.v); refutation theorems with witnesses (multi-local order, position filter after a long comment, later-defined-elsewhere) and a guard example; correspondence of type 2/3/4 diagnostics of the real analysis vs model vs reference on generated workspaces. Partial: the guarded iff theorems (C07_undefined_iff / C07_unused_iff of DESIGN) are not yet proved.",
    design="5/binder", technique="Coq model + reference, refutation theorems by vm_compute; differential correspondence of published diagnostics"),
 "C08": dict(
    text="Coq theorems over ALL event histories of the diagnostics state machine (open/change/save/close/watched create-change-delete): the client view always equals live-or-shown-saved (C08_view_tracks_maps, invariant by induction), and under the stated guard incremental = fresh start (C08_incremental_eq_fresh, C08_unsaved_view); analysis results are Section variables. Repaired defects are regression theorems; remaining refuted classes are listed findings. "
         "Model tied to the real server (channel.Direct, raw JSON, one process per history) by correspondence after every event and against a fresh server.",
    design="5/C08", technique="Coq proof (invariant by induction over event histories, refinement to fresh start) + extracted-model correspondence against the real server and a fresh server"),
 "C09": dict(
    text="Coq theorems: the global merge is permutation-invariant exactly when the minimal definition is unique (C09_merge_perm*, winner = a minimal element, every minimal element reachable), best-match module choice is permutation-invariant under a unique maximal score (C09_best_match_unique), arrival order of per-file results and the SET of a scope's diagnostics are order-free; refutations with witnesses for ties. Correspondence: exported merge/best-match functions called in explicit orders, whole-server repetitions (set-valued observables, impl subset of model).",
    design="5/C09", technique="Coq proof (Permutation induction, minimality) + extracted-model correspondence with set-valued observables + repeated fresh-server runs"),
 "C10": dict(
    text="Coq theorems about a labelled transition system of the jrpc2 dispatcher (queue, concurrency 4, notification barrier, one mutex): lock discipline implies mutual exclusion and race freedom for all reachable states, no deadlock, serialisability for handlers with one critical section; the handler table is REGENERATED from the Go source by the translator on every run and C10_handlers_locked / C10_only_known_split / C10_background_unlocked are re-proved by vm_compute over it; since the fix: commits 1b70b29 and 4ebf311 all three exception lists are empty and C10_real_race_free (no reachable state of the real handler table has a data race on the modelled state) holds. "
         "Correspondence/search: real server built with -race flooded with overlapping schedules derived from model runs. Partial: locks below the request mutex and the callee-effect table are trusted.",
    design="5/C10", technique="Coq proof (invariant over reachable states; vm_compute over translator-generated handler table) + race-detector schedules against the real server"),
 "C11": dict(
    text="Coq theorems: rename is the same computation as find-references for every request (C11_rename_is_references, C11_run_rename_is_run_refs), hence C11's full statement is equivalent to C06's (C11_full_iff_C06_full); every edit covers the declaration or an occurrence spelled with the old name (C11_edits_cover_old_name); full statement refuted with a witness per class. Correspondence: rename edits of the real server at every identifier cursor vs model vs reference binder.",
    design="5/binder", technique="Coq proof (equivalence to C06, shape theorem) + refutation witnesses + correspondence through the real server"),
 "C12": dict(
    text="Coq theorems for EVERY workspace with distinct file names: highlight(p) = references(p) restricted to the file (C12_highlight_is_refs_in_file), hover says local iff definition answers with a local declaration (C12_hover_local_iff_definition_local); clauses 1-2 (references resolve to the same declaration; p is among the references of its own declaration) are stated over file bytes and refuted with witnesses per class. Correspondence: the four real LSP answers at every identifier cursor; the relation itself is evaluated by Coq-extracted code.",
    design="5/binder", technique="Coq proof (clauses 3-4 for all workspaces) + refutation witnesses + extracted relation checked on the real server's answers"),
 "C13": dict(
    text="Coq theorems about an executable model of the UTF-8 detector / converter (for all texts: identity on valid UTF-8 without 2-byte characters, exact characterisation of the detector, structural soundness; refutation witness for 2-byte characters = known finding) "
         "and of the comment map, attachment lookup and both clean-ups (C13_gap_entries: grouping of comment lines per gap; C13_comment_attach: lookup = spec under the boolean attach_guard; C13_cleanup*: exact characterisation), refutation for a block starting with an empty line; model tied to the code by differential correspondence on every run, incl. hover text (label + documentation) through the real server. Partial: whole-file attachment composes these by correspondence only; labels modelled for the forms of the quantifier.",
    design="5/C13", technique="Coq proof (induction over code points; finite byte sweeps by vm_compute lifted with forallb_forall) + extracted-model correspondence"),
 "C14": dict(
    text="Coq theorems: (only those) for every workspace and cursor every completion label is a global/undefined name of the workspace or a variable of a scope that CONTAINS the cursor declared at or before it - never a later or non-enclosing local (C14_labels_only_visible); (every visible) for all fragment programs with the Laid2 layout and no re-pointing assignment, every local, parameter and loop variable the reference binder has in scope at an occurrence is among the local labels at every cursor column of it (C14_complete_locals_partial, model level); the full statement over file bytes is stated and refuted in class B5. Correspondence: completion labels of the real server at every prefix end of every identifier (unique-name programs decide; ordinary programs correspondence only).",
    design="5/binder, 11", technique="Coq proof (label soundness via the FindMinScope chain lemma; completeness via the position-resolver induction) + refutation witness + correspondence through the real server"),
 "C15": dict(
    text="Coq theorems: the class traversal terminates and its member set equals the reflexive-transitive closure of parent/alias edges for every well-formed type map (C15_members_eq_closure, sound+complete, cycles and diamonds included), element/value type resolution is exact and terminating for the repaired code (C15_fixed_*); refutations (same-file shadowing, union order) listed. Correspondence: generated class graphs through completion/definition of the real server in a subprocess.",
    design="5/C15", technique="Coq proof (closure = traversal by induction with visited-set invariant; measure for termination) + extracted-model correspondence"),
 "C16": dict(
    text="Coq theorems: parse(show t) = t for every documented type of unbounded depth and every documented statement form (C16_type_roundtrip, C16_stat_roundtrip*), trailing comment kept, a malformed line affects only itself (C16_line_isolation, C16_isolation_general), parser total; nested arrays T[][].. of any depth, enum comments, Lines/Stats alignment and parentheses under [] are proved for the repaired code (4 fix: commits); the implementation's own printer round-trips on the guarded fragment with refutations for fun and const. Correspondence: ParseCommentFragment / TypeConvertStr on grammar derivations and corruptions.",
    design="5/C16", technique="Coq proof (induction on type size with positional claims; Hoare-style totality) + extracted-model correspondence"),
 "C17": dict(
    text="Coq theorems: flag lists of initialize and changeConfiguration are equal and flag i <-> type i (over translator-generated tables), the filter law shown(cfg) = filter (not excluded cfg) shown(all_on) under the special-gate guard for all configurations (2^25 by theorem), same result by all three routes, init faults iff a pattern is bad (repaired: never); refutations (five-flag gate, coupled types, dead flag, duplicate file rule) listed. Correspondence: real server under generated configurations vs filtered all-on run.",
    design="5/C17", technique="Coq proof (filter law for all configurations; ties to generated tables by vm_compute) + extracted-model correspondence through the real server"),
 "C18": dict(
    text="Coq theorems: the file index after any insert/remove history equals the index of the surviving files (C18_index_refines_fixed, for the repaired RemoveOneFile), module resolution conforms to the documented mapping on the guarded class, type-6 iff no matching file, the three features agree under a unique best match, answers react to create/delete; refutations (dotted path cut, dofile without suffix, created file not re-analysed, ./ prefix) listed. Correspondence: directory trees and event histories through the real server and the exported index functions.",
    design="5/C18", technique="Coq proof (refinement of the index to a set of files by induction over histories; string lemmas) + extracted-model correspondence"),
 "C19": dict(
    text="Coq theorems for ALL files (no fragment restriction; outline_of_bytes = parse, analyse, merge, FindAllSymbol of the repaired code): every entry and child has a well-formed range when the AST Locs are (C19_range_well_formed); every non-function entry contains its declaring identifier and starts at it, children of an entry end inside it (C19_range_contains_decl_partial, C19_children_inside_partial - no hypothesis); completeness: the last declaration of every top-level local, every lexically global assignment target (C19_outline_globals_lexical, Lua scoping) and every function statement has an entry at its declaring identifier (C19_outline_complete_partial); a workspace-symbol candidate exists for every such global (C19_workspace_candidate_partial). "
         "Full statements are stated and refuted with witnesses where the code deviates (function-valued assignment range, shadowed top-level local, member defined before its global). Correspondence: documentSymbol / workspace symbol of the real server vs model vs reference declaration list; the fuzzy matcher / sort / truncation of workspace/symbol is covered by correspondence only.",
    design="5/C19, 11", technique="Coq proof (nested induction over the analysis with frame signatures; flat Loc invariants) + refutation witnesses + differential correspondence of documentSymbol / workspace symbol"),
 "C20": dict(
    text="Coq theorems, one per check: reported(type) <-> documented pattern at exactly that node (C20_t21/t15/t16/t13/t7/t8/t20/t5/t14/t19 iff, exact or under a stated guard with non-vacuity examples), the published reports are exactly the checks of visited nodes, each once (C20_once), visited = all nodes under the stated guard; CompExp = structural equality modulo Locs without constructors; 13 refutation witnesses computed from source text, listed as findings; C20_full_refuted. Correspondence: type 5/7/8/13/14/15/16/19/20/21 diagnostics of the real analysis on generated programs.",
    design="5/C20", technique="Coq proof (per-check iff by induction over the AST, NoDup of reports) + refutation witnesses + extracted-model correspondence"),
}
NOT_YET = "check not built yet in this round (planned, see DESIGN.md 5); not a claim that the technique cannot apply"

def main():
    checks = []
    for pid in ALL:
        if pid not in CLAIMS:
            continue
        c = CLAIMS[pid]
        checks.append({
            "property_id": pid,
            "quick_cmd": "bin/check %s quick" % pid,
            "thorough_cmd": "bin/check %s thorough" % pid,
            "evidence_file": "/verif/evidence/%s.json" % pid,
            "replay_cmd_template": "bin/replay {path}",
            "engine": "coq-model+correspondence",
            "level_claimed": {"category": "proof", "text": c["text"], "design_ref": c["design"]},
            "level_note": c.get("note", COMMON_NOTE),
            "technique": c["technique"],
        })
    man = {
        "version": 1,
        "setup_cmd": "bin/setup",
        "hooks": {
            "guard": "verif",
            "enable": "go build -tags verif (harness module /verif/harness, replace luahelper-lsp => /repo/luahelper-lsp)",
            "baseline_off_cmd": "cd /repo/luahelper-lsp && GOFLAGS=-mod=mod GOPROXY=off GOSUMDB=off GOTOOLCHAIN=local go test -vet=off -count=1 -timeout 25m ./...",
            "source_commits": json.load(open(os.path.join(HERE, "lib", "hook_commits.json"))),
            "add_only": True,
        },
        "engines": [
            {"name": "coq-model+correspondence", "path": "/verif/coq, /verif/ocaml, /verif/harness, /verif/translator, /verif/checks",
             "serves_properties": sorted(CLAIMS), "kind_free_text": "Coq 8.16.1 development (models, specs, proofs, property files), models extracted to OCaml, Go harness rebuilt from /repo, go/ast translator regenerating tables"},
        ],
        "checks": checks,
        "notes": "Known findings: /verif/known_findings/<id>.json (one committed file per property; never written at run time). bin/check <id> <tier>; VERIF_SEED honoured.",
        "not_applicable": [{"property_id": p, "reason": NOT_YET} for p in ALL if p not in CLAIMS],
    }
    json.dump(man, open(os.path.join(HERE, "MANIFEST.json"), "w"), indent=1)
    print("claimed:", sorted(CLAIMS))

if __name__ == "__main__":
    main()
