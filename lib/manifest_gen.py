#!/usr/bin/env python3
# Regenerates /verif/MANIFEST.json from the table below (run by hand after editing; never at check time).
import json, os
HERE = os.path.dirname(os.path.dirname(os.path.abspath(__file__)))
ALL = ["C%02d" % i for i in range(1, 21)]

COMMON_NOTE = ("Trusted: Coq 8.16.1 kernel (+ vm_compute), extraction with ExtrOcamlBasic only, the OCaml drivers, the Go harness "
               "(build tag verif, add-only hooks), the Python generators; the model is tied to /repo by the translator "
               "(coq/Generated regenerated each run) and/or by the sampled correspondence check. See DESIGN.md 8.")

CLAIMS = {
 "C02": dict(
    text="Coq theorems about an executable model of offsetForStartAndEnd / ApplyContentChanges / the didOpen-didChange-didSave-didClose cache machine: "
         "for all valid-UTF-8 documents and all conformant multi-document histories the server cache equals the client's text (C02_sync_history_fixed: the full statement, unguarded, for the repaired code now in /repo; "
         "the pre-fix code is kept in the model under fx=false with its exact guard and refutation witnesses); model tied to the code by differential correspondence through the real handlers on every run.",
    design="5/C02", technique="Coq proof (induction over code points and over notification histories; byte sweeps by vm_compute) + extracted-model correspondence through the real LSP handlers"),
 "C13": dict(
    text="Coq theorems about an executable model of the UTF-8 detector / converter (for all texts: identity on valid UTF-8 without 2-byte characters, exact characterisation of the detector, structural soundness; refutation witness for 2-byte characters = known finding) "
         "and of comment attachment; model tied to the code by differential correspondence (implementation vs. model extracted to OCaml) on every run.",
    design="5/C13", technique="Coq proof (induction over code points; finite byte sweeps by vm_compute lifted with forallb_forall) + extracted-model correspondence"),
}
NOT_YET = "check not built yet in this round (planned, see DESIGN.md 5); not a claim that the technique cannot apply"

def main():
    checks = []
    for pid in ALL:
        if pid not in CLAIMS:
            continue
        c = CLAIMS[pid]
        checks.append({
            "property_id": pid,
            "quick_cmd": "bin/check %s quick" % pid,
            "thorough_cmd": "bin/check %s thorough" % pid,
            "evidence_file": "/verif/evidence/%s.json" % pid,
            "replay_cmd_template": "bin/replay {path}",
            "engine": "coq-model+correspondence",
            "level_claimed": {"category": "proof", "text": c["text"], "design_ref": c["design"]},
            "level_note": c.get("note", COMMON_NOTE),
            "technique": c["technique"],
        })
    man = {
        "version": 1,
        "setup_cmd": "bin/setup",
        "hooks": {
            "guard": "verif",
            "enable": "go build -tags verif (harness module /verif/harness, replace luahelper-lsp => /repo/luahelper-lsp)",
            "baseline_off_cmd": "cd /repo/luahelper-lsp && GOFLAGS=-mod=mod GOPROXY=off GOSUMDB=off GOTOOLCHAIN=local go test -vet=off -count=1 -timeout 25m ./...",
            "source_commits": json.load(open(os.path.join(HERE, "lib", "hook_commits.json"))),
            "add_only": True,
        },
        "engines": [
            {"name": "coq-model+correspondence", "path": "/verif/coq, /verif/ocaml, /verif/harness, /verif/translator, /verif/checks",
             "serves_properties": sorted(CLAIMS), "kind_free_text": "Coq 8.16.1 development (models, specs, proofs, property files), models extracted to OCaml, Go harness rebuilt from /repo, go/ast translator regenerating tables"},
        ],
        "checks": checks,
        "notes": "Known findings: /verif/known_findings/<id>.json (one committed file per property; never written at run time). bin/check <id> <tier>; VERIF_SEED honoured.",
        "not_applicable": [{"property_id": p, "reason": NOT_YET} for p in ALL if p not in CLAIMS],
    }
    json.dump(man, open(os.path.join(HERE, "MANIFEST.json"), "w"), indent=1)
    print("claimed:", sorted(CLAIMS))

if __name__ == "__main__":
    main()
