#!/usr/bin/env python3
# Regenerates /verif/MANIFEST.json from the table below (run by hand after editing; never at check time).
import json, os
HERE = os.path.dirname(os.path.dirname(os.path.abspath(__file__)))
ALL = ["C%02d" % i for i in range(1, 21)]

COMMON_NOTE = ("Trusted: Coq 8.16.1 kernel (+ vm_compute), extraction with ExtrOcamlBasic only, the OCaml drivers, the Go harness "
               "(build tag verif, add-only hooks), the Python generators; the model is tied to /repo by the translator "
               "(coq/Generated regenerated each run) and/or by the sampled correspondence check. See DESIGN.md 8.")

CLAIMS = {
 "C01": dict(
    text="Coq theorems (all inputs, no bound): the model lexer returns a token list for every byte string; the model parser returns a result (never Fault, never out of fuel; recursion depth linear in the input) for every byte string; the numeral classifier, the annotation line/fragment parser, the class traversal and alias/element-type resolution terminate without fault for every input/workspace (the crashes repaired by fix: commits are regression theorems). Every modelled core is tied to the code inside THIS check: parser legs, annotation leg (garbage and deeply nested lines, quote-edge constants), class-hierarchy leg (cycles, diamonds, alias chains through the real server). "
         "Models tied to the code by differential correspondence (tokens, ASTs with every Loc, error lists) plus a server robustness leg (real server in a subprocess, crash/timeout watchdog; regex-hostile settings, odd statement shapes, unsaved damage) - that leg is a search, not a proof; it found two further crashes (ReferFrameFiles names in regexps, (\"_G\").x = 1), both repaired. Partial: Go stack limits, handlers outside the modelled cores and wall-clock time are not in the model (DESIGN 5/C01, 9).",
    design="5/C01", technique="Coq proof (fuel/measure arguments, Hoare-style post-conditions over the parser monad) + extracted-model correspondence + subprocess robustness leg"),
 "C02": dict(
    text="Coq theorems about an executable model of offsetForStartAndEnd / ApplyContentChanges / the didOpen-didChange-didSave-didClose cache machine: "
         "for all valid-UTF-8 documents and all conformant multi-document histories the server cache equals the client's text (C02_sync_history_fixed: the full statement, unguarded, for the repaired code now in /repo; "
         "the pre-fix code is kept in the model under fx=false with its exact guard and refutation witnesses); model tied to the code by differential correspondence through the real handlers on every run.",
    design="5/C02", technique="Coq proof (induction over code points and over notification histories; byte sweeps by vm_compute) + extracted-model correspondence through the real LSP handlers"),
 "C03": dict(
    text="Coq theorems, all inputs: the model parser accepts EXACTLY the manual's Lua 5.3/5.4 grammar at token level, in both directions and with the pipeline's own fuel: C03_parse_complete(_bytes) (every Chunk parses without parse error), C03_parse_sound(_bytes) (no parse error => Chunk; plain Chunk since the fix: commit that rejects `(a) = 1`), C03_parse_iff, and the guard-free diagnostics-level statement C03_flagged_iff: a file is NOT flagged iff its token list is a Chunk and carries no lexical error (caveat: 31 or more lexical errors give the too-many-errors result). Numerals: accepted iff Numeral of the Lua + LuaJIT grammar, values exact, Integer/Float node iff, no fault; keyword table tied to the generated token table. Model tied to the code on every run: model parser = Go parser (AST with every Loc, error list) = independent reference recogniser on generated programs and grammar-aware mutants; lexical deviations (bad escapes accepted) are listed findings; lexical grammar of strings/comments is covered by correspondence only.",
    design='5/C03, 11', technique='Coq proof (mutual rule induction for completeness, fuel induction with error-count chaining for soundness; numeral grammar iff) + extracted-model correspondence (model parser = Go parser = reference recogniser)'),
 "C04": dict(
    text="Coq theorems: C04_tok_range_exact (every token of an error-free valid-UTF-8 file in the guarded class is reported with a range inside the document, start<=end, covering exactly the token text under the LSP reading); C04_name_is_token + C04_name_range_exact (every name-bearing AST node - NameExp, local names, parameters, loop variables, local function names - carries the Loc of an identifier token with that text, hence an exact range: what definition / references / rename / symbols forward); C04_ast_locs_within/ordered_partial (every AST Loc lies between the first and last token with start<=end, relative to a boolean order guard on the token list). The planned 'every Loc spans its subtree' is REFUTED for the parser as it is (C04_ast_loc_wf_refuted: the call Loc of `a.b(c)` in expression position starts at the last callee token; empty-block Locs are inverted); 5 file classes refuted with witnesses (escapes, long brackets, astral, LF-CR, BOM) and listed as findings. Model lexer/parser tied to the Go code by correspondence on every token Loc and every named AST Loc, cross-read by an independent Python slicer.",
    design='5/C04, 11', technique='Coq proof (scan invariant with UTF-8/UTF-16 lemmas; parser stream invariant over the Hoare-style monad) + extracted-model correspondence on token and name ranges'),
 "C05": dict(
    text="Coq theorem C05_define_local_partial, for ALL programs of the fragment: with the Laid2 layout (Locs are token spans incl. empty if-branches; no function in a numeric-for step = class B5) and no re-pointing assignment (no_repoint = class B4), go-to-definition at EVERY cursor column of every occurrence that Lua binds to a local and that carries no class tag (B1-B3, per occurrence) returns exactly Lua's declaration; intermediate theorems: the scope tree of the analysis is the syntactic skeleton (C05_scope_tree_is_skeleton), FindMinScope's chain contains every binder-visible declaration (C05_chain_covers_binder_env). "
         "The full statement and the originally planned guard are refuted (6 class witnesses from source bytes; Laid alone is too weak for hand-built ASTs), non-vacuity examples (33 and 43 occurrences; the evidence reports which share of generated programs satisfies the guards). Model = code and the global part are decided by correspondence over every identifier cursor of generated workspaces through the real server. Partial: B4/B5 are excluded program-wide, globals by correspondence.",
    design="5/binder, 11", technique="Coq proof (skeleton of the scope tree, position keys, FindMinScope scan, main induction over the traversal) + refutation witnesses + correspondence through the real language server (all cursors)"),
 "C06": dict(
    text="Coq theorems for every workspace: every location find-references returns is the target's declaration or a visited occurrence spelled with the queried name (C06_references_shape); full statement (answer = occurrences of the same variable per the reference binder) stated over file bytes and refuted with a witness per class (B1-B5, doc_end, undefined/split/mixed-level global, same position other file); guard non-vacuity example. Correspondence through the real server at every identifier cursor, deviations must fall in a listed class.",
    design="5/binder", technique="Coq proof (shape theorem) + refutation witnesses by vm_compute + extracted model/reference correspondence through the real server"),
 "C07": dict(
    text="Executable Coq models of the usage marking / unused sweep / undefined-global lookup (Model/Usage.v) and of the reference (Spec/LuaUsage.v); refutation theorems with witnesses (multi-local order, position filter after a long comment, later-defined-elsewhere) and a guard example; correspondence of type 2/3/4 diagnostics of the real analysis vs model vs reference on generated workspaces. Partial: the guarded iff theorems (C07_undefined_iff / C07_unused_iff of DESIGN) are not yet proved.",
    design="5/binder", technique="Coq model + reference, refutation theorems by vm_compute; differential correspondence of published diagnostics"),
 "C08": dict(
    text='Coq theorem C08_full_proved / C08_full_every_file: for EVERY conformant event history (open/change/save/close/watched create-change-delete, files inside and outside the workspace) of the repaired diagnostics state machine, whenever no document has unsaved edits the client view equals that of a fresh start (with the open outside documents re-opened), and a buffer with unsaved edits shows its syntax errors if any, else its saved non-syntax diagnostics - no guard and no refuted class left (7 fix: commits; every former witness is a before/after regression theorem); view invariant, index refinement for all histories. Analysis results are Section variables (their determinism is C09). Model tied to the real server (channel.Direct, raw JSON, one process per history) by correspondence after every event and against a fresh server.',
    design='5/C08, 11', technique='Coq proof (invariant by induction over event histories, refinement to fresh start) + extracted-model correspondence against the real server and a fresh server'),
 "C09": dict(
    text="Coq theorems for the repaired code (fix: 2030ecc, files visited in name order, score ties broken by path): C09_merge_perm_full / C09_merge_perm_table (for every permutation of the file list the workspace global table is the same) and C09_best_match_perm_full (for every permutation of the candidates the chosen module file is the same) - no uniqueness guard; the repair keeps the preference rules (C09_merge_fixed_least/minimal, C09_best_match_fixed_argmax); arrival order of per-file results and the SET of a scope's diagnostics are order-free; the pre-fix variants stay refuted with witnesses. Correspondence: exported merge/best-match functions called in explicit orders, whole-server repetitions incl. a real-server repetition leg: observables must be SINGLETONS over repetitions. Partial: three further order-dependent choices (same ---@class in two files; workspace/symbol and references cut beyond their caps) are open findings with proposed diffs, reproduced by the repetition leg, not modelled.",
    design='5/C09, 11', technique='Coq proof (Permutation induction, sorted visit order, minimality) + extracted-model correspondence + repeated fresh-server runs demanding singleton observables'),
 "C10": dict(
    text="Coq theorems about a labelled transition system of the jrpc2 dispatcher (queue, concurrency 4, notification barrier, one mutex): lock discipline implies mutual exclusion and race freedom for all reachable states, no deadlock, serialisability for handlers with one critical section; the handler table is REGENERATED from the Go source by the translator on every run and C10_handlers_locked / C10_only_known_split / C10_background_unlocked are re-proved by vm_compute over it; since the fix: commits 1b70b29 and 4ebf311 all three exception lists are empty and C10_real_race_free (no reachable state of the real handler table has a data race on the modelled state) holds. "
         "Correspondence/search: real server built with -race flooded with overlapping schedules derived from model runs. Partial: locks below the request mutex and the callee-effect table are trusted.",
    design="5/C10", technique="Coq proof (invariant over reachable states; vm_compute over translator-generated handler table) + race-detector schedules against the real server"),
 "C11": dict(
    text="Coq theorems: rename is the same computation as find-references for every request (C11_rename_is_references, C11_run_rename_is_run_refs), hence C11's full statement is equivalent to C06's (C11_full_iff_C06_full); every edit covers the declaration or an occurrence spelled with the old name (C11_edits_cover_old_name); full statement refuted with a witness per class. Correspondence: rename edits of the real server at every identifier cursor vs model vs reference binder.",
    design="5/binder", technique="Coq proof (equivalence to C06, shape theorem) + refutation witnesses + correspondence through the real server"),
 "C12": dict(
    text="Coq theorems for EVERY workspace with distinct file names: highlight(p) = references(p) restricted to the file (C12_highlight_is_refs_in_file), hover says local iff definition answers with a local declaration (C12_hover_local_iff_definition_local); clauses 1-2 (references resolve to the same declaration; p is among the references of its own declaration) are stated over file bytes and refuted with witnesses per class. Correspondence: the four real LSP answers at every identifier cursor; the relation itself is evaluated by Coq-extracted code.",
    design="5/binder", technique="Coq proof (clauses 3-4 for all workspaces) + refutation witnesses + extracted relation checked on the real server's answers"),
 "C13": dict(
    text="Coq theorems about an executable model of the UTF-8 detector / converter (for all texts: identity on valid UTF-8 without 2-byte characters, exact characterisation of the detector, structural soundness; refutation witness for 2-byte characters = known finding) "
         "and of the comment map, attachment lookup and both clean-ups (C13_gap_entries: grouping of comment lines per gap; C13_comment_attach: lookup = spec under the boolean attach_guard; C13_cleanup*: exact characterisation), refutation for a block starting with an empty line; model tied to the code by differential correspondence on every run, incl. hover text (label + documentation) through the real server. Partial: whole-file attachment composes these by correspondence only; labels modelled for the forms of the quantifier.",
    design="5/C13", technique="Coq proof (induction over code points; finite byte sweeps by vm_compute lifted with forallb_forall) + extracted-model correspondence"),
 "C14": dict(
    text="Coq theorems: (only those) for every workspace and cursor every completion label is a global/undefined name of the workspace or a variable of a scope that CONTAINS the cursor declared at or before it - never a later or non-enclosing local (C14_labels_only_visible); (every visible) for all fragment programs with the Laid2 layout and no re-pointing assignment, every local, parameter and loop variable the reference binder has in scope at an occurrence is among the local labels at every cursor column of it (C14_complete_locals_partial, model level); the full statement over file bytes is stated and refuted in class B5. Correspondence: completion labels of the real server at every prefix end of every identifier (unique-name programs decide; ordinary programs correspondence only).",
    design="5/binder, 11", technique="Coq proof (label soundness via the FindMinScope chain lemma; completeness via the position-resolver induction) + refutation witness + correspondence through the real server"),
 "C15": dict(
    text="Coq theorems: the class traversal terminates and its member set equals the reflexive-transitive closure of parent/alias edges for every well-formed type map (C15_members_eq_closure, sound+complete, cycles and diamonds included), element/value type resolution is exact and terminating for the repaired code (C15_fixed_*); refutations (same-file shadowing, union order) listed. Correspondence: generated class graphs through completion/definition of the real server in a subprocess.",
    design="5/C15", technique="Coq proof (closure = traversal by induction with visited-set invariant; measure for termination) + extracted-model correspondence"),
 "C16": dict(
    text="Coq theorems: parse(show t) = t for every documented type of unbounded depth and every documented statement form (C16_type_roundtrip, C16_stat_roundtrip*), trailing comment kept, a malformed line affects only itself (C16_line_isolation, C16_isolation_general), parser total; nested arrays T[][].. of any depth, enum comments, Lines/Stats alignment and parentheses under [] are proved for the repaired code (4 fix: commits); the implementation's own printer round-trips on the guarded fragment with refutations for fun and const. Correspondence: ParseCommentFragment / TypeConvertStr on grammar derivations and corruptions.",
    design="5/C16", technique="Coq proof (induction on type size with positional claims; Hoare-style totality) + extracted-model correspondence"),
 "C17": dict(
    text='Coq theorems: C17_full (for every configuration, by every route - client options, later settings change, luahelper.json - the diagnostics shown are exactly those of the all-enabled run that the configuration does not exclude) and C17_filter_law without guard, for the repaired code (6 fix: commits), plus C17_code_is_deployed_variant: the translator derives from the Go sources on every run that /repo IS that variant (gate list, flag loop, map allocations, regexp.Compile); flag lists of initialize and changeConfiguration equal and flag i <-> type i over generated tables; the repaired code never faults on any settings. Every former refutation is a before/after regression theorem. Correspondence: real server under generated configurations (all single toggles, random subsets, gate boundary, ignore rules literal/regex, three routes) vs filtered all-on run.',
    design='5/C17, 11', technique='Coq proof (filter law for all configurations; ties to translator-generated tables by vm_compute) + extracted-model correspondence through the real server'),
 "C18": dict(
    text='Coq theorems: the file index after any insert/remove history equals the index of the surviving files (C18_index_refines_fixed), module resolution conforms to the documented mapping on the guarded class, type-6 iff no matching file, the three features agree, answers react to create/delete; since the deterministic-order repair the resolution is single-valued for all histories (C18_resolution_single_fixed, C18_no_ambiguity_fixed); refutations (dotted path cut, dofile without suffix, created file not re-analysed, ./ prefix) listed as findings. Correspondence: directory trees and event histories through the real server and the exported index functions.',
    design='5/C18, 11', technique='Coq proof (refinement of the index to a set of files by induction over histories; string lemmas) + extracted-model correspondence'),
 "C19": dict(
    text="Coq theorems for ALL files (no fragment restriction; outline_of_bytes = parse, analyse, merge, FindAllSymbol of the repaired code): every entry and child has a well-formed range when the AST Locs are (C19_range_well_formed); every non-function entry contains its declaring identifier and starts at it, children of an entry end inside it (C19_range_contains_decl_partial, C19_children_inside_partial - no hypothesis); completeness: the last declaration of every top-level local, every lexically global assignment target (C19_outline_globals_lexical, Lua scoping) and every function statement has an entry at its declaring identifier (C19_outline_complete_partial); a workspace-symbol candidate exists for every such global (C19_workspace_candidate_partial). "
         "Full statements are stated and refuted with witnesses where the code deviates (function-valued assignment range, shadowed top-level local, member defined before its global). Correspondence: documentSymbol / workspace symbol of the real server vs model vs reference declaration list; the fuzzy matcher / sort / truncation of workspace/symbol is covered by correspondence only.",
    design="5/C19, 11", technique="Coq proof (nested induction over the analysis with frame signatures; flat Loc invariants) + refutation witnesses + differential correspondence of documentSymbol / workspace symbol"),
 "C20": dict(
    text="Coq theorems, one per check, for the repaired code (6 fix: commits; the model is parameterised by fix flags and `deployed` is what /repo runs): reported(type) <-> documented pattern at exactly that node without guard for 5, 15, 16, 19, 20, 21, 13, 7, 8 and soundness + named-operand completeness for 14 (C20_*_fixed / *_deployed); the published reports are exactly the checks of visited nodes, each once; executable spec = declarative patterns; whole file: C20_full_deployed_guarded (reports = demanded places for every file passing the boolean file guard). Remaining deviations are refuted with witnesses and listed (identical unnamed operands such as 1 == 1, surplus local values never visited, Loc collisions from the lexer's column defects); 12 before/after regression examples. Correspondence: type 5/7/8/13/14/15/16/19/20/21 diagnostics of the real analysis on generated programs with planted instances and near-misses.",
    design='5/C20, 11', technique='Coq proof (per-check iff by induction over the AST, NoDup of reports, whole-file composition) + refutation witnesses + extracted-model correspondence'),
}
NOT_YET = "check not built yet in this round (planned, see DESIGN.md 5); not a claim that the technique cannot apply"

def main():
    checks = []
    for pid in ALL:
        if pid not in CLAIMS:
            continue
        c = CLAIMS[pid]
        checks.append({
            "property_id": pid,
            "quick_cmd": "bin/check %s quick" % pid,
            "thorough_cmd": "bin/check %s thorough" % pid,
            "evidence_file": "/verif/evidence/%s.json" % pid,
            "replay_cmd_template": "bin/replay {path}",
            "engine": "coq-model+correspondence",
            "level_claimed": {"category": "proof", "text": c["text"], "design_ref": c["design"]},
            "level_note": c.get("note", COMMON_NOTE),
            "technique": c["technique"],
        })
    man = {
        "version": 1,
        "setup_cmd": "bin/setup",
        "hooks": {
            "guard": "verif",
            "enable": "go build -tags verif (harness module /verif/harness, replace luahelper-lsp => /repo/luahelper-lsp)",
            "baseline_off_cmd": "cd /repo/luahelper-lsp && GOFLAGS=-mod=mod GOPROXY=off GOSUMDB=off GOTOOLCHAIN=local go test -vet=off -count=1 -timeout 25m ./...",
            "source_commits": json.load(open(os.path.join(HERE, "lib", "hook_commits.json"))),
            "add_only": True,
        },
        "engines": [
            {"name": "coq-model+correspondence", "path": "/verif/coq, /verif/ocaml, /verif/harness, /verif/translator, /verif/checks",
             "serves_properties": sorted(CLAIMS), "kind_free_text": "Coq 8.16.1 development (models, specs, proofs, property files), models extracted to OCaml, Go harness rebuilt from /repo, go/ast translator regenerating tables"},
        ],
        "checks": checks,
        "notes": "Known findings: /verif/known_findings/<id>.json (one committed file per property; never written at run time). bin/check <id> <tier>; VERIF_SEED honoured.",
        "not_applicable": [{"property_id": p, "reason": NOT_YET} for p in ALL if p not in CLAIMS],
    }
    json.dump(man, open(os.path.join(HERE, "MANIFEST.json"), "w"), indent=1)
    print("claimed:", sorted(CLAIMS))

if __name__ == "__main__":
    main()
