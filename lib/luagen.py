# Grammar-directed generator of Lua 5.3/5.4 (+LuaJIT numerals) token sequences, renderer with arbitrary
# white space / comments / line endings, token-level mutations, and an independent reference recogniser
# (hand-written recursive descent over tokens, following the manual's grammar) used to validate model and spec.
import random

KEYWORDS = ["and", "break", "do", "else", "elseif", "end", "false", "for", "function", "goto", "if", "in", "local",
            "nil", "not", "or", "repeat", "return", "then", "true", "until", "while"]
BINOPS = ["+", "-", "*", "/", "//", "^", "%", "&", "~", "|", ">>", "<<", "..", "<", "<=", ">", ">=", "==", "~=", "and", "or"]
UNOPS = ["-", "not", "#", "~"]
NAMES = ["a", "b", "c", "x", "y", "foo", "bar", "t", "self", "_", "_G", "i", "k", "v", "n1", "A_b", "print", "obj"]


class Tok:
    __slots__ = ("kind", "text")

    def __init__(self, kind, text):
        self.kind, self.text = kind, text      # kind: name number string kw op ; text: bytes

    def __repr__(self):
        return "%s:%r" % (self.kind, self.text)


def T(s):
    if s in KEYWORDS:
        return Tok("kw", s.encode())
    return Tok("op", s.encode())


class Gen:
    def __init__(self, rng, names=None, strings="mixed", numbers="all", max_depth=4):
        self.r = rng
        self.names = names or NAMES
        self.strings = strings
        self.numbers = numbers
        self.max_depth = max_depth
        self.loop = 0

    # ---- lexical items
    def name(self):
        return Tok("name", self.r.choice(self.names).encode())

    def number(self):
        r = self.r
        k = r.random()
        if self.numbers == "simple" or k < 0.45:
            return Tok("number", str(r.choice([0, 1, 2, 3, 7, 10, 42, 100, 255, 65536, r.randrange(10 ** 6)])).encode())
        forms = ["3.14", "0.5", ".5", "5.", "1e10", "1E-3", "2.5e+4", "0x10", "0XfF", "0xA.8p1", "0x.1p-2", "0x1p4",
                 "9223372036854775807", "9223372036854775808", "1e999", "0xffffffffffffffff", "10LL", "10ull", "0x10ULL",
                 "0x7fll", "3e0", "00012", "1.", "0x1.", "0xep1"]
        return Tok("number", r.choice(forms).encode())

    def short_string(self):
        r = self.r
        q = r.choice(['"', "'"])
        n = r.choice([0, 1, 2, 3, 5, 8])
        parts = []
        for _ in range(n):
            k = r.random()
            if k < 0.55 or self.strings == "plain":
                parts.append(r.choice("abcxyz 0123_-+*/.,;:(){}[]<>=~#%^&|!?@$"))
            elif k < 0.75 and self.strings in ("mixed", "escapes"):
                parts.append(r.choice(["\\n", "\\t", "\\\\", "\\\"", "\\'", "\\a", "\\b", "\\f", "\\r", "\\v", "\\x41", "\\65",
                                       "\\065", "\\z  ", "\\z\n  ", "\\\n", "\\0", "\\255", "\\u{48}"]))
            elif k < 0.9 and self.strings in ("mixed", "unicode"):
                parts.append(r.choice(["中", "文", "漢", "かな", "한", "€", "…"]))
            elif self.strings in ("mixed", "unicode"):
                parts.append(r.choice(["😀", "𝔘", "🚀"]))
            else:
                parts.append("z")
        body = "".join(parts)
        return Tok("string", (q + body + q).encode("utf8"))

    def long_string(self):
        r = self.r
        lvl = r.choice([0, 0, 0, 1, 2])
        body = "".join(r.choice(["a", "b", " ", "\n", "]", "[", "=", "--", "中", "\r\n", "x y"]) for _ in range(r.choice([0, 1, 3, 6])))
        close = "]" + "=" * lvl + "]"
        while close in body or (body.endswith("]") and lvl == 0) or body.endswith("="):
            body = body.replace(close, "").rstrip("]=")
            if close not in body:
                break
        if lvl == 0 and body.endswith("]"):
            body = body[:-1]
        return Tok("string", ("[" + "=" * lvl + "[" + body + close).encode("utf8"))

    def string(self):
        if self.strings == "none":
            return Tok("string", b'"s"')
        return self.long_string() if self.r.random() < 0.2 and self.strings != "plain" else self.short_string()

    # ---- expressions
    def exp(self, d):
        r = self.r
        if d <= 0:
            return self.simple_exp(0)
        k = r.random()
        if k < 0.45:
            return self.simple_exp(d)
        if k < 0.8:
            return self.exp(d - 1) + [T(r.choice(BINOPS))] + self.exp(d - 1)
        return [T(r.choice(UNOPS))] + self.exp(d - 1)

    def simple_exp(self, d):
        r = self.r
        k = r.random()
        if d <= 0 or k < 0.35:
            c = r.random()
            if c < 0.3:
                return [self.name()]
            if c < 0.55:
                return [self.number()]
            if c < 0.7:
                return [self.string()]
            return [T(r.choice(["nil", "true", "false", "..."]))] if c < 0.85 else [self.name()]
        if k < 0.6:
            return self.prefix_exp(d)
        if k < 0.75:
            return self.table(d)
        if k < 0.85:
            return [T("function")] + self.funcbody(d)
        return [T("(")] + self.exp(d - 1) + [T(")")]

    def prefix_exp(self, d, want=None):
        """want: None any, 'var' must end assignable, 'call' must end in a call"""
        r = self.r
        out = [self.name()] if r.random() < 0.8 else [T("(")] + self.exp(d - 1) + [T(")")]
        n = r.choice([0, 1, 1, 2, 3])
        last = "name" if out[0].kind == "name" else "paren"
        for _ in range(n):
            k = r.random()
            if k < 0.3:
                out += [T("."), self.name()]
                last = "index"
            elif k < 0.5:
                out += [T("[")] + self.exp(d - 1) + [T("]")]
                last = "index"
            else:
                out += self.call_suffix(d)
                last = "call"
        if want == "var" and last not in ("name", "index"):
            out += [T("."), self.name()]
        if want == "call" and last != "call":
            out += self.call_suffix(d)
        return out

    def call_suffix(self, d):
        r = self.r
        out = [T(":"), self.name()] if r.random() < 0.25 else []
        k = r.random()
        if k < 0.7:
            out += [T("(")] + (self.explist(d - 1) if r.random() < 0.75 else []) + [T(")")]
        elif k < 0.85:
            out += self.table(d)
        else:
            out += [self.string()]
        return out

    def explist(self, d):
        out = self.exp(d)
        for _ in range(self.r.choice([0, 0, 1, 2])):
            out += [T(",")] + self.exp(d)
        return out

    def table(self, d):
        r = self.r
        out = [T("{")]
        n = r.choice([0, 1, 2, 3])
        for i in range(n):
            k = r.random()
            if k < 0.3:
                out += [T("[")] + self.exp(d - 1) + [T("]"), T("=")] + self.exp(d - 1)
            elif k < 0.6:
                out += [self.name(), T("=")] + self.exp(d - 1)
            else:
                out += self.exp(d - 1)
            if i < n - 1 or r.random() < 0.3:
                out.append(T(r.choice([",", ";"])))
        return out + [T("}")]

    def funcbody(self, d):
        r = self.r
        out = [T("(")]
        k = r.random()
        if k < 0.2:
            pass
        elif k < 0.3:
            out.append(T("..."))
        else:
            out.append(self.name())
            for _ in range(r.choice([0, 1, 2])):
                out += [T(","), self.name()]
            if r.random() < 0.2:
                out += [T(","), T("...")]
        out.append(T(")"))
        saved = self.loop
        self.loop = 0
        out += self.block(d - 1)
        self.loop = saved
        return out + [T("end")]

    # ---- statements
    def block(self, d, nstats=None):
        r = self.r
        out = []
        n = nstats if nstats is not None else r.choice([0, 1, 1, 2, 3])
        for _ in range(n):
            out += self.stat(d)
        if r.random() < 0.2:
            out.append(T("return"))
            if r.random() < 0.7:
                out += self.explist(d - 1)
            if r.random() < 0.3:
                out.append(T(";"))
        return out

    def stat(self, d):
        out = self.stat0(d)
        if out and out[0].kind == "op" and out[0].text == b"(":
            # `f\n(g)()` is one call in Lua: a statement may start with "(" only after a ";"
            out = [T(";")] + out
        return out

    def stat0(self, d):
        r = self.r
        k = r.random()
        if d <= 0:
            k = k * 0.5
        if k < 0.04:
            return [T(";")]
        if k < 0.22:      # assignment
            out = self.prefix_exp(d, "var")
            for _ in range(r.choice([0, 0, 1])):
                out += [T(",")] + self.prefix_exp(d, "var")
            return out + [T("=")] + self.explist(d - 1)
        if k < 0.34:
            return self.prefix_exp(d, "call")
        if k < 0.44:      # local
            out = [T("local"), self.name()]
            closed = False
            if r.random() < 0.15:
                a = r.choice(["const", "close"])
                closed = a == "close"
                out += [T("<"), Tok("name", a.encode()), T(">")]
            for _ in range(r.choice([0, 0, 1, 2])):
                out += [T(","), self.name()]
                if r.random() < 0.1:
                    a = "const" if closed else r.choice(["const", "close"])
                    closed = closed or a == "close"
                    out += [T("<"), Tok("name", a.encode()), T(">")]
            if r.random() < 0.75:
                out += [T("=")] + self.explist(d - 1)
            return out
        if k < 0.47:
            return [T("::"), self.name(), T("::")]
        if k < 0.50:
            return [T("goto"), self.name()]
        if k < 0.53 and self.loop > 0:
            return [T("break")]
        if k < 0.58:
            return [T("do")] + self.block(d - 1) + [T("end")]
        if k < 0.64:
            self.loop += 1
            b = self.block(d - 1)
            self.loop -= 1
            return [T("while")] + self.exp(d - 1) + [T("do")] + b + [T("end")]
        if k < 0.69:
            self.loop += 1
            b = self.block(d - 1)
            self.loop -= 1
            return [T("repeat")] + b + [T("until")] + self.exp(d - 1)
        if k < 0.78:
            out = [T("if")] + self.exp(d - 1) + [T("then")] + self.block(d - 1)
            for _ in range(r.choice([0, 0, 1, 2])):
                out += [T("elseif")] + self.exp(d - 1) + [T("then")] + self.block(d - 1)
            if r.random() < 0.4:
                out += [T("else")] + self.block(d - 1)
            return out + [T("end")]
        if k < 0.84:
            self.loop += 1
            b = self.block(d - 1)
            self.loop -= 1
            out = [T("for"), self.name(), T("=")] + self.exp(d - 1) + [T(",")] + self.exp(d - 1)
            if r.random() < 0.3:
                out += [T(",")] + self.exp(d - 1)
            return out + [T("do")] + b + [T("end")]
        if k < 0.89:
            self.loop += 1
            b = self.block(d - 1)
            self.loop -= 1
            out = [T("for"), self.name()]
            for _ in range(r.choice([0, 1, 2])):
                out += [T(","), self.name()]
            return out + [T("in")] + self.explist(d - 1) + [T("do")] + b + [T("end")]
        if k < 0.95:
            out = [T("function"), self.name()]
            for _ in range(r.choice([0, 0, 1, 2])):
                out += [T("."), self.name()]
            if r.random() < 0.25:
                out += [T(":"), self.name()]
            return out + self.funcbody(d)
        return [T("local"), T("function"), self.name()] + self.funcbody(d)

    def chunk(self):
        return self.block(self.max_depth, nstats=self.r.choice([1, 2, 3, 4, 6]))


# ---------------------------------------------------------------------------------------------- rendering
SEPS_PLAIN = [b" ", b" ", b" ", b"\n", b"  ", b"\t"]
SEPS_WILD = [b" ", b"\n", b"\t", b"\r\n", b"\r", b" \n ", b"\n\r", b" --c\n", b" -- comment \xe4\xb8\xad\n", b" --[[ x ]] ",
             b"--[==[\n multi ]] \n]==]", b"\x0b", b"\x0c", b"\n\n", b" ---@type number\n",
             # short comments that only LOOK like long-bracket openers, and long comments with odd levels / contents
             b" --[= note\n", b" --[==] section [==]\n", b" --[\n", b" --[ x ]\n", b" --[=====\r\n", b" ---[[ not long\n",
             b" --[=[ one ]=] ", b" --[===[ ]] ]=] ]==] ]===] ", b" --[[\n--]] ", b" --]]\n", b" --\n", b" --[[]] "]


def render(tokens, rng, style="plain", lead=True):
    seps = SEPS_PLAIN if style == "plain" else SEPS_WILD
    out = bytearray()
    if lead and style != "plain" and rng.random() < 0.2:
        out += rng.choice([b"\n", b"  ", b"-- head\n", b"#!/usr/bin/lua\n", b"\xef\xbb\xbf", b"--[[ h ]]\n"])
    if tokens and tokens[0].text.startswith(b"#") and (not out or out.endswith(b"\xbf")):
        out += b" "                       # a leading "#" would make the first line a shebang line
    for i, t in enumerate(tokens):
        if i > 0:
            sep = rng.choice(seps)
            if out.endswith(b"-") and sep.startswith(b"-"):
                sep = b" " + sep          # "-" then "--c" would read as the comment "---c"
            out += sep
        out += t.text
    if style != "plain" and rng.random() < 0.3:
        out += rng.choice([b"\n", b" ", b" -- tail", b"\r\n", b" --[[ t ]]"])
    return bytes(out)


# ---------------------------------------------------------------------------------------------- mutations
def mutate(tokens, rng):
    toks = list(tokens)
    if not toks:
        return toks, "none"
    k = rng.random()
    i = rng.randrange(len(toks))
    if k < 0.3:
        del toks[i]
        return toks, "delete"
    if k < 0.5:
        toks.insert(i, toks[i])
        return toks, "dup"
    if k < 0.7 and len(toks) > 1:
        j = min(i, len(toks) - 2)
        toks[j], toks[j + 1] = toks[j + 1], toks[j]
        return toks, "swap"
    if k < 0.80:
        toks[i] = T(rng.choice(KEYWORDS))
        return toks, "kwsubst"
    if k < 0.86:
        # grammar-aware: flip a name separator (a.b <-> a:b) - function names, method calls, field access
        seps = [j for j, t in enumerate(toks) if t.kind == "op" and t.text in (b".", b":")]
        if seps:
            j = rng.choice(seps)
            toks[j] = T(":" if toks[j].text == b"." else ".")
            return toks, "sepflip"
    if k < 0.92:
        # grammar-aware: extend a name by one more segment (`a:m` -> `a:m.x`, `a.b` -> `a.b:c`, `x` -> `x.y`)
        names = [j for j, t in enumerate(toks) if t.kind == "name"]
        if names:
            j = rng.choice(names)
            toks[j + 1:j + 1] = [T(rng.choice([".", ":"])), Tok("name", rng.choice([b"x", b"m", b"n1"]))]
            return toks, "segment"
    if k < 0.95:
        toks.insert(i, T(rng.choice(["(", ")", "{", "}", "[", "]", "=", ",", ";", ".", ":", "::", "..", "...", "<", ">", "#", "-",
                                     "end", "then", "do", "local", "function", "return"])))
        return toks, "insert"
    toks[i] = T(rng.choice(["(", ")", "{", "}", "[", "]", "=", ",", ";", ".", ":", "::", "..", "...", "<", ">", "#", "-"]))
    return toks, "opsubst"


# ---------------------------------------------------------------------------------------------- reference recogniser
class Ref:
    """Recursive descent for the Lua 5.4 grammar over tokens (manual section 9) - independent of the Coq model."""
    PRI = {"or": (1, 1), "and": (2, 2), "<": (3, 3), ">": (3, 3), "<=": (3, 3), ">=": (3, 3), "~=": (3, 3), "==": (3, 3),
           "|": (4, 4), "~": (5, 5), "&": (6, 6), "<<": (7, 7), ">>": (7, 7), "..": (9, 8), "+": (10, 10), "-": (10, 10),
           "*": (11, 11), "/": (11, 11), "//": (11, 11), "%": (11, 11), "^": (14, 13)}

    class Bad(Exception):
        pass

    def __init__(self, tokens):
        self.t = tokens
        self.i = 0

    def peek(self):
        if self.i < len(self.t):
            t = self.t[self.i]
            return t.text.decode("latin1") if t.kind in ("kw", "op") else "<" + t.kind + ">"
        return "<eof>"

    def adv(self):
        self.i += 1

    def want(self, s):
        if self.peek() != s:
            raise Ref.Bad()
        self.adv()

    def block_follow(self):
        return self.peek() in ("<eof>", "end", "else", "elseif", "until")

    def block(self):
        while not self.block_follow():
            if self.peek() == "return":
                self.adv()
                if not self.block_follow() and self.peek() != ";":
                    self.explist()
                if self.peek() == ";":
                    self.adv()
                if not self.block_follow():
                    raise Ref.Bad()
                return
            self.stat()

    def stat(self):
        p = self.peek()
        if p == ";":
            self.adv()
        elif p == "if":
            self.adv(); self.exp(); self.want("then"); self.block()
            while self.peek() == "elseif":
                self.adv(); self.exp(); self.want("then"); self.block()
            if self.peek() == "else":
                self.adv(); self.block()
            self.want("end")
        elif p == "while":
            self.adv(); self.exp(); self.want("do"); self.block(); self.want("end")
        elif p == "do":
            self.adv(); self.block(); self.want("end")
        elif p == "for":
            self.adv(); self.want("<name>")
            if self.peek() == "=":
                self.adv(); self.exp(); self.want(","); self.exp()
                if self.peek() == ",":
                    self.adv(); self.exp()
            else:
                while self.peek() == ",":
                    self.adv(); self.want("<name>")
                self.want("in"); self.explist()
            self.want("do"); self.block(); self.want("end")
        elif p == "repeat":
            self.adv(); self.block(); self.want("until"); self.exp()
        elif p == "function":
            self.adv(); self.want("<name>")
            while self.peek() == ".":
                self.adv(); self.want("<name>")
            if self.peek() == ":":
                self.adv(); self.want("<name>")
            self.funcbody()
        elif p == "local":
            self.adv()
            if self.peek() == "function":
                self.adv(); self.want("<name>"); self.funcbody()
            else:
                nclose = 0
                while True:
                    self.want("<name>")
                    if self.peek() == "<":
                        self.adv()
                        if self.peek() != "<name>":
                            raise Ref.Bad()
                        a = self.t[self.i].text
                        if a not in (b"const", b"close"):
                            raise Ref.Bad()
                        nclose += a == b"close"
                        self.adv(); self.want(">")
                    if self.peek() != ",":
                        break
                    self.adv()
                if nclose > 1:
                    raise Ref.Bad()
                if self.peek() == "=":
                    self.adv(); self.explist()
        elif p == "::":
            self.adv(); self.want("<name>"); self.want("::")
        elif p == "return":
            raise Ref.Bad()
        elif p == "break":
            self.adv()
        elif p == "goto":
            self.adv(); self.want("<name>")
        else:
            kind = self.suffixedexp()
            if self.peek() in ("=", ","):
                if kind != "var":
                    raise Ref.Bad()
                while self.peek() == ",":
                    self.adv()
                    if self.suffixedexp() != "var":
                        raise Ref.Bad()
                self.want("="); self.explist()
            elif kind != "call":
                raise Ref.Bad()

    def suffixedexp(self):
        p = self.peek()
        if p == "<name>":
            self.adv(); kind = "var"
        elif p == "(":
            self.adv(); self.exp(); self.want(")"); kind = "paren"
        else:
            raise Ref.Bad()
        while True:
            p = self.peek()
            if p == ".":
                self.adv(); self.want("<name>"); kind = "var"
            elif p == "[":
                self.adv(); self.exp(); self.want("]"); kind = "var"
            elif p == ":":
                self.adv(); self.want("<name>"); self.args(); kind = "call"
            elif p in ("(", "<string>", "{"):
                self.args(); kind = "call"
            else:
                return kind

    def args(self):
        p = self.peek()
        if p == "(":
            self.adv()
            if self.peek() != ")":
                self.explist()
            self.want(")")
        elif p == "{":
            self.table()
        elif p == "<string>":
            self.adv()
        else:
            raise Ref.Bad()

    def explist(self):
        self.exp()
        while self.peek() == ",":
            self.adv(); self.exp()

    def table(self):
        self.want("{")
        while self.peek() != "}":
            if self.peek() == "[":
                self.adv(); self.exp(); self.want("]"); self.want("="); self.exp()
            elif self.peek() == "<name>" and self.i + 1 < len(self.t) and self.t[self.i + 1].kind == "op" and self.t[self.i + 1].text == b"=":
                self.adv(); self.adv(); self.exp()
            else:
                self.exp()
            if self.peek() in (",", ";"):
                self.adv()
            else:
                break
        self.want("}")

    def funcbody(self):
        self.want("(")
        if self.peek() != ")":
            while True:
                if self.peek() == "...":
                    self.adv(); break
                self.want("<name>")
                if self.peek() != ",":
                    break
                self.adv()
        self.want(")"); self.block(); self.want("end")

    def simpleexp(self):
        p = self.peek()
        if p in ("<number>", "<string>", "nil", "true", "false", "..."):
            self.adv()
        elif p == "{":
            self.table()
        elif p == "function":
            self.adv(); self.funcbody()
        else:
            self.suffixedexp()

    def exp(self, limit=0):
        if self.peek() in ("not", "-", "~", "#"):
            self.adv(); self.exp(12)
        else:
            self.simpleexp()
        while True:
            p = self.peek()
            if p in Ref.PRI and Ref.PRI[p][0] > limit:
                self.adv(); self.exp(Ref.PRI[p][1])
            else:
                return


def ref_valid(tokens):
    r = Ref(tokens)
    try:
        r.block()
        return r.peek() == "<eof>"
    except Ref.Bad:
        return False
    except RecursionError:
        return False
