// Translator: regenerates table-like and structural facts of /repo's Go sources into coq/Generated/*.v.
// Standard library only (go/parser, go/ast, go/token). Each generator lives in its own gen_*.go file and
// registers itself; a generator that no longer recognises the Go shape it expects fails loudly (exit 1).
package main

import (
	"flag"
	"fmt"
	"io/ioutil"
	"os"
	"path/filepath"
	"sort"
)

type generator func(repo string) (fileName string, content string, err error)

var gens = map[string]generator{}

func registerGen(name string, g generator) { gens[name] = g }

func writeIfChanged(path, content string) error {
	old, err := ioutil.ReadFile(path)
	if err == nil && string(old) == content {
		return nil
	}
	return ioutil.WriteFile(path, []byte(content), 0644)
}

func main() {
	repo := flag.String("repo", "/repo", "repository root")
	out := flag.String("out", "", "output directory (coq/Generated)")
	flag.Parse()
	if *out == "" {
		fmt.Fprintln(os.Stderr, "-out required")
		os.Exit(2)
	}
	os.MkdirAll(*out, 0755)
	names := []string{}
	for n := range gens {
		names = append(names, n)
	}
	sort.Strings(names)
	failed := false
	for _, n := range names {
		fn, content, err := gens[n](*repo)
		if err != nil {
			// keep going: every generator is independent; a failure leaves a file that does not compile,
			// so exactly the ties/theorems depending on it stop checking.
			fmt.Printf("GENERATOR-FAILED %s: %v\n", n, err)
			failed = true
			if fn != "" {
				writeIfChanged(filepath.Join(*out, fn), fmt.Sprintf("(* generator %s failed: %v *)\nDefinition generator_failed : True := False.\n", n, err))
			}
			continue
		}
		if err := writeIfChanged(filepath.Join(*out, fn), content); err != nil {
			fmt.Printf("WRITE-FAILED %s: %v\n", fn, err)
			failed = true
		}
	}
	if failed {
		os.Exit(1)
	}
}
