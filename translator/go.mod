module veriftranslator

go 1.15
